#!/usr/bin/env python3
"""Regenerates MANIFEST.json from the per-property claim table below (kept in code so the
manifest is always schema-valid and in step with the rule modules)."""
import json, os, sys
VERIF = os.path.dirname(os.path.dirname(os.path.abspath(__file__)))
sys.path.insert(0, VERIF)
from rules.claims import CLAIMS, NOT_APPLICABLE   # noqa

props = [json.loads(l) for l in open(os.path.join(VERIF, 'properties.jsonl'))]
ids = [p['id'] for p in props]
checks = []
for pid in ids:
    c = CLAIMS.get(pid)
    if not c:
        continue
    checks.append({
        'property_id': pid,
        'quick_cmd': 'python3 bin/check.py %s --tier quick' % pid,
        'thorough_cmd': 'python3 bin/check.py %s --tier thorough' % pid,
        'evidence_file': 'evidence/%s.json' % pid,
        'replay_cmd_template': 'python3 bin/check.py --replay {path}',
        'engine': 'grcheck',
        'level_claimed': {'category': 'other', 'text': c['text'], 'design_ref': c.get('ref', 'DESIGN.md section 6, ' + pid)},
        'level_note': c['note'],
        'technique': c['technique'],
    })
na = []
for pid in ids:
    if pid in CLAIMS:
        continue
    na.append({'property_id': pid, 'reason': NOT_APPLICABLE.get(pid, 'check not built yet (framework under construction); DESIGN.md section 6 describes the planned rules')})
m = {
    'version': 1,
    'setup_cmd': 'make -C tools',
    'hooks': {'guard': 'GRAPHITE2_VERIF',
              'enable': 'no hooks: the analysis reads /repo sources as they are (no instrumentation is compiled in)',
              'baseline_off_cmd': 'cmake -G Ninja -S /repo -B /repo/_build >/dev/null && cmake --build /repo/_build >/dev/null && ctest --test-dir /repo/_build -j8 --timeout 900',
              'source_commits': [], 'add_only': True},
    'engines': [{'name': 'grcheck', 'path': 'bin/check.py',
                 'serves_properties': [c['property_id'] for c in checks],
                 'kind_free_text': 'static analysis: clang-14 frontend plugin (tools/grfacts: flat CFG + resolved AST facts per function), '
                                   'LLVM-14 IR fact dumper (tools/grir), Python rule engines (rules/*.py) evaluating repository-specific '
                                   'rule tables over those facts; nothing of Graphite2 is executed'}],
    'checks': checks,
    'notes': 'Exit 0 = every rule instance held; exit 1 + VIOLATION line; exit 2 = ANALYSIS-BROKEN (parse failure, vanished anchor, '
             'instance floor not met, unknown construct).  known_findings.json lists recorded defects and fix: commits.  See DESIGN.md.',
    'not_applicable': na,
}
json.dump(m, open(os.path.join(VERIF, 'MANIFEST.json'), 'w'), indent=1)
print('MANIFEST.json: %d checks, %d not_applicable' % (len(checks), len(na)))
