#!/usr/bin/env python3
"""Regenerate seeded/own_matrix.json and seeded/expected.json.

For every confirmed seeded change seeded/Cnn-k the check of ITS OWN property Cnn is run on a scratch copy with the change applied
(bin/seedmatrix.py --checks Cnn --only ...; nothing of Graphite2 is executed).  own_matrix.json records, per seed, the exit status and
the rules that reported it -- the table behind DESIGN.md section 13 ("which checks catch which changes").  expected.json is the part of
it the thorough tier replays as a sensitivity self-test: per property at most CAP seeds, chosen so that every rule that reports some
seed is represented before a rule is repeated (most recent seeds first).

usage: bin/mkexpected.py [--cap 14] [--props C01,C02,..]      (reads and updates seeded/own_matrix.json incrementally)
"""
import argparse, glob, json, os, subprocess, sys, tempfile
VERIF = os.path.dirname(os.path.dirname(os.path.abspath(__file__)))


def seeds_of(prop):
    out = []
    for d in glob.glob(os.path.join(VERIF, 'seeded', prop + '-*')):
        if os.path.exists(os.path.join(d, 'patch.diff')):
            out.append(os.path.basename(d))
    return sorted(out, key=lambda s: int(s.split('-')[1]))


def main():
    ap = argparse.ArgumentParser()
    ap.add_argument('--cap', type=int, default=14)
    ap.add_argument('--props', default=','.join('C%02d' % i for i in range(1, 21)))
    ap.add_argument('--reuse', action='store_true', help='do not re-run seeds already in own_matrix.json')
    a = ap.parse_args()
    ownf = os.path.join(VERIF, 'seeded', 'own_matrix.json')
    own = json.load(open(ownf)) if os.path.exists(ownf) else {}
    for prop in a.props.split(','):
        todo = [s for s in seeds_of(prop) if not (a.reuse and s in own)]
        if not todo:
            continue
        tmpj = tempfile.mktemp(prefix='grverif-own-', suffix='.json')
        subprocess.run([sys.executable, os.path.join(VERIF, 'bin', 'seedmatrix.py'), '--checks', prop, '--only', ','.join(todo), '--json', tmpj],
                       cwd=VERIF, stdout=subprocess.DEVNULL)
        got = json.load(open(tmpj))
        os.remove(tmpj)
        for s in todo:
            g = got.get(s, {})
            own[s] = {'exit': 1 if prop in (g.get('caught') or {}) else (2 if prop in (g.get('broken') or []) else 0),
                      'rules': (g.get('caught') or {}).get(prop, [])}
            if g.get('error'):
                own[s]['error'] = g['error']
        print('%s: %d seeds, %d reported, %d analysis-broken, %d missed' % (prop, len(todo), sum(1 for s in todo if own[s]['exit'] == 1),
                                                                             sum(1 for s in todo if own[s]['exit'] == 2), sum(1 for s in todo if own[s]['exit'] == 0)), flush=True)
        json.dump(own, open(ownf, 'w'), indent=0, sort_keys=True)
    # expected.json: rule diversity first, most recent seeds first
    exp = {}
    for prop in ['C%02d' % i for i in range(1, 21)]:
        ss = [s for s in reversed(seeds_of(prop)) if own.get(s, {}).get('exit') == 1 and own[s]['rules']]
        chosen, seen_rules = [], set()
        for s in ss:
            if set(own[s]['rules']) - seen_rules and len(chosen) < a.cap:
                chosen.append(s)
                seen_rules |= set(own[s]['rules'])
        for s in ss:
            if s not in chosen and len(chosen) < a.cap:
                chosen.append(s)
        for s in chosen:
            exp[s] = {'caught_by': {prop: own[s]['rules']}}
    json.dump({'_comment': 'Which registered check reports which confirmed seeded change (bin/mkexpected.py: the own-property column of the seed matrix on the pinned tree; the full '
                           'table is seeded/own_matrix.json). The thorough tier re-applies each seed listed here to a scratch copy and requires the listed check to still exit 1 naming '
                           'one of the listed rules. At most %d seeds per property, every reporting rule represented first.' % a.cap,
               'seeds': dict(sorted(exp.items()))}, open(os.path.join(VERIF, 'seeded', 'expected.json'), 'w'), indent=0)
    print('expected.json: %d seeds' % len(exp))


if __name__ == '__main__':
    main()
