#!/bin/bash
# usage: trymut.sh <Cnn> <name> '<shell commands editing ./src ./include>'
# hand mutation on a scratch copy of /repo's sources (outside /repo and /verif, removed afterwards): run one check on it
P=$1; NAME=$2; CMD=$3
D=$(mktemp -d /tmp/grverif-mut-XXXXXX)
cp -r /repo/src /repo/include "$D"/
( cd "$D" && eval "$CMD" )
VERIF_REPO=$D VERIF_EVIDENCE_DIR=$D/_ev VERIF_CACHE_DIR=$D/_cache python3 /verif/bin/check.py $P 2>&1 | grep -E "^  [A-Z0-9]+/|^ANALYSIS|exit [0-9]" | cut -c1-420
echo "== $NAME"
rm -rf "$D"
