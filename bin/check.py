#!/usr/bin/env python3
"""Entry point of every registered check.

    python3 bin/check.py C07 --tier quick|thorough
    python3 bin/check.py --replay evidence/replay/C07-<n>.json

exit 0  every rule instance held (or only listed known findings failed)
exit 1  VIOLATION property=<id> replay=<path>
exit 2  ANALYSIS-BROKEN property=<id> <why>   (never a pass, never a violation)

Static analysis only: nothing of Graphite2 is executed.  See DESIGN.md.
"""
import argparse
import importlib
import json
import os
import sys
import time
import traceback

VERIF = os.path.dirname(os.path.dirname(os.path.abspath(__file__)))
sys.path.insert(0, VERIF)

from rules import facts as F          # noqa: E402
from rules.cfg import Facts           # noqa: E402
from rules.facts import AnalysisBroken  # noqa: E402


class Run:
    """Collects rule-instance outcomes of one property run."""

    def __init__(self, prop, tier, seed, only=None):
        self.prop = prop
        self.tier = tier
        self.seed = seed
        self.only = only
        self.results = []          # dicts
        self._facts = {}
        self._ir = {}
        self.notes = []
        self.assumptions = []
        self.analysed = {}
        self.use_cache = (tier == 'quick') and not os.environ.get('VERIF_NO_CACHE')
        self.cfg_map = {}
        self.cfg_tag = ''

    # -- facts ------------------------------------------------------------------------
    def facts(self, cfg='Q0'):
        cfg = self.cfg_map.get(cfg, cfg)
        if cfg not in self._facts:
            m = F.extract_ast(cfg, use_cache=self.use_cache)
            self._facts[cfg] = Facts(m)
            self.analysed.setdefault('configurations', []).append(cfg)
            self.analysed['units_' + cfg] = len(m['units'])
            self.analysed['functions_' + cfg] = len(m['functions'])
            rn = m.get('_renamed') or {}
            if rn and not os.environ.get('VERIF_ALPHA'):
                self.analysed['renamed_locals_' + cfg] = len(rn)
                for q, names in sorted(rn.items())[:12]:
                    self.observe('%s: renamed locals are reported under their tabled names: %s' % (q, names))
        return self._facts[cfg]

    def ir(self, cfg='Q0'):
        cfg = self.cfg_map.get(cfg, cfg)
        if cfg not in self._ir:
            from rules import ir as IR
            self._ir[cfg] = IR.load(cfg, use_cache=self.use_cache)
            self.analysed['ir_functions_' + cfg] = len(self._ir[cfg].funcs)
            # helper functions that were merely renamed are presented under their tabled names (rules/localnames.py)
            cfg0 = [k for k, v in self.cfg_map.items() if v == cfg]
            rn = (self.facts(cfg0[0] if cfg0 else cfg).raw.get('_renamed') or {})
            for key, m in rn.items():
                if key.startswith('function '):
                    for a, b in m.items():
                        for f in self._ir[cfg].funcs.values():
                            if f['dem'].startswith(a) and f['dem'][len(a):len(a) + 1] in ('(', '<', ''):
                                f['dem'] = b + f['dem'][len(a):]
        return self._ir[cfg]

    # -- outcomes ------------------------------------------------------------------------
    def _add(self, status, rule, inst, where, msg, nontrivial, detail):
        if self.cfg_tag:
            inst = '[%s] %s' % (self.cfg_tag, inst)
        self.results.append({'status': status, 'rule': rule, 'instance': inst, 'where': where,
                             'msg': msg, 'nontrivial': bool(nontrivial), 'detail': detail})

    def held(self, rule, inst, where='', msg='', nontrivial=True, detail=None):
        self._add('held', rule, inst, where, msg, nontrivial, detail)

    def violated(self, rule, inst, where, msg, detail=None):
        self._add('violated', rule, inst, where, msg, True, detail)

    def broken(self, rule, inst, why, where=''):
        self._add('broken', rule, inst, where, why, False, None)

    def observe(self, text):
        self.notes.append(text)

    def assume(self, text):
        if text not in self.assumptions:
            self.assumptions.append(text)

    def count(self, rule):
        return sum(1 for r in self.results if r['rule'] == rule)


THOROUGH_CONFIGS = ['call', 'assert', 'nofile', 'tracing']


def thorough(prop, mod, run):
    """thorough tier: (1) re-evaluate the property's rules on the other build configurations (call-threaded VM, asserts on,
    no file face, tracing on); (2) self-test: re-apply every confirmed seeded change this property is expected to catch to a
    scratch copy of /repo's sources and require exit 1, and every neutral (behaviour-preserving) patch and require silence."""
    import subprocess
    out = {'configurations_thorough': ['Q0']}
    skip = set(getattr(mod, 'SKIP_CONFIGS', ()))
    for cfg in THOROUGH_CONFIGS:
        if cfg in skip:
            continue
        run.cfg_map = {'Q0': cfg}
        run.cfg_tag = cfg
        for a in [k for k in vars(run) if k.startswith('_vm_') or k.startswith('_eff_')]:
            delattr(run, a)
        before = len(run.results)
        try:
            mod.run(run)
        except AnalysisBroken as e:
            run.broken('CONFIG', cfg, 'analysis broken in configuration %s: %s' % (cfg, e))
        out['configurations_thorough'].append(cfg)
        out.setdefault('instances_per_configuration', {})[cfg] = len(run.results) - before
    run.cfg_map = {}
    run.cfg_tag = ''
    for a in [k for k in vars(run) if k.startswith('_vm_') or k.startswith('_eff_')]:
        delattr(run, a)
    # ---- self-test on scratch copies
    sm = os.path.join(VERIF, 'bin', 'seedmatrix.py')
    expf = os.path.join(VERIF, 'seeded', 'expected.json')
    if os.path.exists(expf):
        with open(expf) as fh:
            exp = json.load(fh)['seeds']
        mine = sorted(n for n, v in exp.items() if prop in v.get('caught_by', {}))
        if mine:
            tmpj = os.path.join(os.environ.get('TMPDIR', '/tmp'), 'grverif-selftest-%s-%d.json' % (prop, os.getpid()))
            p = subprocess.run([sys.executable, sm, '--checks', prop, '--only', ','.join(mine), '--json', tmpj], capture_output=True, text=True, cwd=VERIF)
            try:
                with open(tmpj) as fh:
                    got = json.load(fh)
                os.remove(tmpj)
            except Exception:
                got = {}
            ok = 0
            for n in mine:
                rules = (got.get(n, {}).get('caught') or {}).get(prop)
                want = exp[n]['caught_by'][prop]
                if rules and set(rules) & set(want):
                    ok += 1
                    run.held('SELFTEST', 'seed %s' % n, 'seeded/%s/patch.diff' % n, 'reported by %s as before' % '+'.join(rules))
                else:
                    run.broken('SELFTEST', 'seed %s' % n, 'the confirmed seeded change %s is no longer reported by %s (expected rule %s, got %s): the check lost sensitivity'
                               % (n, prop, want, got.get(n)))
            out['selftest_seeds'] = {'expected': len(mine), 'caught': ok}
    # ---- positive controls (hand-written, for rules no confirmed seed hits)
    ctlf = os.path.join(VERIF, 'selftest', 'controls', 'expected.json')
    if os.path.exists(ctlf):
        with open(ctlf) as fh:
            ctl = json.load(fh)['controls']
        mine = sorted(n for n, v in ctl.items() if prop in v)
        if mine:
            tmpj = os.path.join(os.environ.get('TMPDIR', '/tmp'), 'grverif-controls-%s-%d.json' % (prop, os.getpid()))
            subprocess.run([sys.executable, sm, '--checks', prop, '--dir', 'selftest/controls', '--only', ','.join(mine), '--json', tmpj], capture_output=True, text=True, cwd=VERIF)
            try:
                with open(tmpj) as fh:
                    got = json.load(fh)
                os.remove(tmpj)
            except Exception:
                got = {}
            for n in mine:
                rules = (got.get(n, {}).get('caught') or {}).get(prop)
                if rules and set(rules) & set(ctl[n][prop]):
                    run.held('SELFTEST', 'control %s' % n, 'selftest/controls/%s.diff' % n, 'reported by %s' % '+'.join(rules))
                else:
                    run.broken('SELFTEST', 'control %s' % n, 'the positive control selftest/controls/%s.diff is no longer reported by %s (expected %s, got %s)' % (n, prop, ctl[n][prop], got.get(n)))
    # ---- metamorphic: a consistent renaming of locals/parameters (all of them, and two disjoint halves) must not change any verdict
    al = 0
    for modpick in (('1', '0'), ('2', '0'), ('2', '1')):
        env = dict(os.environ, VERIF_ALPHA='_zq', VERIF_ALPHA_MOD=modpick[0], VERIF_ALPHA_PICK=modpick[1],
                   VERIF_EVIDENCE_DIR=os.path.join(os.environ.get('TMPDIR', '/tmp'), 'grverif-alpha-%s-%d' % (prop, os.getpid())))
        q = subprocess.run([sys.executable, os.path.join(VERIF, 'bin', 'check.py'), prop], capture_output=True, text=True, env=env, cwd=VERIF)
        import shutil
        shutil.rmtree(env['VERIF_EVIDENCE_DIR'], ignore_errors=True)
        inst = 'alpha-renaming of locals (subset %s/%s)' % (modpick[1], modpick[0])
        if q.returncode == 0:
            al += 1
            run.held('SELFTEST', inst, '', 'verdicts unchanged when the facts are presented with renamed locals and parameters', False)
        else:
            run.broken('SELFTEST', inst, 'FALSE ALARM: renaming locals changes the verdict of %s (exit %d): %s' % (prop, q.returncode, (q.stdout.strip().splitlines() or [''])[-3:]))
    out['selftest_alpha'] = {'variants': 3, 'silent': al}
    neutral = sorted(os.listdir(os.path.join(VERIF, 'selftest', 'neutral'))) if os.path.isdir(os.path.join(VERIF, 'selftest', 'neutral')) else []
    neutral = [n for n in neutral if n.endswith('.diff')]
    if neutral:
        tmpj = os.path.join(os.environ.get('TMPDIR', '/tmp'), 'grverif-neutral-%s-%d.json' % (prop, os.getpid()))
        p = subprocess.run([sys.executable, sm, '--checks', prop, '--dir', 'selftest/neutral', '--json', tmpj], capture_output=True, text=True, cwd=VERIF)
        try:
            with open(tmpj) as fh:
                got = json.load(fh)
            os.remove(tmpj)
        except Exception:
            got = {}
        silent = 0
        for n, r in sorted(got.items()):
            if r.get('error'):
                run.observe('neutral patch %s did not apply: %s' % (n, r['error'][:80]))
                continue
            if prop in (r.get('caught') or {}):
                run.broken('SELFTEST', 'neutral %s' % n, 'FALSE ALARM: the behaviour-preserving patch selftest/neutral/%s.diff makes %s report %s' % (n, prop, r['caught'][prop]))
            else:
                silent += 1
                run.held('SELFTEST', 'neutral %s' % n, 'selftest/neutral/%s.diff' % n, 'no violation reported on a behaviour-preserving patch' + (' (analysis-broken: needs re-confirmation)' if prop in r.get('broken', []) else ''), False)
        out['selftest_neutral'] = {'patches': len(got), 'silent': silent}
    return out


def load_known():
    p = os.path.join(VERIF, 'known_findings.json')
    if not os.path.exists(p):
        return {'findings': [], 'fixed': []}
    with open(p) as fh:
        return json.load(fh)


def write_evidence(prop, tier, seed, level, run, wall, nviol, explanation, extra=None):
    evdir = os.environ.get('VERIF_EVIDENCE_DIR') or os.path.join(VERIF, 'evidence')
    os.makedirs(evdir, exist_ok=True)
    insts = {}
    for r in run.results:
        insts.setdefault((r['rule'], r['instance']), r)
    nontriv = sum(1 for r in insts.values() if r['nontrivial'] and r['status'] != 'broken')
    by_rule = {}
    for (rule, _), r in insts.items():
        d = by_rule.setdefault(rule, {'instances': 0, 'held': 0, 'violated': 0, 'broken': 0})
        d['instances'] += 1
        d[r['status']] += 1
    samples = []
    seen_rules = {}
    for (rule, inst), r in insts.items():
        if seen_rules.get(rule, 0) >= 3:
            continue
        seen_rules[rule] = seen_rules.get(rule, 0) + 1
        samples.append({'rule': rule, 'instance': inst, 'where': r['where'], 'status': r['status'],
                        'what': r['msg'][:300]})
    cov = {
        'explanation': explanation,
        'evaluations': len(run.results),
        'distinct_nontrivial': nontriv,
        'rule': 'one evaluation = one rule instance (rule id + instance key resolved from the AST/CFG/IR facts '
                'of the current tree); non-trivial = the instance required a dominance / path / dataflow / '
                'normal-form query over at least one function body (anchor-existence and constant lookups '
                'are counted as trivial)',
        'samples': samples[:40],
        'per_rule': by_rule,
        'analysed': run.analysed,
        'observations': run.notes[:60],
        'exhaustive': True,
    }
    if extra:
        cov.update(extra)
    ev = {'property_id': prop, 'tier': tier, 'seed': seed, 'level': level, 'coverage': cov,
          'assumptions': run.assumptions, 'wall_s': round(wall, 2), 'violations': nviol}
    with open(os.path.join(evdir, prop + '.json'), 'w') as fh:
        json.dump(ev, fh, indent=1, default=str)


def main():
    ap = argparse.ArgumentParser()
    ap.add_argument('prop', nargs='?')
    ap.add_argument('--tier', default=os.environ.get('VERIF_TIER', 'quick'))
    ap.add_argument('--replay')
    ap.add_argument('--no-cache', action='store_true')
    ap.add_argument('--verbose', '-v', action='store_true')
    args = ap.parse_args()
    if args.no_cache:
        os.environ['VERIF_NO_CACHE'] = '1'
    seed = int(os.environ.get('VERIF_SEED', '0') or 0)
    only = None
    if args.replay:
        with open(args.replay) as fh:
            rp = json.load(fh)
        args.prop = rp['property']
        only = (rp['rule'], rp['instance'])
    if not args.prop:
        ap.error('property id required')
    prop = args.prop.upper()
    tier = 'thorough' if args.tier.startswith('t') else 'quick'
    t0 = time.time()
    run = Run(prop, tier, seed, only)
    try:
        mod = importlib.import_module('rules.' + prop.lower())
    except ImportError as e:
        print('ANALYSIS-BROKEN property=%s no rule module: %s' % (prop, e))
        return 2
    broken_msgs = []
    extra = {}
    try:
        mod.run(run)
        floors = getattr(mod, 'FLOORS', {})
        for rule, floor in floors.items():
            n = len({r['instance'] for r in run.results if r['rule'] == rule})
            if n < floor:
                run.broken(rule, '*', 'rule matched %d instances, below the hand-confirmed floor %d' % (n, floor))
        if tier == 'thorough' and not only:
            extra = thorough(prop, mod, run)
    except AnalysisBroken as e:
        broken_msgs.append(str(e))
    except Exception as e:                                  # engine bug: never a pass
        broken_msgs.append('internal error: %r\n%s' % (e, traceback.format_exc()))

    known = load_known()
    kf = {(k['property'], k['rule'], k['instance']): k for k in known.get('findings', [])}
    viol = [r for r in run.results if r['status'] == 'violated']
    brok = [r for r in run.results if r['status'] == 'broken']
    if only:
        viol = [r for r in viol if (r['rule'], r['instance']) == only]
    new_viol, listed = [], []
    import re as _re
    for r in viol:
        # the same rule instance evaluated on another build configuration ("[call] ...", "[tracing] ...") is the same finding
        bare = _re.sub(r'^\[(call|tracing|assert|nofile)\] ', '', r['instance'])
        if (prop, r['rule'], r['instance']) in kf or (prop, r['rule'], bare) in kf:
            listed.append(r)
        else:
            new_viol.append(r)

    # report ---------------------------------------------------------------------------------
    per_rule = {}
    for r in run.results:
        per_rule.setdefault(r['rule'], [0, 0, 0])
        per_rule[r['rule']][{'held': 0, 'violated': 1, 'broken': 2}[r['status']]] += 1
    print('property %s tier %s: %d rule instances over %s' % (
        prop, tier, len(run.results), json.dumps(run.analysed)))
    for rule, (h, v, b) in sorted(per_rule.items()):
        print('  rule %-14s held=%d violated=%d broken=%d' % (rule, h, v, b))
    if args.verbose:
        for r in run.results:
            print('   [%s] %s/%s %s %s' % (r['status'], r['rule'], r['instance'], r['where'], r['msg']))
    for n in run.notes[:200] if args.verbose else []:
        print('  note:', n)
    seen = set()
    for r in listed:
        if (r['rule'], r['instance']) in seen:
            continue
        seen.add((r['rule'], r['instance']))
        print('KNOWN-FINDING: property=%s %s/%s at %s: %s' % (prop, r['rule'], r['instance'], r['where'], r['msg']))

    code = 0
    if broken_msgs or brok:
        for m in broken_msgs:
            print('ANALYSIS-BROKEN property=%s %s' % (prop, m))
        for r in brok:
            print('ANALYSIS-BROKEN property=%s %s/%s %s %s' % (prop, r['rule'], r['instance'], r['where'], r['msg']))
        code = 2
    if new_viol:
        evdir = os.environ.get('VERIF_EVIDENCE_DIR') or os.path.join(VERIF, 'evidence')
        os.makedirs(os.path.join(evdir, 'replay'), exist_ok=True)
        for i, r in enumerate(new_viol):
            path = os.path.join(os.path.relpath(evdir, VERIF) if evdir.startswith(VERIF) else evdir, 'replay', '%s-%d.json' % (prop, i))
            with open(os.path.join(VERIF, path) if not os.path.isabs(path) else path, 'w') as fh:
                json.dump({'property': prop, 'rule': r['rule'], 'instance': r['instance'], 'where': r['where'],
                           'msg': r['msg'], 'detail': r['detail']}, fh, indent=1, default=str)
            print('VIOLATION property=%s replay=%s' % (prop, path))
            print('  %s/%s at %s: %s' % (r['rule'], r['instance'], r['where'], r['msg']))
            if r['detail']:
                print('  detail: %s' % json.dumps(r['detail'], default=str)[:1500])
        code = 1        # a violation takes precedence over analysis-broken instances
    wall = time.time() - t0
    if not only:
        expl = getattr(mod, 'EXPLANATION', '')
        if broken_msgs:
            expl = 'ANALYSIS BROKEN on this run: ' + '; '.join(broken_msgs)[:500] + ' -- ' + expl
        write_evidence(prop, tier, seed, getattr(mod, 'LEVEL', 'other'), run, wall,
                       len(new_viol), expl, dict(extra or {}, **(getattr(mod, 'extra_evidence', lambda r: {})(run) or {})))
    print('%s: exit %d (%.1fs)' % (prop, code, wall))
    return code


if __name__ == '__main__':
    sys.exit(main())
