#!/bin/bash
# usage: bin/trypatch.sh <patch> <Cnn> [more checks]: run checks against a scratch copy of /repo's sources with the patch applied (nothing is executed)
set -e
P=$(readlink -f "$1"); shift
D=$(mktemp -d /tmp/grverif-try-XXXX)
trap 'rm -rf "$D"' EXIT
cp -r /repo/src /repo/include "$D"/
patch -p1 -s -d "$D" -i "$P"
for c in "$@"; do
  VERIF_REPO=$D VERIF_EVIDENCE_DIR=$D/_ev VERIF_CACHE_DIR=$D/_cache python3 /verif/bin/check.py $c || true
done
