#!/bin/bash
# usage: tryseed2.sh <seed> <Cnn> [-v]  -- apply a stored seed to a scratch copy and run one check on it
S=$1; P=$2; V=$3
D=$(mktemp -d /tmp/grverif-seed-XXXXXX)
cp -r /repo/src /repo/include "$D"/
patch -p1 -s -d "$D" -i /verif/seeded/$S/patch.diff || { echo "patch failed"; rm -rf "$D"; exit 3; }
VERIF_REPO=$D VERIF_EVIDENCE_DIR=$D/_ev VERIF_CACHE_DIR=$D/_cache python3 /verif/bin/check.py $P $V 2>&1 | grep -vE "^\s+\[held\]" | cut -c1-500 | tail -${TAILN:-25}
rm -rf "$D"
