#!/bin/bash
# usage: confirm_seed.sh <Cnn> <N> [<root> [<K>]] -- root = directory holding the worktrees (default /tmp/mut), K = number to keep it under (default N)
# independently re-confirm a sub-agent's seeded change in its scratch worktree
# and, if confirmed, keep it as /verif/seeded/<Cnn>-<N>/ (patch.diff, demo files, meta.json)
ID=$1; N=$2; ROOT=${3:-/tmp/mut}; K=${4:-$N}; W=$ROOT/$ID; M=$W/_mut; OUT=/verif/seeded/$ID-$K; LOG=$ROOT/confirm-$ID-$N.log
cd $W || exit 9
exec >$LOG 2>&1
git checkout -q -- src include
git apply --check $M/patch$N.diff || { echo "RESULT: patch does not apply"; exit 1; }
git apply $M/patch$N.diff
cmake -G Ninja -B _build -DCMAKE_BUILD_TYPE=RelWithDebInfo >/dev/null && cmake --build _build -j4 >/dev/null 2>&1 || { echo "RESULT: build failed with patch"; git checkout -q -- src include; exit 1; }
PASSED=$(ctest --test-dir _build -j4 --timeout 900 2>&1 | grep -c "Passed")
echo "tests passed with patch: $PASSED"
timeout 900 sh $M/run$N.sh >$ROOT/run-$ID-$N-patched.out 2>&1; RC_P=$?
echo "demo with patch: rc=$RC_P"
git checkout -q -- src include
cmake --build _build -j4 >/dev/null 2>&1
timeout 900 sh $M/run$N.sh >$ROOT/run-$ID-$N-clean.out 2>&1; RC_C=$?
echo "demo without patch: rc=$RC_C"
if [ "$PASSED" = "87" ] && [ $RC_P -ne 0 ] && [ $RC_C -eq 0 ]; then
  mkdir -p $OUT
  cp $M/patch$N.diff $OUT/patch.diff
  for f in $M/*; do
    [ -f "$f" ] || continue
    b=$(basename "$f")
    case "$b" in
      patch[0-9]*.diff|demo[0-9]*|run[0-9]*.sh|notes[0-9]*.md|out[0-9]*) case "$b" in patch$N.diff|demo$N.*|demo${N}_*|run$N.sh|notes$N.md) ;; *) continue;; esac;;
    esac
    [ "$b" = "patch$N.diff" ] && continue
    [ $(stat -c %s "$f") -lt 400000 ] || continue
    file -b "$f" | grep -q "ELF" && continue
    cp -L "$f" $OUT/
  done
  tail -5 $ROOT/run-$ID-$N-patched.out > $OUT/demo_output_patched.txt
  python3 - <<PY
import json
json.dump({"property":"$ID","seed":"$ID-$K","base_commit":"$(git rev-parse HEAD)",
 "needs":open("$M/notes$N.md").read()[:1500],
 "confirmed":{"tests_passed_with_patch":$PASSED,"demo_rc_with_patch":$RC_P,"demo_rc_without_patch":$RC_C,
   "ran":"git apply patch; cmake --build; ctest (87 pass); sh _mut/run$N.sh (fails); git checkout; rebuild; sh _mut/run$N.sh (passes) in scratch worktree $W"}},
 open("$OUT/meta.json","w"),indent=1)
PY
  echo "RESULT: CONFIRMED -> $OUT"
else
  echo "RESULT: NOT CONFIRMED (passed=$PASSED rc_patched=$RC_P rc_clean=$RC_C)"
fi
