#!/bin/bash
# usage: reconfirm.sh <seed-id>     re-confirm a stored seed against /repo's HEAD in a scratch worktree (removed afterwards):
# patch applies, builds, 87 tests pass, demo fails with the patch and passes without it
S=$1; W=/tmp/rc-$S; SD=/verif/seeded/$S
git -C /repo worktree remove --force $W 2>/dev/null; rm -rf $W
git -C /repo worktree add -q --detach $W HEAD || exit 9
mkdir -p $W/_mut; cp -r $SD/* $W/_mut/
cd $W
RUN=$(ls _mut/run*.sh | head -1)
git apply --check _mut/patch.diff || { echo "$S RESULT: patch does not apply"; cd /; git -C /repo worktree remove --force $W; exit 1; }
git apply _mut/patch.diff
cmake -G Ninja -B _build -DCMAKE_BUILD_TYPE=RelWithDebInfo >/dev/null && cmake --build _build -j8 >/dev/null 2>&1 || { echo "$S RESULT: build failed"; cd /; git -C /repo worktree remove --force $W; exit 1; }
PASSED=$(ctest --test-dir _build -j8 --timeout 900 2>&1 | grep -c "Passed")
timeout 900 sh $RUN >/tmp/rc-$S-patched.out 2>&1; RC_P=$?
git checkout -q -- src include
cmake --build _build -j8 >/dev/null 2>&1
timeout 900 sh $RUN >/tmp/rc-$S-clean.out 2>&1; RC_C=$?
echo "$S RESULT: passed=$PASSED rc_patched=$RC_P rc_clean=$RC_C $([ "$PASSED" = 87 ] && [ $RC_P -ne 0 ] && [ $RC_C -eq 0 ] && echo CONFIRMED || echo NOT-CONFIRMED)"
cd /; git -C /repo worktree remove --force $W; rm -rf $W
