#!/bin/sh
# usage: bin/tryseed.sh <patch> <Cnn> [<Cnn>...] : apply a patch to /repo, run checks, undo
p=$1; shift
git -C /repo apply "$p" || { echo "PATCH DOES NOT APPLY"; exit 3; }
for c in "$@"; do python3 /verif/bin/check.py $c 2>&1 | grep -E "VIOLATION|BROKEN|exit|^  [A-Z]+/" | cut -c1-420; done
git -C /repo checkout -- . 
