#!/usr/bin/env python3
"""debug helper: print the root statements of a function's CFG"""
import sys, os
sys.path.insert(0, os.path.dirname(os.path.dirname(os.path.abspath(__file__))))
from rules import facts as F
from rules.cfg import Facts
cfg = os.environ.get('CFG', 'Q0')
fx = Facts(F.extract_ast(cfg))
for f in fx.fns_named(sys.argv[1]):
    print('====', f.qt, f.f['sig'], f.where(), 'entry', f.entry, 'exit', f.exit)
    for b in f.f['blocks']:
        print(' B%d' % b['id'], 'label=%s' % b['label'] if b.get('label') else '', 'term=%s' % b['term'] if b.get('term') else '', '->', b['succ'], 'NORET' if b.get('noret') else '')
        for e in b['el']:
            if len(sys.argv) > 2 or f.is_root(e['i']):
                print('     %d %s %s' % (e['i'], e['k'], f.render(e) if e['k'] not in ('Init','AutoDtor','TempDtor','MemberDtor','BaseDtor','DeleteDtor') else {k:v for k,v in e.items() if k not in ('i',)}))
