#!/usr/bin/env python3
"""Apply every patch under seeded/*/patch.diff (and selftest/*.diff) to its own scratch copy of /repo's sources
(outside /repo and /verif, removed afterwards), run the listed checks against the copy and print which rule catches what.
Nothing of Graphite2 is executed.   usage: bin/seedmatrix.py [--checks C01,C02,..] [--only C03-1,...] [--json out]"""
import argparse, glob, json, os, re, shutil, subprocess, sys, tempfile
from concurrent.futures import ThreadPoolExecutor
VERIF = os.path.dirname(os.path.dirname(os.path.abspath(__file__)))
REPO = os.environ.get('VERIF_REPO', '/repo')
ALL = ['C%02d' % i for i in range(1, 21)]
# checks whose rules read a closed set of files (every function they interpret or match lives there): a patch that touches none of them
# cannot change their verdict, so the matrix does not spend 16 processes on it
READS = {'C17': {'src/Intervals.cpp', 'src/inc/Intervals.h', 'src/Collider.cpp', 'src/inc/Collider.h', 'src/Pass.cpp', 'src/inc/List.h', 'src/inc/Main.h', 'src/inc/Position.h'}}


def one(args):
    name, patch, checks, root = args
    d = os.path.join(root, name)
    os.makedirs(d)
    for sub in ('src', 'include'):
        shutil.copytree(os.path.join(REPO, sub), os.path.join(d, sub))
    p = subprocess.run(['patch', '-p1', '-s', '-d', d, '-i', patch], capture_output=True, text=True)
    if p.returncode != 0:
        shutil.rmtree(d, ignore_errors=True)
        return name, None, 'patch does not apply: ' + (p.stdout + p.stderr)[-200:]
    env = dict(os.environ, VERIF_REPO=d, VERIF_EVIDENCE_DIR=os.path.join(d, '_ev'), VERIF_CACHE_DIR=os.path.join(d, '_cache'))
    res = {}
    touched = set(re.findall(r'^\+\+\+ b/(\S+)', open(patch).read(), re.M))
    for c in checks:
        only_reads = READS.get(c)
        if only_reads and not (touched & only_reads):
            res[c] = {'exit': 0, 'rules': [], 'first': '', 'broken': [], 'skipped': 'the patch touches none of the files this check reads'}
            continue
        env = dict(env, VERIF_SERIAL='1')          # the matrix is the parallel dimension: the checks' own fork pools would only oversubscribe the cores
        q = subprocess.run([sys.executable, os.path.join(VERIF, 'bin', 'check.py'), c], capture_output=True, text=True, env=env, cwd=VERIF)
        rules = sorted(set(re.findall(r'^  ([A-Z0-9]+)/', q.stdout, re.M)))
        res[c] = {'exit': q.returncode, 'rules': rules, 'first': (re.findall(r'^  [A-Z0-9]+/.*$', q.stdout, re.M) or [''])[0][:300],
                  'broken': re.findall(r'^ANALYSIS-BROKEN.*$', q.stdout, re.M)[:2]}
    shutil.rmtree(d, ignore_errors=True)
    return name, res, ''


def main():
    ap = argparse.ArgumentParser()
    ap.add_argument('--checks', default=','.join(ALL))
    ap.add_argument('--only', default='')
    ap.add_argument('--json', default='')
    ap.add_argument('--dir', default='seeded')
    a = ap.parse_args()
    checks = a.checks.split(',')
    items = []
    for p in sorted(glob.glob(os.path.join(VERIF, a.dir, '*', 'patch.diff') if not os.path.isabs(a.dir) else os.path.join(a.dir, '*', 'patch.diff'))) + sorted(glob.glob(os.path.join(a.dir if os.path.isabs(a.dir) else os.path.join(VERIF, a.dir), '*.diff'))):
        name = os.path.basename(os.path.dirname(p)) if p.endswith('patch.diff') else os.path.basename(p)[:-5]
        if a.only and name not in a.only.split(','):
            continue
        items.append((name, p))
    root = tempfile.mkdtemp(prefix='grverif-seeds-')
    try:
        with ThreadPoolExecutor(max_workers=int(os.environ.get('VERIF_MATRIX_JOBS', '14'))) as ex:
            out = list(ex.map(one, [(n, p, checks, root) for n, p in items]))
    finally:
        shutil.rmtree(root, ignore_errors=True)
    table = {}
    for name, res, err in out:
        if res is None:
            print('%-10s %s' % (name, err))
            table[name] = {'error': err}
            continue
        caught = {c: r for c, r in res.items() if r['exit'] == 1}
        broke = {c: r for c, r in res.items() if r['exit'] == 2}
        own = name.split('-')[0]
        print('%-10s caught by: %s%s' % (name, ', '.join('%s[%s]' % (c, '+'.join(r['rules'])) for c, r in sorted(caught.items())) or '-- MISSED --',
                                       ('   exit2: ' + ','.join(sorted(broke))) if broke else ''))
        table[name] = {'caught': {c: r['rules'] for c, r in caught.items()}, 'broken': sorted(broke), 'own_property_catches': own in caught}
    if a.json:
        json.dump(table, open(a.json, 'w'), indent=1)


if __name__ == '__main__':
    main()
