#!/bin/bash
# usage: tryneutral.sh <name> <Cnn> [-v] -- apply selftest/neutral/<name>.diff to a scratch copy and run one check on it
S=$1; P=$2; V=$3
D=$(mktemp -d /tmp/grverif-neu-XXXXXX)
cp -r /repo/src /repo/include "$D"/
patch -p1 -s -d "$D" -i /verif/selftest/neutral/$S.diff || { echo "patch failed"; rm -rf "$D"; exit 3; }
VERIF_REPO=$D VERIF_EVIDENCE_DIR=$D/_ev VERIF_CACHE_DIR=$D/_cache python3 /verif/bin/check.py $P $V 2>&1 | grep -E "^  [A-Z0-9]+/|^ANALYSIS|exit [0-9]" | cut -c1-${CUT:-600}
rm -rf "$D"
