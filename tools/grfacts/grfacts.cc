// grfacts: clang-14 frontend plugin that dumps, for every function with a body that
// is spelled under a given root directory, a flat three-address view of its
// clang::CFG (every sub-expression is its own element, setAllAlwaysAdd), with
// resolved callees / declarations / folded constants / canonical types, plus
// declaration-level facts (records, enums, variables with initialisers).
// Output: one JSON document per translation unit.  Decides nothing itself.
//
//   clang++ -fsyntax-only -fplugin=grfacts.so -Xclang -plugin -Xclang grfacts \
//       -Xclang -plugin-arg-grfacts -Xclang out=<file> \
//       -Xclang -plugin-arg-grfacts -Xclang root=<dir>  <flags> unit.cpp
#include "clang/AST/AST.h"
#include "clang/AST/ASTConsumer.h"
#include "clang/AST/Mangle.h"
#include "clang/AST/RecursiveASTVisitor.h"
#include "clang/AST/ExprCXX.h"
#include "clang/AST/StmtCXX.h"
#include "clang/Analysis/CFG.h"
#include "clang/Basic/SourceManager.h"
#include "clang/Frontend/CompilerInstance.h"
#include "clang/Frontend/FrontendPluginRegistry.h"
#include "clang/Lex/Lexer.h"
#include "llvm/Support/JSON.h"
#include "llvm/Support/raw_ostream.h"
#include <map>
#include <set>
#include <string>

using namespace clang;
namespace json = llvm::json;

namespace {

struct Ctx {
  ASTContext *AC = nullptr;
  SourceManager *SM = nullptr;
  std::unique_ptr<MangleContext> MC;
  std::string Root;
  PrintingPolicy PP{LangOptions()};
};

static std::string fileOf(Ctx &C, SourceLocation L) {
  if (L.isInvalid()) return "";
  SourceLocation E = C.SM->getExpansionLoc(L);
  PresumedLoc P = C.SM->getPresumedLoc(E);
  if (P.isInvalid()) return "";
  return P.getFilename();
}
static bool inRoot(Ctx &C, SourceLocation L) {
  std::string F = fileOf(C, L);
  if (F.empty()) return false;
  llvm::SmallString<256> Abs(F);
  C.SM->getFileManager().makeAbsolutePath(Abs);
  llvm::sys::path::remove_dots(Abs, true);
  return llvm::StringRef(Abs).startswith(C.Root);
}
static std::string relFile(Ctx &C, SourceLocation L) {
  std::string F = fileOf(C, L);
  llvm::SmallString<256> Abs(F);
  C.SM->getFileManager().makeAbsolutePath(Abs);
  llvm::sys::path::remove_dots(Abs, true);
  llvm::StringRef R(Abs);
  if (R.startswith(C.Root)) { R = R.drop_front(C.Root.size()); while (R.startswith("/")) R = R.drop_front(1); }
  return R.str();
}
static unsigned lineOf(Ctx &C, SourceLocation L) {
  if (L.isInvalid()) return 0;
  return C.SM->getExpansionLineNumber(L);
}
static unsigned colOf(Ctx &C, SourceLocation L) {
  if (L.isInvalid()) return 0;
  return C.SM->getExpansionColumnNumber(L);
}
static std::string macroOf(Ctx &C, SourceLocation L) {
  if (L.isValid() && L.isMacroID())
    return Lexer::getImmediateMacroName(L, *C.SM, C.AC->getLangOpts()).str();
  return "";
}

static std::string typeStr(Ctx &C, QualType T) {
  if (T.isNull()) return "";
  return T.getCanonicalType().getAsString(C.PP);
}

static std::string qualName(Ctx &C, const NamedDecl *D) {
  if (!D) return "";
  std::string S;
  llvm::raw_string_ostream OS(S);
  D->getNameForDiagnostic(OS, C.PP, /*Qualified=*/true);
  OS.flush();
  return S;
}
static std::string plainQual(const NamedDecl *D) {
  if (!D) return "";
  return D->getQualifiedNameAsString();
}

static std::string mangled(Ctx &C, const FunctionDecl *FD) {
  if (!FD) return "";
  if (FD->isDependentContext() || FD->isTemplated()) return "";
  std::string S;
  llvm::raw_string_ostream OS(S);
  if (isa<CXXConstructorDecl>(FD))
    C.MC->mangleName(GlobalDecl(cast<CXXConstructorDecl>(FD), Ctor_Base), OS);
  else if (isa<CXXDestructorDecl>(FD))
    C.MC->mangleName(GlobalDecl(cast<CXXDestructorDecl>(FD), Dtor_Base), OS);
  else if (C.MC->shouldMangleDeclName(FD))
    C.MC->mangleName(GlobalDecl(FD), OS);
  else
    OS << FD->getName();
  OS.flush();
  return S;
}

static void putInt(json::Object &O, const char *K, const llvm::APSInt &V) {
  if (V.isSigned() || V.getActiveBits() < 64) {
    if (V.getMinSignedBits() <= 64 || V.getActiveBits() < 64)
      O[K] = (int64_t)(V.isSigned() ? V.getExtValue() : (int64_t)V.getZExtValue());
    else
      O[K] = llvm::toString(V, 10);
  } else
    O[K] = llvm::toString(V, 10);
}

struct FnEmitter {
  Ctx &C;
  const FunctionDecl *FD;
  std::map<const Stmt *, int> Elem;       // statement -> element id
  std::map<const Decl *, int> VarId;      // local decl -> small id
  FnEmitter(Ctx &c, const FunctionDecl *fd) : C(c), FD(fd) {}

  int varId(const Decl *D) {
    auto It = VarId.find(D);
    if (It != VarId.end()) return It->second;
    int N = (int)VarId.size();
    VarId[D] = N;
    return N;
  }

  void putCallee(json::Object &O, const FunctionDecl *Callee) {
    if (!Callee) return;
    O["fn"] = qualName(C, Callee);
    O["fq"] = plainQual(Callee);
    std::string M = mangled(C, Callee);
    if (!M.empty()) O["fm"] = M;
    if (auto *MD = dyn_cast<CXXMethodDecl>(Callee)) {
      if (MD->isVirtual()) O["virt"] = true;
      if (MD->isConst()) O["fconst"] = true;
      if (MD->isStatic()) O["fstatic"] = true;
    }
    if (Callee->isNoReturn()) O["noret"] = true;
  }

  json::Value child(const Stmt *S) {
    if (!S) return nullptr;
    const Stmt *K = S;
    if (auto *E = dyn_cast<Expr>(S)) K = E->IgnoreParens();
    auto It = Elem.find(K);
    if (It != Elem.end()) return It->second;
    return node(K, false);
  }

  json::Value node(const Stmt *S, bool Top) {
    json::Object O;
    O["k"] = S->getStmtClassName();
    if (Top) {
      SourceLocation L = S->getBeginLoc();
      O["ln"] = lineOf(C, L);
      O["col"] = colOf(C, L);
      std::string M = macroOf(C, L);
      if (!M.empty()) O["mac"] = M;
    }
    if (auto *E = dyn_cast<Expr>(S)) {
      O["t"] = typeStr(C, E->getType());
      if (E->isLValue()) O["lv"] = true;
      if (!E->isValueDependent() && !E->getType().isNull() &&
          E->getType()->isIntegralOrEnumerationType() && E->isPRValue()) {
        Expr::EvalResult R;
        if (E->EvaluateAsInt(R, *C.AC, Expr::SE_NoSideEffects))
          putInt(O, "v", R.Val.getInt());
      }
    }
    bool GenericChildren = true;
    if (auto *DR = dyn_cast<DeclRefExpr>(S)) {
      const ValueDecl *D = DR->getDecl();
      O["d"] = plainQual(D);
      O["dk"] = D->getDeclKindName();
      if (auto *VD = dyn_cast<VarDecl>(D)) {
        if (VD->isLocalVarDeclOrParm()) O["vid"] = varId(VD);
        if (VD->isStaticLocal()) O["sl"] = true;
        if (VD->hasGlobalStorage() && !VD->isStaticLocal()) O["glob"] = true;
        if (auto *PV = dyn_cast<ParmVarDecl>(VD)) O["pi"] = (int)PV->getFunctionScopeIndex();
        O["dt"] = typeStr(C, VD->getType());
        // named integral constants: `const T k = <constant expression>` -> cv (so that rules see through a literal given a name)
        if (!isa<ParmVarDecl>(VD) && VD->getType().isConstQualified() && VD->getType()->isIntegralOrEnumerationType() &&
            !VD->getType()->isReferenceType() && VD->getAnyInitializer() && !VD->getAnyInitializer()->isValueDependent()) {
          Expr::EvalResult R;
          if (VD->getAnyInitializer()->EvaluateAsInt(R, *C.AC, Expr::SE_NoSideEffects))
            putInt(O, "cv", R.Val.getInt());
        }
      }
      if (auto *F = dyn_cast<FunctionDecl>(D)) {
        std::string M = mangled(C, F);
        if (!M.empty()) O["fm"] = M;
      }
    } else if (auto *ME = dyn_cast<MemberExpr>(S)) {
      const ValueDecl *D = ME->getMemberDecl();
      O["d"] = plainQual(D);
      O["dk"] = D->getDeclKindName();
      if (ME->isArrow()) O["arrow"] = true;
      if (auto *FDm = dyn_cast<FieldDecl>(D)) {
        O["dt"] = typeStr(C, FDm->getType());
        if (FDm->isMutable()) O["mut"] = true;
        if (FDm->isBitField()) O["bf"] = (int)FDm->getBitWidthValue(*C.AC);
      }
    } else if (auto *BO = dyn_cast<BinaryOperator>(S)) {
      O["op"] = BO->getOpcodeStr().str();
      if (auto *CA = dyn_cast<CompoundAssignOperator>(S)) {
        O["cty"] = typeStr(C, CA->getComputationResultType());
        O["clty"] = typeStr(C, CA->getComputationLHSType());
      }
    } else if (auto *UO = dyn_cast<UnaryOperator>(S)) {
      std::string Op = UnaryOperator::getOpcodeStr(UO->getOpcode()).str();
      if (UO->isPostfix()) Op = "post" + Op; else if (UO->isIncrementDecrementOp()) Op = "pre" + Op;
      O["op"] = Op;
    } else if (auto *CE = dyn_cast<CastExpr>(S)) {
      O["ck"] = CE->getCastKindName();
      if (auto *EC = dyn_cast<ExplicitCastExpr>(S))
        O["wt"] = typeStr(C, EC->getTypeAsWritten());
    } else if (auto *IL = dyn_cast<IntegerLiteral>(S)) {
      (void)IL;
    } else if (auto *FL = dyn_cast<FloatingLiteral>(S)) {
      O["fv"] = FL->getValueAsApproximateDouble();
    } else if (auto *SL = dyn_cast<StringLiteral>(S)) {
      if (SL->isAscii() || SL->isUTF8()) O["s"] = SL->getString().str();
    } else if (auto *AL = dyn_cast<AddrLabelExpr>(S)) {
      O["label"] = AL->getLabel()->getName().str();
    } else if (auto *UE = dyn_cast<UnaryExprOrTypeTraitExpr>(S)) {
      O["trait"] = (int)UE->getKind();
      if (UE->isArgumentType()) O["argt"] = typeStr(C, UE->getArgumentType());
      GenericChildren = false;
    } else if (auto *NE = dyn_cast<CXXNewExpr>(S)) {
      if (NE->getOperatorNew()) { O["opnew"] = plainQual(NE->getOperatorNew()); std::string M = mangled(C, NE->getOperatorNew()); if (!M.empty()) O["opnewm"] = M; }
      O["arr"] = NE->isArray();
      O["aty"] = typeStr(C, NE->getAllocatedType());
      O["nplace"] = (int)NE->getNumPlacementArgs();
      json::Array PA;
      for (unsigned i = 0; i < NE->getNumPlacementArgs(); ++i) PA.push_back(child(NE->getPlacementArg(i)));
      O["place"] = std::move(PA);
      if (NE->isArray() && NE->getArraySize()) O["asize"] = child(*NE->getArraySize());
      if (NE->getInitializer()) O["init"] = child(NE->getInitializer());
      GenericChildren = false;
    } else if (auto *DE = dyn_cast<CXXDeleteExpr>(S)) {
      O["arr"] = DE->isArrayForm();
      if (DE->getOperatorDelete()) O["opdel"] = plainQual(DE->getOperatorDelete());
      O["dty"] = typeStr(C, DE->getDestroyedType());
    } else if (auto *CC = dyn_cast<CXXConstructExpr>(S)) {
      putCallee(O, CC->getConstructor());
      O["ctor"] = true;
      if (CC->getConstructor()->isCopyConstructor()) O["copyctor"] = true;
      if (CC->getConstructor()->isMoveConstructor()) O["movector"] = true;
      if (CC->isElidable()) O["elide"] = true;
    } else if (auto *Call = dyn_cast<CallExpr>(S)) {
      const FunctionDecl *Callee = Call->getDirectCallee();
      putCallee(O, Callee);
      if (isa<CXXOperatorCallExpr>(S)) O["opcall"] = true;
      if (auto *MC = dyn_cast<CXXMemberCallExpr>(S)) {
        O["mcall"] = true;
        if (auto *ME2 = dyn_cast<MemberExpr>(MC->getCallee()->IgnoreParens()))
          if (ME2->hasQualifier()) O["qualcall"] = true;
        if (MC->getImplicitObjectArgument()) O["obj"] = child(MC->getImplicitObjectArgument());
      }
      json::Array Args;
      for (const Expr *A : Call->arguments()) Args.push_back(child(A));
      O["args"] = std::move(Args);
    } else if (auto *DS = dyn_cast<DeclStmt>(S)) {
      json::Array Ds;
      for (const Decl *D : DS->decls()) {
        json::Object DO;
        DO["dk"] = D->getDeclKindName();
        if (auto *VD = dyn_cast<VarDecl>(D)) {
          DO["n"] = VD->getNameAsString();
          DO["vid"] = varId(VD);
          DO["t"] = typeStr(C, VD->getType());
          if (VD->isStaticLocal()) DO["sl"] = true;
          if (VD->getType().isConstQualified()) DO["const"] = true;
          if (VD->getInit()) DO["init"] = child(VD->getInit());
        }
        Ds.push_back(std::move(DO));
      }
      O["decls"] = std::move(Ds);
      GenericChildren = false;
    } else if (auto *MT = dyn_cast<MaterializeTemporaryExpr>(S)) {
      (void)MT;
    } else if (auto *CS = dyn_cast<CaseStmt>(S)) {
      (void)CS;
    } else if (auto *GS = dyn_cast<GotoStmt>(S)) {
      O["label"] = GS->getLabel()->getName().str();
    } else if (auto *LS = dyn_cast<LabelStmt>(S)) {
      O["label"] = LS->getName();
      GenericChildren = false;
    } else if (auto *DA = dyn_cast<CXXDefaultArgExpr>(S)) {
      O["defarg"] = child(DA->getExpr());
      GenericChildren = false;
    } else if (auto *CT = dyn_cast<CXXThisExpr>(S)) {
      (void)CT;
    }
    if (GenericChildren) {
      // compound statements as CFG elements never carry their bodies
      if (isa<CompoundStmt>(S) || isa<IfStmt>(S) || isa<ForStmt>(S) || isa<WhileStmt>(S) ||
          isa<DoStmt>(S) || isa<SwitchStmt>(S) || isa<CaseStmt>(S) || isa<DefaultStmt>(S)) {
        // nothing
      } else {
        json::Array Cs;
        for (const Stmt *Ch : S->children()) Cs.push_back(child(Ch));
        if (!Cs.empty()) O["c"] = std::move(Cs);
      }
    }
    return json::Value(std::move(O));
  }

  json::Value emit() {
    json::Object F;
    F["q"] = plainQual(FD);
    F["qt"] = qualName(C, FD);
    F["m"] = mangled(C, FD);
    F["sig"] = typeStr(C, FD->getType());
    F["file"] = relFile(C, FD->getLocation());
    F["l0"] = lineOf(C, FD->getBeginLoc());
    F["l1"] = lineOf(C, FD->getEndLoc());
    F["ret"] = typeStr(C, FD->getReturnType());
    if (FD->isImplicit() || FD->isDefaulted()) F["implicit"] = true;
    if (FD->getTemplateSpecializationKind() != TSK_Undeclared) F["inst"] = true;
    if (FD->isInlined()) F["inline"] = true;
    if (FD->getStorageClass() == SC_Static || FD->isInAnonymousNamespace()) F["internal"] = true;
    if (auto *MD = dyn_cast<CXXMethodDecl>(FD)) {
      F["cls"] = qualName(C, MD->getParent());
      if (MD->isConst()) F["const"] = true;
      if (MD->isStatic()) F["static"] = true;
      if (MD->isVirtual()) F["virt"] = true;
      if (isa<CXXConstructorDecl>(MD)) F["ctor"] = true;
      if (isa<CXXDestructorDecl>(MD)) F["dtor"] = true;
    }
    if (FD->isExternC()) F["externc"] = true;
    json::Array Ps;
    for (const ParmVarDecl *P : FD->parameters()) {
      json::Object PO;
      PO["n"] = P->getNameAsString();
      PO["t"] = typeStr(C, P->getType());
      PO["vid"] = varId(P);
      Ps.push_back(std::move(PO));
    }
    F["params"] = std::move(Ps);

    CFG::BuildOptions BO;
    BO.setAllAlwaysAdd();
    BO.AddImplicitDtors = true;
    BO.AddTemporaryDtors = true;
    BO.AddInitializers = true;
    BO.AddCXXNewAllocator = false;
    BO.AddEHEdges = false;
    BO.PruneTriviallyFalseEdges = true;
    std::unique_ptr<CFG> G = CFG::buildCFG(FD, FD->getBody(), C.AC, BO);
    if (!G) { F["nocfg"] = true; return json::Value(std::move(F)); }

    // pass 1: assign element ids
    int Next = 0;
    for (const CFGBlock *B : *G) {
      for (const CFGElement &E : *B) {
        if (auto S = E.getAs<CFGStmt>()) {
          const Stmt *St = S->getStmt();
          if (!Elem.count(St)) Elem[St] = Next;
        }
        ++Next;
      }
    }
    // pass 2: emit
    json::Array Blocks;
    int Id = 0;
    for (const CFGBlock *B : *G) {
      json::Object BOj;
      BOj["id"] = (int)B->getBlockID();
      json::Array Els;
      for (const CFGElement &E : *B) {
        json::Object EO;
        if (auto S = E.getAs<CFGStmt>()) {
          const Stmt *St = S->getStmt();
          if (Elem[St] == Id) {
            json::Value V = node(St, true);
            EO = std::move(*V.getAsObject());
          } else {
            EO["k"] = "Dup"; EO["of"] = Elem[St];
          }
        } else if (auto I = E.getAs<CFGInitializer>()) {
          const CXXCtorInitializer *CI = I->getInitializer();
          EO["k"] = "Init";
          if (CI->isAnyMemberInitializer()) { EO["field"] = plainQual(CI->getAnyMember()); EO["ft"] = typeStr(C, CI->getAnyMember()->getType()); }
          else if (CI->isBaseInitializer()) EO["base"] = typeStr(C, QualType(CI->getBaseClass(), 0));
          else if (CI->isDelegatingInitializer()) EO["delegating"] = true;
          if (CI->getInit()) EO["init"] = child(CI->getInit());
          EO["ln"] = lineOf(C, CI->getSourceLocation());
          if (!CI->isWritten()) EO["implicit"] = true;
        } else if (auto D = E.getAs<CFGImplicitDtor>()) {
          const CXXDestructorDecl *DD = D->getDestructorDecl(*C.AC);
          if (DD) { EO["fn"] = qualName(C, DD); EO["fq"] = plainQual(DD); EO["fm"] = mangled(C, DD); }
          if (auto A = E.getAs<CFGAutomaticObjDtor>()) {
            EO["k"] = "AutoDtor"; EO["var"] = A->getVarDecl()->getNameAsString(); EO["vid"] = varId(A->getVarDecl());
            EO["ln"] = lineOf(C, A->getTriggerStmt() ? A->getTriggerStmt()->getEndLoc() : SourceLocation());
          } else if (auto T = E.getAs<CFGTemporaryDtor>()) {
            EO["k"] = "TempDtor"; EO["ln"] = lineOf(C, T->getBindTemporaryExpr()->getBeginLoc());
            EO["of"] = child(T->getBindTemporaryExpr());
          } else if (auto M = E.getAs<CFGMemberDtor>()) {
            EO["k"] = "MemberDtor"; EO["field"] = plainQual(M->getFieldDecl());
            EO["ln"] = lineOf(C, FD->getEndLoc());
          } else if (auto Bd = E.getAs<CFGBaseDtor>()) {
            EO["k"] = "BaseDtor"; EO["base"] = typeStr(C, Bd->getBaseSpecifier()->getType());
            EO["ln"] = lineOf(C, FD->getEndLoc());
          } else if (auto Dl = E.getAs<CFGDeleteDtor>()) {
            EO["k"] = "DeleteDtor"; EO["of"] = child(Dl->getDeleteExpr());
            EO["ln"] = lineOf(C, Dl->getDeleteExpr()->getBeginLoc());
          } else EO["k"] = "ImplicitDtor";
        } else {
          EO["k"] = "Other"; EO["ek"] = (int)E.getKind();
        }
        EO["i"] = Id;
        Els.push_back(std::move(EO));
        ++Id;
      }
      BOj["el"] = std::move(Els);
      if (const Stmt *T = B->getTerminatorStmt()) {
        json::Object TO;
        TO["k"] = T->getStmtClassName();
        TO["ln"] = lineOf(C, T->getBeginLoc());
        if (B->getTerminator().isTemporaryDtorsBranch()) TO["tmpdtor"] = true;
        if (auto *BOp = dyn_cast<BinaryOperator>(T)) TO["op"] = BOp->getOpcodeStr().str();
        if (const Stmt *Cond = B->getTerminatorCondition(true)) {
          auto It = Elem.find(Cond);
          if (It != Elem.end()) TO["cond"] = It->second;
          else TO["condx"] = node(Cond, false);
        }
        if (auto *GS = dyn_cast<GotoStmt>(T)) TO["label"] = GS->getLabel()->getName().str();
        BOj["term"] = std::move(TO);
      }
      if (const Stmt *L = B->getLabel()) {
        json::Object LO;
        LO["k"] = L->getStmtClassName();
        if (auto *CS = dyn_cast<CaseStmt>(L)) {
          Expr::EvalResult R;
          if (CS->getLHS() && !CS->getLHS()->isValueDependent() && CS->getLHS()->EvaluateAsInt(R, *C.AC)) putInt(LO, "lo", R.Val.getInt());
          if (CS->getRHS() && !CS->getRHS()->isValueDependent() && CS->getRHS()->EvaluateAsInt(R, *C.AC)) putInt(LO, "hi", R.Val.getInt());
          if (auto *DRE = dyn_cast<DeclRefExpr>(CS->getLHS()->IgnoreParenImpCasts())) LO["name"] = plainQual(DRE->getDecl());
          else if (auto *CEx = dyn_cast<ConstantExpr>(CS->getLHS()))
            if (auto *DRE2 = dyn_cast<DeclRefExpr>(CEx->getSubExpr()->IgnoreParenImpCasts())) LO["name"] = plainQual(DRE2->getDecl());
        } else if (auto *LS = dyn_cast<LabelStmt>(L)) LO["label"] = LS->getName();
        LO["ln"] = lineOf(C, L->getBeginLoc());
        BOj["label"] = std::move(LO);
      }
      json::Array Su;
      for (auto SI = B->succ_begin(); SI != B->succ_end(); ++SI) {
        if (const CFGBlock *R = SI->getReachableBlock()) Su.push_back((int)R->getBlockID());
        else Su.push_back(nullptr);
      }
      BOj["succ"] = std::move(Su);
      if (B->hasNoReturnElement()) BOj["noret"] = true;
      Blocks.push_back(std::move(BOj));
    }
    F["entry"] = (int)G->getEntry().getBlockID();
    F["exit"] = (int)G->getExit().getBlockID();
    F["blocks"] = std::move(Blocks);
    return json::Value(std::move(F));
  }
};

struct Visitor : RecursiveASTVisitor<Visitor> {
  Ctx &C;
  json::Array Fns, Recs, Enums, Vars;
  std::set<const Decl *> Seen;
  Visitor(Ctx &c) : C(c) {}
  bool shouldVisitTemplateInstantiations() const { return true; }
  bool shouldVisitImplicitCode() const { return true; }

  bool VisitFunctionDecl(FunctionDecl *FD) {
    if (!FD->doesThisDeclarationHaveABody()) return true;
    if (FD->isDependentContext() || FD->isTemplated()) return true;
    if (!inRoot(C, FD->getLocation())) return true;
    if (!Seen.insert(FD->getCanonicalDecl()).second) return true;
    FnEmitter FE(C, FD);
    Fns.push_back(FE.emit());
    return true;
  }

  bool VisitCXXRecordDecl(CXXRecordDecl *RD) {
    if (!RD->isCompleteDefinition() || RD->isDependentContext()) return true;
    if (RD->isInjectedClassName()) return true;
    if (!inRoot(C, RD->getLocation())) return true;
    if (!Seen.insert(RD->getCanonicalDecl()).second) return true;
    json::Object R;
    R["q"] = qualName(C, RD);
    R["pq"] = plainQual(RD);
    R["file"] = relFile(C, RD->getLocation());
    R["ln"] = lineOf(C, RD->getLocation());
    R["kind"] = RD->getKindName().str();
    json::Array Fs;
    for (const FieldDecl *F : RD->fields()) {
      json::Object FO;
      FO["n"] = F->getNameAsString();
      FO["t"] = typeStr(C, F->getType());
      if (F->isMutable()) FO["mut"] = true;
      if (F->getType().isConstQualified()) FO["const"] = true;
      if (F->isBitField()) FO["bf"] = (int)F->getBitWidthValue(*C.AC);
      QualType T = F->getType();
      if (T->isPointerType() || T->isReferenceType()) {
        FO["ptr"] = true;
        QualType P = T->getPointeeType();
        while (P->isPointerType()) P = P->getPointeeType();
        if (auto *PR = P->getAsCXXRecordDecl()) FO["pointee"] = qualName(C, PR);
        if (P.isConstQualified()) FO["pconst"] = true;
      } else if (auto *AT = C.AC->getAsConstantArrayType(T)) {
        FO["extent"] = (int64_t)AT->getSize().getZExtValue();
        if (auto *ER = AT->getElementType()->getAsCXXRecordDecl()) FO["elem"] = qualName(C, ER);
      } else if (auto *FR = T->getAsCXXRecordDecl()) FO["rec"] = qualName(C, FR);
      FO["acc"] = (int)F->getAccess();
      Fs.push_back(std::move(FO));
    }
    R["fields"] = std::move(Fs);
    json::Array Bs;
    for (const CXXBaseSpecifier &B : RD->bases()) Bs.push_back(typeStr(C, B.getType()));
    R["bases"] = std::move(Bs);
    json::Array Ms;
    for (const CXXMethodDecl *M : RD->methods()) {
      json::Object MO;
      MO["n"] = M->getNameAsString();
      MO["sig"] = typeStr(C, M->getType());
      if (M->isDeleted()) MO["deleted"] = true;
      if (M->isUserProvided()) MO["user"] = true;
      if (M->isImplicit()) MO["implicit"] = true;
      if (M->isConst()) MO["const"] = true;
      if (M->isVirtual()) MO["virt"] = true;
      if (M->isCopyAssignmentOperator()) MO["copyassign"] = true;
      if (M->isMoveAssignmentOperator()) MO["moveassign"] = true;
      if (auto *CD = dyn_cast<CXXConstructorDecl>(M)) {
        MO["ctor"] = true;
        if (CD->isCopyConstructor()) MO["copyctor"] = true;
        if (CD->isMoveConstructor()) MO["movector"] = true;
        if (CD->isExplicit()) MO["explicit"] = true;
      }
      if (isa<CXXDestructorDecl>(M)) MO["dtor"] = true;
      MO["acc"] = (int)M->getAccess();
      Ms.push_back(std::move(MO));
    }
    R["methods"] = std::move(Ms);
    R["copyctor_implicit_deleted"] = RD->needsImplicitCopyConstructor() ? RD->defaultedCopyConstructorIsDeleted() : false;
    R["has_user_copyctor"] = RD->hasUserDeclaredCopyConstructor();
    R["has_user_move"] = RD->hasUserDeclaredMoveConstructor() || RD->hasUserDeclaredMoveAssignment();
    R["trivial_dtor"] = RD->hasTrivialDestructor();
    Recs.push_back(std::move(R));
    return true;
  }

  bool VisitEnumDecl(EnumDecl *ED) {
    if (!ED->isCompleteDefinition()) return true;
    if (!inRoot(C, ED->getLocation())) return true;
    if (!Seen.insert(ED->getCanonicalDecl()).second) return true;
    json::Object E;
    E["q"] = plainQual(ED);
    E["file"] = relFile(C, ED->getLocation());
    E["ln"] = lineOf(C, ED->getLocation());
    json::Array Cs;
    for (const EnumConstantDecl *EC : ED->enumerators()) {
      json::Object CO;
      CO["n"] = EC->getNameAsString();
      CO["q"] = plainQual(EC);
      putInt(CO, "v", EC->getInitVal());
      Cs.push_back(std::move(CO));
    }
    E["consts"] = std::move(Cs);
    Enums.push_back(std::move(E));
    return true;
  }

  bool VisitVarDecl(VarDecl *VD) {
    if (isa<ParmVarDecl>(VD)) return true;
    if (!VD->hasGlobalStorage()) return true;
    if (VD->isTemplated()) return true;
    if (VD->getDeclContext()->isDependentContext()) return true;
    if (!inRoot(C, VD->getLocation())) return true;
    if (!VD->isThisDeclarationADefinition() && !VD->isStaticDataMember()) return true;
    json::Object V;
    V["q"] = plainQual(VD);
    V["n"] = VD->getNameAsString();
    V["t"] = typeStr(C, VD->getType());
    V["file"] = relFile(C, VD->getLocation());
    V["ln"] = lineOf(C, VD->getLocation());
    bool IsConst = VD->getType().isConstQualified();
    if (auto *AT = C.AC->getAsArrayType(VD->getType())) IsConst = IsConst || AT->getElementType().isConstQualified();
    V["const"] = IsConst;
    if (VD->isStaticLocal()) {
      V["sl"] = true;
      if (auto *PF = dyn_cast<FunctionDecl>(VD->getDeclContext())) { V["infn"] = plainQual(PF); V["infm"] = mangled(C, PF); }
    }
    if (VD->isStaticDataMember()) V["sdm"] = true;
    V["def"] = (bool)VD->isThisDeclarationADefinition();
    if (const Expr *I = VD->getInit()) {
      if (!I->isValueDependent()) {
        V["constinit"] = I->isConstantInitializer(*C.AC, false);
        FnEmitter FE(C, nullptr);
        V["init"] = FE.node(I->IgnoreParens(), false);
      }
    }
    Vars.push_back(std::move(V));
    return true;
  }
};

class Consumer : public ASTConsumer {
  Ctx C;
  std::string Out;
public:
  Consumer(CompilerInstance &CI, std::string out, std::string root) : Out(std::move(out)) { C.Root = std::move(root); }
  void HandleTranslationUnit(ASTContext &AC) override {
    C.AC = &AC;
    C.SM = &AC.getSourceManager();
    C.MC.reset(ItaniumMangleContext::create(AC, AC.getDiagnostics()));
    C.PP = PrintingPolicy(AC.getLangOpts());
    C.PP.SuppressTagKeyword = true;
    C.PP.Bool = true;
    C.PP.AnonymousTagLocations = false;
    if (AC.getDiagnostics().hasErrorOccurred()) return;  // caller sees a missing/empty file
    Visitor V(C);
    V.TraverseDecl(AC.getTranslationUnitDecl());
    json::Object Doc;
    Doc["main"] = C.SM->getFileEntryForID(C.SM->getMainFileID())->getName().str();
    Doc["functions"] = std::move(V.Fns);
    Doc["records"] = std::move(V.Recs);
    Doc["enums"] = std::move(V.Enums);
    Doc["vars"] = std::move(V.Vars);
    std::error_code EC;
    llvm::raw_fd_ostream OS(Out, EC);
    if (EC) { llvm::errs() << "grfacts: cannot write " << Out << ": " << EC.message() << "\n"; return; }
    OS << json::Value(std::move(Doc));
    OS << "\n";
  }
};

class Action : public PluginASTAction {
  std::string Out = "grfacts.json", Root = "/repo";
protected:
  std::unique_ptr<ASTConsumer> CreateASTConsumer(CompilerInstance &CI, llvm::StringRef) override {
    return std::make_unique<Consumer>(CI, Out, Root);
  }
  bool ParseArgs(const CompilerInstance &, const std::vector<std::string> &Args) override {
    for (const std::string &A : Args) {
      if (A.rfind("out=", 0) == 0) Out = A.substr(4);
      else if (A.rfind("root=", 0) == 0) Root = A.substr(5);
    }
    return true;
  }
  ActionType getActionType() override { return ReplaceAction; }
};

} // namespace

static FrontendPluginRegistry::Add<Action> X("grfacts", "dump CFG/AST facts as JSON");
