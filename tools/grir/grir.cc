// grir: dumps the facts the effect analysis needs from one linked LLVM-14 bitcode module
// (typed pointers) as JSON: per defined function its arguments and instructions (stores,
// loads, GEPs with source element type, casts, phis, selects, allocas, calls with resolved
// callee / indirect-callee operand, memory intrinsics, returns), debug locations, globals
// with constness, aliases.  Decides nothing itself.
//   grir <module.bc> <out.json>
#include "llvm/Demangle/Demangle.h"
#include "llvm/IR/Constants.h"
#include "llvm/IR/DebugInfoMetadata.h"
#include "llvm/IR/Function.h"
#include "llvm/IR/GlobalAlias.h"
#include "llvm/IR/Instructions.h"
#include "llvm/IR/IntrinsicInst.h"
#include "llvm/IR/LLVMContext.h"
#include "llvm/IR/Module.h"
#include "llvm/IR/Operator.h"
#include "llvm/IRReader/IRReader.h"
#include "llvm/Support/JSON.h"
#include "llvm/Support/SourceMgr.h"
#include "llvm/Support/raw_ostream.h"
#include <map>

using namespace llvm;
namespace json = llvm::json;

static std::string tstr(Type *T) {
  std::string S;
  raw_string_ostream OS(S);
  T->print(OS, false, true);
  OS.flush();
  return S;
}

struct FnDump {
  std::map<const Value *, int> Id;

  json::Value ref(const Value *V) {
    auto It = Id.find(V);
    if (It != Id.end()) return It->second;
    json::Object O;
    if (auto *GA = dyn_cast<GlobalAlias>(V)) {
      O["g"] = GA->getAliaseeObject() ? GA->getAliaseeObject()->getName().str() : GA->getName().str();
      return json::Value(std::move(O));
    }
    if (auto *G = dyn_cast<GlobalValue>(V)) {
      O["g"] = G->getName().str();
      if (isa<Function>(G)) O["fn"] = true;
      return json::Value(std::move(O));
    }
    if (auto *CI = dyn_cast<ConstantInt>(V)) {
      if (CI->getBitWidth() <= 64) O["c"] = (int64_t)CI->getSExtValue(); else O["c"] = 0;
      return json::Value(std::move(O));
    }
    if (isa<ConstantPointerNull>(V)) { O["k"] = "null"; return json::Value(std::move(O)); }
    if (isa<UndefValue>(V)) { O["k"] = "undef"; return json::Value(std::move(O)); }
    if (auto *CE = dyn_cast<ConstantExpr>(V)) {
      O["ce"] = CE->getOpcodeName();
      json::Array Ops;
      for (const Use &U : CE->operands()) Ops.push_back(ref(U.get()));
      O["o"] = std::move(Ops);
      if (auto *GEP = dyn_cast<GEPOperator>(CE)) O["st"] = tstr(GEP->getSourceElementType());
      O["t"] = tstr(CE->getType());
      return json::Value(std::move(O));
    }
    O["k"] = "other";
    return json::Value(std::move(O));
  }

  json::Value dump(const Function &F) {
    json::Object FO;
    FO["name"] = F.getName().str();
    FO["dem"] = demangle(F.getName().str());
    FO["ret"] = tstr(F.getReturnType());
    if (F.hasInternalLinkage() || F.hasPrivateLinkage()) FO["internal"] = true;
    if (const DISubprogram *SP = F.getSubprogram()) {
      FO["file"] = SP->getFilename().str();
      FO["line"] = (int)SP->getLine();
    }
    int N = 0;
    json::Array Args;
    for (const Argument &A : F.args()) {
      Id[&A] = N++;
      json::Object AO;
      AO["t"] = tstr(A.getType());
      if (A.hasStructRetAttr()) AO["sret"] = true;
      if (A.hasByValAttr()) AO["byval"] = true;
      Args.push_back(std::move(AO));
    }
    FO["args"] = std::move(Args);
    for (const BasicBlock &B : F)
      for (const Instruction &I : B) Id[&I] = N++;
    json::Array Ins;
    for (const BasicBlock &B : F) {
      for (const Instruction &I : B) {
        if (isa<DbgInfoIntrinsic>(I)) continue;
        json::Object O;
        O["i"] = Id[&I];
        O["op"] = I.getOpcodeName();
        if (!I.getType()->isVoidTy()) O["t"] = tstr(I.getType());
        if (const DebugLoc &DL = I.getDebugLoc()) {
          O["ln"] = (int)DL.getLine();
          if (auto *Sc = dyn_cast_or_null<DIScope>(DL.getScope())) O["f"] = Sc->getFilename().str();
          if (DL.getInlinedAt()) O["inl"] = true;
        }
        json::Array Ops;
        if (auto *CB = dyn_cast<CallBase>(&I)) {
          const Value *Callee = CB->getCalledOperand()->stripPointerCasts();
          if (auto *GA = dyn_cast<GlobalAlias>(Callee)) Callee = GA->getAliaseeObject();
          if (auto *CF = dyn_cast_or_null<Function>(Callee)) {
            O["callee"] = CF->getName().str();
            if (CF->isIntrinsic()) O["intr"] = true;
            if (CF->isDeclaration()) O["ext"] = true;
          } else {
            O["icallee"] = ref(CB->getCalledOperand());
          }
          for (const Use &U : CB->args()) Ops.push_back(ref(U.get()));
        } else {
          for (const Use &U : I.operands()) {
            if (isa<BasicBlock>(U.get())) continue;
            Ops.push_back(ref(U.get()));
          }
        }
        O["o"] = std::move(Ops);
        if (auto *GEP = dyn_cast<GetElementPtrInst>(&I)) O["st"] = tstr(GEP->getSourceElementType());
        if (auto *AI = dyn_cast<AllocaInst>(&I)) O["at"] = tstr(AI->getAllocatedType());
        if (auto *PN = dyn_cast<PHINode>(&I)) (void)PN;
        Ins.push_back(std::move(O));
      }
    }
    FO["ins"] = std::move(Ins);
    return json::Value(std::move(FO));
  }
};

int main(int argc, char **argv) {
  if (argc != 3) { errs() << "usage: grir <module.bc|.ll> <out.json>\n"; return 2; }
  LLVMContext Ctx;
  SMDiagnostic Err;
  std::unique_ptr<Module> M = parseIRFile(argv[1], Err, Ctx);
  if (!M) { Err.print("grir", errs()); return 2; }
  json::Object Doc;
  json::Array Fns, Gs, As;
  for (const Function &F : *M) {
    if (F.isDeclaration()) continue;
    FnDump D;
    Fns.push_back(D.dump(F));
  }
  for (const GlobalVariable &G : M->globals()) {
    json::Object O;
    O["name"] = G.getName().str();
    O["dem"] = demangle(G.getName().str());
    O["const"] = G.isConstant();
    O["t"] = tstr(G.getValueType());
    O["init"] = G.hasInitializer();
    if (G.hasInternalLinkage() || G.hasPrivateLinkage()) O["internal"] = true;
    if (G.isDeclaration()) O["decl"] = true;
    if (G.isThreadLocal()) O["tls"] = true;
    Gs.push_back(std::move(O));
  }
  for (const GlobalAlias &A : M->aliases()) {
    json::Object O;
    O["name"] = A.getName().str();
    O["to"] = A.getAliaseeObject() ? A.getAliaseeObject()->getName().str() : "";
    As.push_back(std::move(O));
  }
  Doc["functions"] = std::move(Fns);
  Doc["globals"] = std::move(Gs);
  Doc["aliases"] = std::move(As);
  std::error_code EC;
  raw_fd_ostream OS(argv[2], EC);
  if (EC) { errs() << "grir: cannot write " << argv[2] << "\n"; return 2; }
  OS << json::Value(std::move(Doc)) << "\n";
  return 0;
}
