"""C08 side rules on the AST facts: PARTITION, COPYFEATS, CASTS, OUTPARAMS."""
from .eff import SHARED, PERCALL, class_of
from .facts import AnalysisBroken
from .util import calls_in

PARTITION_EXCEPTIONS = {
    ('graphite2::Face', 'm_logger'): 'tracing only (json* is null in the NTRACING configuration and excluded from the thread contract by the documentation)',
}


def partition(run, fx, rule):
    """no field of a SHARED class is a pointer/reference to a PER-CALL class"""
    n = 0
    for q, r in sorted(fx.raw['records'].items()):
        base = q.split('<')[0]
        if base not in SHARED:
            continue
        n += 1
        bad = []
        for f in r['fields']:
            pt = f.get('pointee') or f.get('rec') or f.get('elem')
            if pt and (pt.split('<')[0] in PERCALL) and (f.get('ptr') or True):
                if (base, f['n']) in PARTITION_EXCEPTIONS:
                    continue
                bad.append((f['n'], f['t']))
            if f.get('mut'):
                run.observe('mutable member %s::%s (%s): writes through it are covered by DEEPCONST on the IR' % (q, f['n'], f['t']))
        if bad:
            run.violated(rule, 'record %s' % q, '%s:%s' % (r['file'], r['ln']),
                         'SHARED class %s holds %s: per-call state reachable from (or hidden mutable state inside) an object every '
                         'shaper sees' % (q, bad))
        else:
            run.held(rule, 'record %s' % q, '%s:%s' % (r['file'], r['ln']), '%d fields, none refers to per-call state / no untabled mutable member'
                     % len(r['fields']), False)
    if n < 20:
        run.broken(rule, '*', 'only %d SHARED class definitions found' % n)


def copyfeats(run, E, rule):
    fx = E.fx
    # (a) Segment::addFeatures copies the caller's value into the segment's own vector
    af = fx.one('graphite2::Segment::addFeatures')
    pb = [e for e in calls_in(af) if (e.get('fq') or '').endswith('::push_back')]
    if pb and af.f['params'][0]['t'].startswith('const '):
        run.held(rule, 'addFeatures copies', af.where(), 'm_feats.push_back(feats): the caller\'s feature values are copied by value')
    else:
        run.violated(rule, 'addFeatures copies', af.where(), 'Segment::addFeatures no longer copies the caller\'s features into Segment::m_feats '
                     '(SET_FEAT would then write the caller\'s or the face\'s vector)')
    # (b) gr_make_seg's parameters are const and it deletes only the clone it made itself
    gm = fx.one('gr_make_seg')
    ptypes = {p['n']: p['t'] for p in gm.f['params']}
    want = {'font': 'const gr_font *', 'face': 'const gr_face *', 'pFeats': 'const gr_feature_val *'}
    bad = {k: ptypes.get(k) for k, v in want.items() if ptypes.get(k) != v}
    if bad:
        run.violated(rule, 'gr_make_seg const parameters', gm.where(), 'gr_make_seg parameter types changed: %s' % bad)
    else:
        run.held(rule, 'gr_make_seg const parameters', gm.where(), str(want), False)
    dels = [e for _, e in gm.elements() if e['k'] == 'CXXDeleteExpr']
    ok = True
    why = ''
    for d in dels:
        v = gm.strip_all_casts(d['c'][0])
        if v['k'] != 'DeclRefExpr' or v.get('vid') is None or v.get('pi') is not None:
            ok = False
            why = 'deletes %s' % gm.render(d)
            continue
        # every definition of that local is null or the result of cloneFeatures
        for _, e in gm.elements():
            defs = []
            if e['k'] == 'DeclStmt':
                for dd in e['decls']:
                    if dd.get('vid') == v['vid'] and dd.get('init') is not None:
                        defs.append(dd['init'])
            if e['k'] == 'BinaryOperator' and e['op'] == '=' and gm.strip(e['c'][0]).get('vid') == v['vid']:
                defs.append(e['c'][1])
            for df in defs:
                x = gm.strip_all_casts(df)
                txt = gm.render(x)
                if not (x.get('v') == 0 or x['k'] in ('CXXNullPtrLiteralExpr', 'GNUNullExpr') or 'cloneFeatures' in txt or 'clone' in txt):
                    ok = False
                    why = '%s = %s' % (v['d'], txt)
    if dels and ok:
        run.held(rule, 'gr_make_seg deletes only its clone', gm.where(), '%d delete(s), each of a local assigned from cloneFeatures/null' % len(dels))
    elif dels:
        run.violated(rule, 'gr_make_seg deletes only its clone', gm.where(), 'gr_make_seg deletes a feature-value object it did not create (%s)' % why)
    else:
        run.broken(rule, 'gr_make_seg deletes only its clone', 'no delete found in gr_make_seg (shape changed)', gm.where())


CAST_TABLE = {
    ('graphite2::sparse::sparse', 'const graphite2::sparse::chunk *'): 'load time: empty_chunk sentinel stored into m_array.map of an empty sparse',
    ('graphite2::GlyphCache::getBoundingSlantBox', 'const graphite2::Rect *'): 'read-only reinterpretation of box storage',
    ('graphite2::GlyphCache::getBoundingBBox', 'const graphite2::Rect *'): 'read-only reinterpretation of box storage',
    ('graphite2::GlyphCache::getSubBoundingSlantBox', 'const graphite2::Rect *'): 'read-only reinterpretation of box storage',
    ('graphite2::GlyphCache::getSubBoundingBBox', 'const graphite2::Rect *'): 'read-only reinterpretation of box storage',
    ('graphite2::NameTable::~NameTable', 'const graphite2::TtfUtil::Sfnt::FontNames *'): 'freeing the owned copy',
    ('graphite2::NameTable::NameTable', 'const graphite2::TtfUtil::Sfnt::FontNames *'): 'filling the owned copy at construction',
    ('graphite2::Face::Table::release', 'const unsigned char *'): 'freeing the owned decompressed buffer',
    ('graphite2::FileFace::rel_table_fn', 'const void *'): 'freeing a table buffer the file face allocated',
    ('graphite2::_utf_iterator::_utf_iterator', 'const void *'): 'iterator over caller text; const_iterator instantiations never call put()',
    ('cmpRuleEntry', 'const void *'): 'qsort comparator, read-only',
    ('graphite2::TtfUtil::GlyfLookup', 'const unsigned char *'): 'returns a pointer into the glyf table, read-only users',
    ('gr_seg_justify', 'const gr_slot *'): 'API takes const slots of the caller\'s own segment (documented mutator of that segment)',
}


def casts(run, fx, rule, reach, E):
    ir = E.ir
    seen = set()
    for fn in fx.all_fns():
        for _, e in fn.elements():
            if e['k'] not in ('CXXConstCastExpr', 'CStyleCastExpr', 'CXXReinterpretCastExpr', 'CXXStaticCastExpr', 'CXXFunctionalCastExpr'):
                continue
            if not e.get('c'):
                continue
            src = fn.N(e['c'][0]).get('t', '')
            dst = e.get('t', '')
            if '*' not in dst and '&' not in dst:
                continue
            sp, dp = src.rsplit('*', 1)[0], dst.rsplit('*', 1)[0]
            if 'const' in sp and 'const' not in dp:
                key = (fn.q, src)
                if key in seen:
                    continue
                seen.add(key)
                inst = 'cast in %s from %s' % (fn.q, src)
                if key in CAST_TABLE:
                    run.held(rule, inst, fn.loc(e), CAST_TABLE[key], False)
                    continue
                irname = ir.aliases.get(fn.m, fn.m)
                cls = None
                for nm in SHARED:
                    if nm.split('::')[-1] in src.replace('const ', '').split()[0:1] or nm in src:
                        cls = nm
                if irname in reach and (cls or 'gr_face' in src or 'gr_font' in src or 'gr_feature_val' in src):
                    run.violated(rule, inst, fn.loc(e), 'code reachable from the shaping API casts away const from %s (-> %s): a writable view of '
                                 'face/font/feature state passed as const' % (src, dst))
                else:
                    run.observe('untabled const-removing cast in %s (%s -> %s) at %s: not on shared API state' % (fn.q, src, dst, fn.loc(e)))
                    run.held(rule, inst, fn.loc(e), 'not on shared API state (observation)', False)


# API out-parameters (scalar pointers the library is allowed to write), by (function, argument index)
OUT_PARAMS = {
    ('gr_count_unicode_characters', 3), ('gr_fref_set_feature_value', 2), ('gr_featureval_destroy', 0),
    ('gr_fref_label', 1), ('gr_fref_label', 3), ('gr_fref_value_label', 2), ('gr_fref_value_label', 4),
    ('gr_engine_version', 0), ('gr_engine_version', 1), ('gr_engine_version', 2), ('gr_tag_to_str', 1),
    ('gr_label_destroy', 0), ('gr_face_name_lang_for_locale', 99),
}
