"""C14 -- compressed tables are transparent; the LZ4 decoder is exact and bounded.

Exactness of the decoded bytes and transparency of shaping are run-time facts and NOT decided.  Decided:
  COPYGUARD    each of the four copy calls of lz4::decompress is dominated by the bound that keeps it inside the output
               (with the strength the word-wise overrun_copy needs: align(n) <= out_size) and, for matches, inside what
               was already produced; the entry test and the wrap-around tests are present
  BOOKKEEPING  every copy of n bytes is followed by out_size -= n before the next guard is evaluated
  SEQGUARD     read_sequence tests the source cursor before the two offset bytes are read and applies the MINCODA test;
               read_literal tests s != e before every length byte
  LZCONST      MINMATCH 4, LASTLITERALS 5, MINCODA == LASTLITERALS + 1, MINSRCSIZE 13
  DECOMPRESS   Face::Table::decompress: size test first, allocation of the announced 27-bit size, the decoder's result
               compared with it and the version word with the original before the buffer is installed; it adds no
               rejection stronger than the decoder's own `out_size <= in_size` contract (TRANSPARENT)
  (release / ownership of the buffers: C16 TABLETS)
"""
from . import dom
from .facts import AnalysisBroken
from .util import calls_in, find_decl

LEVEL = 'other'
EXPLANATION = ('Dominance rules with strength over the CFG of lz4::decompress, read_sequence, read_literal and '
               'Face::Table::decompress: every copy is guarded by the bound its copy routine needs, the remaining-output counter is '
               'decremented after every copy, the source cursor is tested before every read of the sequence header, the constants are '
               'coherent, and the wrapper neither skips a result check nor rejects more than the decoder contract.  That the bytes '
               'produced equal a reference decoder\'s and that compressed fonts shape identically are run-time facts, not decided.')
FLOORS = {'COPYGUARD': 11, 'BOOKKEEPING': 2, 'SEQGUARD': 4, 'LZCONST': 1, 'DECOMPRESS': 6, 'TABLETS': 2}

import re


def _renamer(ren):
    ren = {k: v for k, v in ren.items() if k and k != v}

    def f(text):
        if not ren or text is None:
            return text
        return re.sub(r'(?<![\w.>])(%s)\b' % '|'.join(re.escape(k) for k in sorted(ren, key=len, reverse=True)), lambda m: ren[m.group(1)], text)
    return f


def _name(fn, n):
    n = fn.strip_all_casts(n)
    return n['d'].split('::')[-1] if n['k'] == 'DeclRefExpr' and n.get('vid') is not None else None


def decompress_roles(fx):
    """current name -> canonical role name for lz4::decompress, from positions and definitions (not from what things are called)"""
    fn = fx.one('lz4::decompress')
    ps = fn.f['params']
    if len(ps) != 4:
        raise AnalysisBroken('lz4::decompress no longer has the parameters (in, in_size, out, out_size)')
    ren = dict(zip([p['n'] for p in ps], ['in', 'in_size', 'out', 'out_size']))
    rs = calls_in(fn, '(anonymous namespace)::read_sequence')
    if not rs or len(rs[0]['args']) != 6:
        raise AnalysisBroken('lz4::decompress: read_sequence(src, end, literal, literal_len, match_len, match_dist) call not found')
    for a, c in zip(rs[0]['args'], ['src', 'src_end', 'literal', 'literal_len', 'match_len', 'match_dist']):
        nm = _name(fn, a)
        if nm:
            ren[nm] = c
    copies = [e for e in calls_in(fn) if (e.get('fq') or '').split('::')[-1] in ('overrun_copy', 'safe_copy', 'fast_copy')]
    dst = None
    for e in copies:
        dst = dst or _name(fn, e['args'][0])
    if dst:
        ren[dst] = 'dst'
    inv = {v: k for k, v in ren.items()}
    cn0 = _renamer(ren)
    for _, e in fn.elements():
        if e['k'] != 'DeclStmt':
            continue
        for d in e['decls']:
            if d.get('init') is None or d.get('dk') != 'Var':
                continue
            x = fn.strip_all_casts(d['init'])
            txt = cn0(fn.render(fn.deref(d['init']), resolve=True)).replace(' ', '')
            txt = re.sub(r'\((?:const)?(?:unsignedchar|u8)(?:const)?\*(?:const)?\)\((\w+)\)', r'\1', txt)
            if txt in ('(dst+out_size)', '(out+out_size)'):
                ren[d['n']] = 'dst_end'
            elif txt in ('(src+in_size)', '(in+in_size)'):
                ren[d['n']] = 'src_end'
            elif x['k'] == 'BinaryOperator' and x['op'] == '-':
                l, r = _name(fn, x['c'][0]), _name(fn, x['c'][1])
                if l == dst and r == inv.get('match_dist'):
                    ren[d['n']] = 'pcpy'
    # the remaining-output budget: the variable the copy lengths are subtracted from (the out_size parameter itself, or a local copy)
    lens = {inv.get('literal_len'), inv.get('match_len')}
    budget = set()
    for _, e in fn.elements():
        if e['k'] == 'CompoundAssignOperator' and e['op'] == '-=' and _name(fn, e['c'][1]) in lens:
            budget.add(_name(fn, e['c'][0]))
    budget.discard(None)
    if len(budget) == 1 and next(iter(budget)) != inv.get('out_size'):
        ren[inv['out_size']] = 'out_size_p'
        ren[next(iter(budget))] = 'out_size'
    return fn, _renamer(ren)


def positional(fn, canonical):
    ps = fn.f['params']
    if len(ps) != len(canonical):
        raise AnalysisBroken('%s no longer has the parameters %s' % (fn.q, canonical))
    return dict(zip([p['n'] for p in ps], canonical))


def _has(fs, lhs, op, rhs):
    for f in fs:
        if f[0].replace(' ', '') == lhs.replace(' ', '') and f[1] == op and f[2].replace(' ', '') == rhs.replace(' ', ''):
            return True
        if dom.implies(f, (lhs, op, rhs)):
            return True
    return False


def copyguard(run, fx):
    fn, cn = decompress_roles(fx)
    cf = lambda fs: [(cn(f[0]), f[1], cn(f[2])) for f in fs]
    copies = [e for e in calls_in(fn) if (e.get('fq') or '').split('::')[-1] in ('overrun_copy', 'safe_copy', 'fast_copy')]
    if len(copies) != 4:
        run.broken('COPYGUARD', 'copy sites', 'expected 4 copy calls (literal, 2 match variants, final literal), found %d' % len(copies), fn.where())
    for e in sorted(copies, key=lambda x: (x['ln'], x['col'])):
        name = e['fq'].split('::')[-1]
        args = [cn(fn.render(fn.strip_all_casts(a))) for a in e['args']]
        fs = cf(dom.facts_at(fn, e['i']))
        n = args[2]
        inst = '%s(%s) @%s' % (name, ', '.join(args), e['ln'])
        need = []
        if args[1] == 'literal' and name == 'overrun_copy':
            need = [('align(%s)' % n, '<=', 'out_size')]
        elif args[1] == 'literal':
            need = [(n, '<=', 'out_size'), ('literal', '<=', '(src_end - literal_len)')]
        else:
            need = [('pcpy', '>=', 'out'), (n, '<=', '(out_size - LASTLITERALS)'),
                    ('out_size', '>=', '(anonymous namespace)::LASTLITERALS'), ('pcpy', '<', 'dst')]
            if name == 'overrun_copy':
                need += [('align(%s)' % n, '<=', 'out_size'), ('dst', '>', '(pcpy + 8)')]
        missing = []
        for w in need:
            ok = any(_match(f, w) for f in fs)
            if not ok:
                missing.append(w)
        if missing:
            run.violated('COPYGUARD', inst, fn.loc(e), 'the copy is not dominated by %s: %s' % (
                ' and '.join('%s %s %s' % w for w in missing),
                'overrun_copy writes whole machine words, so only the aligned length bounds what it writes -- up to 7 bytes land beyond the announced output size'
                if name == 'overrun_copy' else 'bytes can be copied outside the output produced so far / beyond the announced size'), {'facts': fs})
        else:
            run.held('COPYGUARD', inst, fn.loc(e), 'dominated by ' + '; '.join('%s %s %s' % w for w in need))
    # the contract COPYGUARD relies on: overrun_copy(d, s, n) writes exactly align(n) bytes -- whole words while the source cursor is
    # strictly below s + n
    oc = fx.one('(anonymous namespace)::overrun_copy')
    ps = [p_['n'] for p_ in oc.f['params']]
    okw = False
    conds = []
    if len(ps) == 3:
        cps = [e for e in calls_in(oc) if 'unaligned_copy' in (e.get('fq') or '')]
        limit = '%s+%s' % (ps[1], ps[2])

        def strict_below(f):
            for h in (f, (f[2], dom.FLIP[f[1]], f[0]) if f[1] in dom.FLIP else f):
                if h[0] == ps[1] and h[1] == '<' and _norm(h[2]).strip('()') == limit:
                    return True
            return False
        # every path from one word copy to the next passes `s < s + n`
        for e in cps:
            cb = oc.block_of[e['i']]
            if any(cb in oc.reachable_from(x) for x in oc.succs(cb)):
                okw = dom.must_pass(oc, cb, cb, strict_below, start_after=True)
        for b_ in oc.blocks:
            c = oc.term_cond(b_)
            if c is not None:
                conds += [dom.norm(oc, a_, pol, resolve=True) for a_, pol in dom.atoms(oc, c, True)]
    if okw:
        run.held('COPYGUARD', 'overrun_copy writes align(n) bytes', oc.where(), 'word loop continues while s < s + n (strict)')
    else:
        run.violated('COPYGUARD', 'overrun_copy writes align(n) bytes', oc.where(), 'the word loop of overrun_copy no longer stops as soon as the source cursor reaches s + n '
                     '(loop condition %s): for lengths that are a multiple of the word size it copies one more word than align(n), '
                     'past the bound its callers checked' % conds)
    # entry and wrap tests: the loop is reached only with out_size > in_size, in_size >= MINSRCSIZE, src < src_end, dst < dst_end
    rs = calls_in(fn, '(anonymous namespace)::read_sequence')
    if not rs:
        raise AnalysisBroken('lz4::decompress: read_sequence call not found')
    fs = cf(dom.facts_at(fn, rs[0]['i']))
    need = [('out_size', '>', 'in_size'), ('in_size', '>=', 'MINSRCSIZE'), ('src', '<', 'src_end'), ('dst', '<', 'dst_end')]
    fs = fs + [(f[0].replace('out_size_p', 'out_size'), f[1], f[2].replace('out_size_p', 'out_size')) for f in fs if 'out_size_p' in f[0] + f[2]]
    missing = [w for w in need if not any(_match(f, w) for f in fs)]
    if missing:
        run.violated('COPYGUARD', 'entry tests', fn.loc(rs[0]), 'decoding starts without %s' % missing, {'facts': fs})
    else:
        run.held('COPYGUARD', 'entry tests', fn.loc(rs[0]), 'out_size > in_size, in_size >= MINSRCSIZE, no pointer wrap')


DEFS = {'pcpy': '(dst-match_dist)'}
CONSTS = {'LASTLITERALS': '5', 'MINSRCSIZE': '13', 'MINMATCH': '4', 'MINCODA': '6'}      # verified by LZCONST


def _norm(s):
    s = s.replace(' ', '').replace('(anonymousnamespace)::', '')
    for k, v in CONSTS.items():
        s = s.replace(k, v)
    for k, v in DEFS.items():         # const locals stand for their definitions (facts come in both spellings)
        s = re.sub(r'(?<![\w.>])%s\b' % k, v, s)
    return s


def _match(f, w):
    a, op, b = _norm(f[0]), f[1], _norm(f[2])
    wa, wop, wb = _norm(w[0]), w[1], _norm(w[2])
    cand = [(a, op, b), (b, dom.FLIP[op], a)]
    for (x, o, y) in cand:
        xs = {x, x.strip('()')}
        ys = {y, y.strip('()')}
        if (wa in xs or wa.strip('()') in xs) and (wb in ys or wb.strip('()') in ys):
            if o == wop or (o, wop) in {('<', '<='), ('>', '>='), ('==', '<='), ('==', '>=')}:
                return True
        # numeric rhs strength
        if (wa in xs) and y.lstrip('-').isdigit() and wb.lstrip('-').isdigit():
            if dom.implies((wa, o, y), (wa, wop, wb)):
                return True
        # named constants folded to numbers
        if (wa in xs) and y.lstrip('-').isdigit() and wb in ('LASTLITERALS',) and o == wop and y == '5':
            return True
    return False


def bookkeeping(run, fx):
    fn, cn = decompress_roles(fx)
    copies = sorted([e for e in calls_in(fn) if (e.get('fq') or '').split('::')[-1] in ('overrun_copy', 'safe_copy')], key=lambda x: (x['ln'], x['col']))
    decs = [e for _, e in fn.elements() if e['k'] == 'CompoundAssignOperator' and e['op'] == '-=' and cn(fn.render(fn.N(e['c'][0]))) == 'out_size']
    groups = {}
    for c in copies:
        groups.setdefault(cn(fn.render(fn.strip_all_casts(c['args'][2]))), []).append(c)
    for n, cs in groups.items():
        inst = 'out_size -= %s' % n
        ds = [d for d in decs if cn(fn.render(fn.strip_all_casts(d['c'][1]))) == n]
        ok = bool(ds)
        for c in cs:
            cb = fn.block_of[c['i']]
            # every path from the copy to the next evaluation of a guard on out_size (loop back edge / exit) passes the decrement
            if ds:
                db = {fn.block_of[d['i']] for d in ds}
                seen, st = set(), list(fn.succs(cb)) if cb not in db else []
                while st:
                    b = st.pop()
                    if b in seen or b in db:
                        continue
                    seen.add(b)
                    c2 = fn.term_cond(b)
                    if (c2 is not None and 'out_size' in cn(fn.render(c2))) or b == fn.exit:
                        ok = False
                        break
                    st.extend(fn.succs(b))
        if ok:
            run.held('BOOKKEEPING', inst, fn.loc(ds[0]), 'the remaining-output counter is reduced after every copy of %s bytes, before the next guard' % n)
        else:
            run.violated('BOOKKEEPING', inst, fn.loc(cs[0]), 'a copy of %s bytes is not followed by `out_size -= %s` before the next bound test: later guards compare '
                         'against an output budget that is too large' % (n, n))


def _ret_facts(fn):
    """facts that hold on every path to a `return true` (the if-form of `return <test>`)"""
    out = []
    for _, e in fn.elements():
        if e['k'] == 'ReturnStmt' and e.get('c') and fn.strip_all_casts(e['c'][0]).get('v') == 1:
            out += [f[:3] for f in dom.facts_at(fn, e['i'])]
    return out


def seqguard(run, fx):
    rs = fx.one('(anonymous namespace)::read_sequence')
    cn = _renamer(positional(rs, ['src', 'end', 'literal', 'literal_len', 'match_len', 'match_dist']))
    # the two offset reads: `*src++` after the literal run
    reads = [e for _, e in rs.elements() if e['k'] == 'UnaryOperator' and e['op'] == '*' and 'src++' in cn(rs.render(e)).replace(' ', '')]
    guarded = 0
    for e in reads:
        fs = [(cn(f[0]), f[1], cn(f[2])) for f in dom.facts_at(rs, e['i'])]
        if any(_match(f, ('src', '<=', '(end - 2)')) or (_norm(f[0]) == 'src' and f[1] == '<=' and 'end' in f[2]) for f in fs) and \
                any(_norm(f[0]) == 'src' and f[1] == '>=' and _norm(f[2]) == 'literal' for f in fs):
            guarded += 1
    if guarded >= 2:
        run.held('SEQGUARD', 'offset bytes', rs.where(), 'match offset read only when src <= end - 2 and src >= literal (no wrap)')
    else:
        run.violated('SEQGUARD', 'offset bytes', rs.where(), 'read_sequence reads the two match-offset bytes without the dominating `src > end - sizeof(u16) || src < literal` '
                     'rejection (%d of %d reads guarded): reads beyond the compressed input' % (guarded, len(reads)))
    rets = [e for _, e in rs.elements() if e['k'] == 'ReturnStmt']
    okc = any(re.search(r'src <= \(end - (MINCODA|6)\)', cn(rs.render(e, resolve=True)).replace('(anonymous namespace)::', '')) for e in rets) or \
        any(_match((cn(f[0]), f[1], cn(f[2])), ('src', '<=', '(end - 6)')) for f in _ret_facts(rs))
    if okc:
        run.held('SEQGUARD', 'MINCODA', rs.where(), 'returns src <= end - MINCODA')
    else:
        run.violated('SEQGUARD', 'MINCODA', rs.where(), 'read_sequence no longer requires MINCODA bytes to remain after a sequence')
    rl = fx.one('(anonymous namespace)::read_literal')
    ln = _renamer(positional(rl, ['s', 'e', 'l']))
    rd = [e for _, e in rl.elements() if e['k'] == 'UnaryOperator' and e['op'] == '*' and 's++' in ln(rl.render(e)).replace(' ', '')]
    ok = bool(rd)
    for e in rd:
        b = rl.block_of[e['i']]
        # every path into the do-body passes s != e: initial `l == 15 && s != e`, loop `b == 0xff && s != e`
        if not dom.must_pass(rl, rl.entry, b, lambda f: _norm(ln(f[0])) == 's' and f[1] == '!=' and _norm(ln(f[2])) == 'e', start_after=True):
            ok = False
    if ok:
        run.held('SEQGUARD', 'length bytes', rl.where(), 'every *s++ is preceded by s != e')
    else:
        run.violated('SEQGUARD', 'length bytes', rl.where(), 'read_literal reads a length-extension byte without testing s != e')


def lzconst(run, fx):
    vals = {}
    for v in fx.raw['vars']:
        if v['q'].startswith('(anonymous namespace)::') and v['n'] in ('MINMATCH', 'LASTLITERALS', 'MINCODA', 'MINSRCSIZE') and v['unit'] == 'Decompressor.cpp':
            st = [v.get('init')]
            while st:
                x = st.pop()
                if isinstance(x, dict):
                    if x.get('v') is not None:
                        vals[v['n']] = x['v']
                        break
                    st.extend(x.get('c') or [])
    want = {'MINMATCH': 4, 'LASTLITERALS': 5, 'MINCODA': 6, 'MINSRCSIZE': 13}
    if vals == want:
        run.held('LZCONST', 'format constants', 'src/inc/Compression.h', str(vals), False)
    else:
        run.violated('LZCONST', 'format constants', 'src/inc/Compression.h', 'LZ4 block-format constants are %s, expected %s (MINCODA = LASTLITERALS + 1)' % (vals, want))


def decompress(run, fx):
    dc = fx.one('graphite2::Face::Table::decompress')
    call = calls_in(dc, 'lz4::decompress')
    if len(call) != 1:
        raise AnalysisBroken('Face::Table::decompress: lz4::decompress call not found')
    c = call[0]
    fs = [f[:3] for f in dom.facts_at(dc, c['i'])]
    # size test first
    if any(_norm(f[0]) == 'this->_sz' and f[1] == '>=' and f[2] == '20' for f in fs):
        run.held('DECOMPRESS', 'header size test', dc.loc(c), '_sz >= 5 * sizeof(uint32) before the header is read')
    else:
        run.violated('DECOMPRESS', 'header size test', dc.loc(c), 'the compressed-table header is read without `_sz >= 20`', {'facts': fs})
    # roles, from what the variables are used for (not from what they are called): the buffer is what gralloc's result is stored into,
    # the announced size is what gralloc is asked for
    alloc = [e for e in calls_in(dc) if (e.get('fq') or '').startswith('graphite2::gralloc')]
    if len(alloc) != 1 or not alloc[0].get('args'):
        raise AnalysisBroken('Face::Table::decompress: expected one gralloc call')
    S = dc.render(dc.strip_all_casts(alloc[0]['args'][0]))
    B = None
    for _, e in dc.elements():
        if e['k'] == 'BinaryOperator' and e['op'] == '=' and any(x.get('i') == alloc[0]['i'] for x in dc.walk(e['c'][1])):
            B = dc.render(dc.N(e['c'][0]))
        elif e['k'] == 'DeclStmt':
            for d in e['decls']:
                if d.get('init') is not None and any(x.get('i') == alloc[0]['i'] for x in dc.walk(d['init'])):
                    B = d['n']
    if B is None:
        raise AnalysisBroken('Face::Table::decompress: the variable that receives the gralloc result was not found')
    args = [dc.render(dc.strip_all_casts(a)) for a in c['args']]
    asg = [e for _, e in dc.elements() if e['k'] == 'BinaryOperator' and e['op'] == '=' and dc.render(dc.N(e['c'][0])) == S]
    inits = [d['init'] for _, e in dc.elements() if e['k'] == 'DeclStmt' for d in e['decls'] if d.get('n') == S and d.get('init') is not None]
    def masked(x):
        return '134217727' in dc.render(dc.N(x), resolve=True) or any(y.get('v') == 0x07ffffff for y in dc.walk(x))
    szok = any(masked(e['c'][1]) for e in asg) or any(masked(i_) for i_ in inits)
    aok = True
    a1 = dc.strip_all_casts(c['args'][1]) if len(c['args']) == 4 else {'k': ''}
    hdr8 = a1['k'] == 'BinaryOperator' and a1['op'] == '-' and '_sz' in dc.render(a1['c'][0]) and dom._cval(dc, a1['c'][1]) == 8
    argok = len(args) == 4 and args[2] == B and args[3] == S and hdr8
    if szok and aok and argok:
        run.held('DECOMPRESS', 'announced size', dc.loc(c), 'size = hdr & 0x07ffffff; buffer of exactly that size; decoder called with (p, _sz - 8, buffer, size)')
    else:
        run.violated('DECOMPRESS', 'announced size', dc.loc(c), 'the output buffer / size handed to the decoder no longer equal the announced 27-bit size '
                     '(mask %s, allocation %s, arguments %s)' % (szok, aok, args))
    # every fixed-size write into the fresh buffer is dominated by the announced size being at least that large
    for m_ in calls_in(dc, 'memset') + calls_in(dc, 'memcpy'):
        if dc.render(dc.deref(m_['args'][0])) != B:
            continue
        L = dom._cval(dc, m_['args'][2])
        fs2 = [f[:3] for f in dom.facts_at(dc, m_['i'])]
        inst = '%s(uncompressed_table, .., %s)' % (m_['fq'], L)
        if L is not None and any(dom.implies(f, (S, '>=', str(L))) for f in fs2):
            run.held('DECOMPRESS', inst, dc.loc(m_), 'dominated by %s >= %d' % (S, L))
        else:
            run.violated('DECOMPRESS', inst, dc.loc(m_), 'the freshly allocated buffer of `%s` bytes is written with %s bytes without a dominating '
                         '`%s >= %s`: a table announcing a smaller size is written beyond its allocation' % (S, L, S, L), {'facts': fs2})
    # result compared with the announced size; version word compared (a result parked in a const local is looked through)
    tests = [dc.render(dc.N(e['args'][0]), resolve=True) for e in calls_in(dc, 'graphite2::Error::test')] + \
            [dc.render(dc.N(e['args'][0])) for e in calls_in(dc, 'graphite2::Error::test')]
    r1 = any('lz4::decompress' in t and '!=' in t and S in t for t in tests)
    r2 = any(B in t and '!=' in t and 'version' in t for t in tests)
    if r1 and r2:
        run.held('DECOMPRESS', 'result checks', dc.where(), 'decoded length == announced size and version word == original, else E_SHRINKERFAILED')
    else:
        run.violated('DECOMPRESS', 'result checks', dc.where(), 'the decoder result is not compared with the announced size (%s) / the version word is not re-checked (%s)' % (r1, r2))
    # on error the buffer is not installed: every store of the buffer into _p is either under "no error", or the buffer variable was
    # nulled under the error state before it
    inst_stores = [e for _, e in dc.elements() if e['k'] == 'BinaryOperator' and e['op'] == '=' and dc.render(dc.N(e['c'][0])) == 'this->_p'
                   and dc.render(dc.deref(e['c'][1])) == B]
    nul = [e for _, e in dc.elements() if e['k'] == 'BinaryOperator' and e['op'] == '=' and dc.render(dc.N(e['c'][0])) == B and dc.strip_all_casts(e['c'][1]).get('v') == 0]
    okn = any(any('e.operator bool()' in f[0] and f[1] == '!=' for f in dom.facts_at(dc, e['i'])) for e in nul)
    guarded = inst_stores and all(any('e.operator bool()' in f[0] and f[1] == '==' and f[2] == '0' for f in dom.facts_at(dc, e['i'])) for e in inst_stores)
    if not inst_stores:
        run.broken('DECOMPRESS', 'failed decode not installed', 'no store of the decompressed buffer into _p found', dc.where())
    elif okn or guarded:
        run.held('DECOMPRESS', 'failed decode not installed', dc.loc(inst_stores[0]), 'the buffer reaches _p only %s' % ('under the no-error state' if guarded else 'after being nulled under the error state'))
    else:
        run.violated('DECOMPRESS', 'failed decode not installed', dc.where(), 'after a failed decode the (freed) buffer pointer is still installed as the table')
    # ... and once a buffer has been allocated for the decoded table, no exit leaves the raw compressed bytes installed: every path from
    # the allocation to an exit stores _p (the decoded buffer, or null on failure).  Face::Table::Table ignores the returned Error and
    # relies on _p == 0 for "failed".
    pstores = {dc.block_of[e['i']] for _, e in dc.elements() if e['k'] == 'BinaryOperator' and e['op'] == '=' and dc.render(dc.N(e['c'][0])) == 'this->_p'}
    seen, st, esc = set(), [dc.block_of[alloc[0]['i']]], False
    while st:
        b_ = st.pop()
        if b_ in seen:
            continue
        seen.add(b_)
        if b_ in pstores and b_ != dc.block_of[alloc[0]['i']]:
            continue
        if b_ == dc.exit:
            esc = True
            break
        st.extend(dc.succs(b_))
    if esc:
        run.violated('DECOMPRESS', 'no exit leaves the compressed bytes installed', dc.where(), 'a path from the allocation of the output buffer to a return stores nothing into _p: after a failed '
                     'decode the table still holds the raw compressed bytes, and Face::Table::Table (which ignores the returned Error and tests _p) goes on to parse them as a plain table')
    else:
        run.held('DECOMPRESS', 'no exit leaves the compressed bytes installed', dc.where(), 'every path from the allocation to an exit stores _p')
    # TRANSPARENT: no rejection stronger than the decoder contract out_size > in_size (= _sz - 8)
    strong = [f for f in fs if _norm(f[0]) == S and f[1] in ('>', '>=') and _norm(f[2]) in ('this->_sz', '_sz')]
    if strong:
        run.violated('DECOMPRESS', 'transparent for every shrinking encoding', dc.loc(c), 'Face::Table::decompress only decodes when %s, but the block handed to the decoder is '
                     '_sz - 8 bytes: valid encodings that are 1..8 bytes shorter than the data are rejected and the face does not load'
                     % ' '.join(strong[0]))
    else:
        run.held('DECOMPRESS', 'transparent for every shrinking encoding', dc.loc(c), 'no size rejection beyond the decoder\'s own out_size > in_size')


def copyexec(run, fx):
    """COPYGUARD, the helpers' own contracts, by bounded abstract execution (rules/ordint.py) on a byte buffer whose cells carry their
    origin: safe_copy(d, s, n) for n = 0..12 with the source 1..9 bytes BEHIND the destination in the same buffer (an LZ4 match
    overlapping its own output) writes exactly out[i] = out[i - distance] for i < n and nothing else -- the replicating copy a byte-forward
    loop gives and memmove does not; fast_copy (disjoint buffers) writes exactly n bytes; overrun_copy writes the n bytes and at most up
    to the next word boundary after them.  Each returns d + n.  If overrun_copy stores anything for n == 0 (a do-while does), every
    overrun_copy call in lz4::decompress must be dominated by n != 0."""
    from . import ordint as O
    def memcpy_native(it, f, e, obj, args):
        d, s_, n_ = [it.rv(a) for a in args[:3]]
        if not (isinstance(d, O.It) and isinstance(s_, O.It) and isinstance(n_, int)):
            raise AnalysisBroken('memcpy/memmove with arguments the byte model does not know')
        src = [it.deref_it(O.It(s_.vec, s_.idx + k, s_.gen), f, e).load() for k in range(n_)]     # snapshot first: memmove semantics
        for k in range(n_):
            it.deref_it(O.It(d.vec, d.idx + k, d.gen), f, e).store(src[k])
            it.written.add((id(d.vec), d.idx + k))
        return d
    nat = {'memcpy': memcpy_native, 'memmove': memcpy_native, '__builtin_memcpy': memcpy_native, '__builtin_memmove': memcpy_native}

    class Trk(O.Interp):
        pass

    def runone(fn, mem, d, s_, n):
        it = Trk(fx, natives=nat)
        it.written = set()
        it.MAX_STEPS = 4000
        # every store through a pointer into the buffer is recorded
        orig = it.deref_it

        def spy(p_, f_, e_):
            lv = orig(p_, f_, e_)
            return lv
        r = it.call(fn, None, [d, s_, n])
        return it, r
    probs = {}
    stats = {}
    for name in ('safe_copy', 'fast_copy', 'overrun_copy'):
        fns = fx.fns_named('(anonymous namespace)::' + name)
        if not fns:
            run.broken('COPYGUARD', '%s keeps its contract' % name, 'function not found')
            continue
        fn = fns[0]
        cases = 0
        prob = None
        zero_writes = False
        for n in range(0, 13):
            dists = range(1, 10) if name == 'safe_copy' else (None,)
            for dist in dists:
                if dist is None:
                    src = O.Vec(['s%d' % k for k in range(40)])
                    dst = O.Vec(['d%d' % k for k in range(40)])
                    d0, s0 = O.It(dst, 4), O.It(src, 4)
                    before = list(dst.items)
                else:
                    dst = O.Vec(['m%d' % k for k in range(48)])
                    src = dst
                    d0, s0 = O.It(dst, 16), O.It(dst, 16 - dist)
                    before = list(dst.items)
                try:
                    it, r = runone(fn, dst, d0, s0, n)
                except O.Violation as v:
                    prob = 'n=%d%s: %s (%s)' % (n, '' if dist is None else ' distance %d' % dist, v.what, v.loc)
                    break
                cases += 1
                after = dst.items
                changed = [k for k in range(len(after)) if after[k] != before[k]]
                if not (isinstance(r, O.It) and r.vec is dst and r.idx == d0.idx + n):
                    prob = 'n=%d: returns %s, expected d + n' % (n, ('d%+d' % (r.idx - d0.idx)) if isinstance(r, O.It) else repr(r))
                    break
                if dist is not None:
                    exp = list(before)
                    for i in range(n):
                        exp[16 + i] = exp[16 + i - dist]
                    if after != exp:
                        bad = [k - 16 for k in range(len(after)) if after[k] != exp[k]]
                        prob = ('n=%d, source %d byte(s) behind the destination: output bytes %s differ from the replicating copy out[i] = out[i-%d] '
                                '(an overlapping LZ4 match is decoded wrongly)' % (n, dist, bad[:6], dist))
                        break
                else:
                    lo = d0.idx
                    exact = [k for k in range(n) if after[lo + k] != 's%d' % (4 + k)]
                    if exact:
                        prob = 'n=%d: byte(s) %s of the destination do not hold the source bytes' % (n, exact[:6])
                        break
                    outside = [k - lo for k in changed if not (lo <= k < lo + n)]
                    if name == 'fast_copy' and outside:
                        prob = 'n=%d: fast_copy writes outside [d, d+n): offsets %s' % (n, outside[:6])
                        break
                    if name == 'overrun_copy':
                        wrote = {k - lo for (_, k) in it.written}
                        if n == 0 and wrote:
                            zero_writes = True
                        # the bound lz4::decompress tests before it calls overrun_copy is align(n), computed by align() itself
                        afn = fx.fns_named('(anonymous namespace)::align')
                        if not afn:
                            raise AnalysisBroken('align() not found')
                        lim = O.Interp(fx).call(afn[0], None, [n if n else 1])
                        if not isinstance(lim, int):
                            raise AnalysisBroken('align(%d) is not a number' % n)
                        if any(k < 0 or k >= lim for k in wrote):
                            prob = ('n=%d: overrun_copy writes offsets %s, but align(%d) = %d: the two no longer use the same word size, so the test `align(n) <= out_size` in front of '
                                    'every overrun_copy call lets it write behind the output buffer' % (n, sorted(k for k in wrote if k < 0 or k >= lim)[:6], n if n else 1, lim))
                            break
            if prob:
                break
        inst = '%s keeps its contract' % name
        if prob:
            run.violated('COPYGUARD', inst, fn.where(), '%s: %s' % (name, prob))
        else:
            run.held('COPYGUARD', inst, fn.where(), '%d abstract executions (n = 0..12%s)' % (cases, ', distances 1..9' if name == 'safe_copy' else ''))
        stats[name] = zero_writes
    if stats.get('overrun_copy'):
        fn, cn = decompress_roles(fx)
        for e in [e for e in calls_in(fn) if (e.get('fq') or '').split('::')[-1] == 'overrun_copy']:
            nexp = fn.render(fn.strip_all_casts(e['args'][2]))
            fs = dom.facts_at(fn, e['i'])
            ok = any((f[0] == nexp and ((f[1] == '!=' and f[2] == '0') or (f[1] in ('>', '>=') and f[2].lstrip('-').isdigit() and int(f[2]) >= (0 if f[1] == '>' else 1)))) for f in fs)
            inst = 'overrun_copy(.., %s) is never asked to copy nothing' % cn(nexp)
            why = 'dominated by %s != 0' % cn(nexp)
            if not ok:
                # a length that read_sequence produces as `<something> + positive constant` (match_len = .. + MINMATCH) cannot be 0
                rsq = fx.one('(anonymous namespace)::read_sequence')
                rcall = calls_in(fn, '(anonymous namespace)::read_sequence')
                pos = [k for k, a in enumerate(rcall[0]['args']) if fn.render(fn.strip_all_casts(a)) == nexp] if rcall else []
                if pos:
                    pn = rsq.f['params'][pos[0]]['n']
                    for _, u in rsq.elements():
                        if u['k'] == 'BinaryOperator' and u['op'] == '=' and rsq.render(rsq.N(u['c'][0])) == pn:
                            r_ = rsq.strip_all_casts(u['c'][1])
                            if r_['k'] == 'BinaryOperator' and r_['op'] == '+' and any((dom._cval(rsq, c_) or 0) > 0 for c_ in r_['c']):
                                ok = True
                                why = 'read_sequence produces it as %s: at least %d' % (rsq.render(r_), max((dom._cval(rsq, c_) or 0) for c_ in r_['c']))
            if ok:
                run.held('COPYGUARD', inst, fn.loc(e), why)
            else:
                run.violated('COPYGUARD', inst, fn.loc(e), 'overrun_copy stores a whole word even for n == 0 (its loop tests after the first copy), and this call is not dominated by '
                             '%s != 0: an empty literal / match writes 8 bytes that align(0) = 0 did not account for -- beyond the announced output size when fewer than 8 bytes remain' % cn(nexp))


def run(run):
    fx = run.facts('Q0')
    copyguard(run, fx)
    try:
        copyexec(run, fx)
    except AnalysisBroken as ex:
        run.broken('COPYGUARD', 'copy helpers keep their contracts', str(ex))
    inst_ = 'lz4::decompress stays inside both buffers and decodes valid blocks exactly (interpreted)'
    dfn_ = fx.one('lz4::decompress')
    try:
        from . import ordint as O_
        cases_, bad_ = lz4exec(run, fx)
        if bad_:
            run.violated('SEQGUARD', inst_, dfn_.where(), bad_)
        else:
            run.held('SEQGUARD', inst_, dfn_.where(), '%d concrete executions on exact-size buffers' % cases_)
    except (AnalysisBroken, O_.AnalysisBroken) as ex:
        run.broken('SEQGUARD', inst_, str(ex), dfn_.where())
    bookkeeping(run, fx)
    seqguard(run, fx)
    lzconst(run, fx)
    decompress(run, fx)
    from . import c16
    try:
        cases_, bad_ = c16.table_exec(run, fx)        # the whole life of a (compressed) table: every buffer goes back exactly once, the right way (shared with C16)
        if bad_:
            run.violated('TABLETS', 'Table life cycle interpreted', fx.one('graphite2::Face::Table::release').where(), bad_)
        else:
            run.held('TABLETS', 'Table life cycle interpreted', fx.one('graphite2::Face::Table::release').where(), '%d life cycles' % cases_)
    except AnalysisBroken as ex:
        run.broken('TABLETS', 'Table life cycle interpreted', str(ex), '')
    c16.flagpair(run, fx)        # the compressed original goes back to the application, not to free(): flag and pointer change together (shared with C16)


def _lz4_ref(src, out_size):
    """reference LZ4 block decoder (the block format as documented); returns the bytes or None when the block is malformed"""
    out, i, n = bytearray(), 0, len(src)
    while True:
        if i >= n:
            return None
        tok = src[i]
        i += 1
        ll = tok >> 4
        if ll == 15:
            while True:
                if i >= n:
                    return None
                b = src[i]
                i += 1
                ll += b
                if b != 255:
                    break
        if i + ll > n:
            return None
        out += src[i:i + ll]
        i += ll
        if i == n:
            return bytes(out) if len(out) <= out_size else None
        if i + 2 > n:
            return None
        dist = src[i] | (src[i + 1] << 8)
        i += 2
        ml = tok & 15
        if ml == 15:
            while True:
                if i >= n:
                    return None
                b = src[i]
                i += 1
                ml += b
                if b != 255:
                    break
        ml += 4
        if dist == 0 or dist > len(out):
            return None
        for _ in range(ml):
            out.append(out[-dist])
        if len(out) > out_size:
            return None


def _lz4_enc(seqs, tail):
    """seqs: [(literal bytes, distance, match length >= 4)], tail: the final literals (>= 5 bytes, and the last match must start >= 12 bytes before the end)"""
    out = bytearray()

    def ext(v):
        b = bytearray()
        while v >= 255:
            b.append(255)
            v -= 255
        b.append(v)
        return b
    for lit, dist, ml in seqs:
        tok = (min(len(lit), 15) << 4) | min(ml - 4, 15)
        out.append(tok)
        if len(lit) >= 15:
            out += ext(len(lit) - 15)
        out += lit
        out += bytes([dist & 255, dist >> 8])
        if ml - 4 >= 15:
            out += ext(ml - 4 - 15)
    out.append(min(len(tail), 15) << 4)
    if len(tail) >= 15:
        out += ext(len(tail) - 15)
    out += tail
    return bytes(out)


def lz4exec(run, fx):
    """"the LZ4 decoder is exact and bounded", by bounded concrete execution (rules/ordint.py): lz4::decompress with read_sequence,
    read_literal, align and the three copy helpers inlined from their own CFGs (memcpy is a native on the byte model) is interpreted on
    exact-size input and output buffers -- any read outside the input or the part of the output already produced, any write outside
    the output, is reported by the interpreter.  Inputs: valid blocks built from sequence descriptions that exercise every branch
    (literal runs of 0, 1..14, 15+ bytes; matches at distance 1, 2, 3, 4, 8 and farther, overlapping their own output; match lengths 4,
    5..18, 19+; the word-copy and the byte-copy arm), decoded into a buffer of exactly the plain size and of one byte more; and the
    malformations of each (every truncation, every single-byte change to 0x00 / 0xFF / +1 of the first 24 bytes).  A valid block decodes to
    the reference decoder's bytes and length; for a malformed one the function may answer -1 or any length, but stays inside both buffers."""
    from . import ordint as O
    fn = fx.one('lz4::decompress')

    def memcpy_native(it, f, e, obj, args):
        d, s_, n_ = [it.rv(a) for a in args[:3]]
        if not (isinstance(d, O.It) and isinstance(s_, O.It) and isinstance(n_, int)):
            raise AnalysisBroken('memcpy with arguments the byte model does not know')
        src = [it.deref_it(O.It(s_.vec, s_.idx + k, s_.gen), f, e).load() for k in range(n_)]
        for k in range(n_):
            it.deref_it(O.It(d.vec, d.idx + k, d.gen), f, e).store(src[k])
        return d
    nat = {'memcpy': memcpy_native, 'memmove': memcpy_native, '__builtin_memcpy': memcpy_native, '__builtin_memmove': memcpy_native}
    A = bytes(range(0x41, 0x41 + 26))
    blocks = []
    for lit, dist, ml, tail in [(A[:1], 1, 4, 12), (A[:1], 1, 19, 12), (A[:2], 2, 9, 12), (A[:3], 3, 7, 13), (A[:4], 4, 12, 12), (A[:8], 8, 8, 12), (A[:8], 8, 24, 14),
                                (A[:14], 5, 6, 12), (A[:15], 15, 15, 12), (A[:16], 9, 40, 12), (A[:20], 20, 20, 16), (A[:9], 1, 300, 12)]:
        blocks.append([(lit, dist, ml)], ) if False else blocks.append(([(lit, dist, ml)], A[::-1][:tail]))
    blocks.append(([(A[:6], 6, 6), (b'', 3, 5), (A[6:9], 12, 10)], A[:12]))
    blocks.append(([(b'', 0, 4)], A[:12]))                       # a match with nothing decoded yet: malformed from the start
    blocks.append(([(A[:4], 4, 4), (A[4:20], 1, 4)], A[:12]))
    blocks.append(([(A[:9], 1, 0x10001 + 7, )], A[:12]))          # a run longer than 64K: the format has no limit on the match LENGTH, only on the distance
    cases, prob = 0, None
    for seqs, tail in blocks:
        enc = _lz4_enc(seqs, tail)
        plain = _lz4_ref(enc, 1 << 20)
        variants = [(enc, 'the block as built')]
        big = plain is not None and len(plain) > 4096
        for k in range(1, min(len(enc), 14) if not big else 1):
            variants.append((enc[:-k], 'truncated by %d byte(s)' % k))
        for pos in range(min(len(enc), 24) if not big else 0):
            for v in (0, 0xFF, (enc[pos] + 1) & 0xFF):
                if v != enc[pos]:
                    variants.append((enc[:pos] + bytes([v]) + enc[pos + 1:], 'byte %d set to %#04x' % (pos, v)))
        for data, what in variants:
            ref = _lz4_ref(data, 1 << 20)
            sizes = sorted({len(plain) if plain else len(data) + 8, (len(plain) if plain else len(data) + 8) + 1, len(data) + 1}) if not big else [len(plain)]
            for osz in sizes:
                inb, outb = O.Vec(list(data)), O.Vec(['?'] * osz)
                it = O.Interp(fx, natives=nat)
                it.MAX_STEPS = 40000 if not big else 3000000
                cases += 1
                desc = 'LZ4 block %s (%s; %d -> %d bytes), output buffer of %d' % (data[:24].hex(), what, len(data), len(ref) if ref else -1, osz)
                try:
                    r = it.call(fn, None, [O.It(inb, 0), len(data), O.It(outb, 0), osz])
                except O.Violation as v:
                    prob = '%s: %s (%s)' % (desc, v.what, v.loc)
                    break
                if ref is not None and len(ref) <= osz and osz > len(data) and what == 'the block as built':
                    got = bytes(x for x in outb.items[:len(ref)] if isinstance(x, int)) if r == len(ref) else None
                    if r != len(ref) or got != ref:
                        prob = '%s: a valid block decodes to %r (%s), the reference decoder gives %d bytes' % (desc, r, 'wrong bytes' if r == len(ref) else 'wrong length', len(ref))
                        break
                if isinstance(r, int) and r >= 0 and ref is not None and what != 'the block as built' and r == len(ref) and len(ref) <= osz:
                    got = bytes(x for x in outb.items[:r] if isinstance(x, int))
                    if got != ref:
                        prob = '%s: the block is still valid and decodes to different bytes than the reference decoder' % desc
                        break
            if prob:
                break
        if prob:
            break
    return cases, prob
