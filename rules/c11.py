"""C11 -- UTF-8/16/32 text is decoded exactly and never read past its end.

Value-level decoding correctness (the scalar produced for each well-formed sequence) is NOT decided.  Decided:
  VALIDATEFIRST  in every instantiation of count_unicode_chars, with a buffer end every path to the first decode passes
                 `first.validate(last)` succeeding; its failure returns 0 with *error inside the buffer; the loop stops
                 at NUL, at a decode error and at `last`
  CONTGUARD      in _utf_codec<8>::get every further byte is read only after the previous one passed the continuation
                 test; _utf_codec<16>::get reads cp[1] only after cp[0] tested as a high surrogate
  ADVANCEBOUND   on every path of every codec::get the step |l| handed to the iterator never exceeds 1 + the number of
                 further code units that were read AND passed their test: the iterator cannot step over a unit it did
                 not vet (in particular not over a terminating NUL), and |l| >= 1
  LEADREJECT     constant inequality over the UTF-8 tables: every lead byte above F4 that the size table classes as a
                 4-byte lead yields a value >= the 0x110000 limit through the mask table (so it is rejected)
  ITERSTEP       _utf_iterator::operator++ advances by abs(sl); error() is sl < 1
"""
from . import dom
from .facts import AnalysisBroken
from .util import calls_in, find_decl

LEVEL = 'other'
EXPLANATION = ('Path rules over the CFGs of all template instantiations of the three codecs, the iterator and count_unicode_chars: '
               'dominance of the tail validation over the first decode, continuation-guarded look-ahead, a constant-propagation of '
               'the step length l along every path of every get() against the number of units that passed their test, and a '
               'constant inequality over the lead-byte tables.  Which scalar a well-formed sequence decodes to is a run-time value '
               'and is not decided.')
FLOORS = {'VALIDATEFIRST': 11, 'CONTGUARD': 3, 'ADVANCEBOUND': 3, 'LEADREJECT': 2, 'ITERSTEP': 2}


def _uniq(fns):
    seen, out = set(), []
    for f in fns:
        k = (f.qt, f.f['sig'])
        if k not in seen:
            seen.add(k)
            out.append(f.fx.inl(f) if getattr(f, 'fx', None) is not None else f)   # helpers extracted since the pinned tree are expanded in place
    return out


def validatefirst(run, fx):
    fns = _uniq(fx.fns_named('(anonymous namespace)::count_unicode_chars'))
    if len(fns) < 3:
        raise AnalysisBroken('count_unicode_chars: expected 3 instantiations, found %d' % len(fns))
    for fn in fns:
        import re as _re
        m = _re.search(r'_utf_iterator<([^>]*)>', fn.qt)
        tag = m.group(1) if m else fn.qt[-30:]
        # every decode: either no buffer end was given (last == 0 on the path), or the tail validation succeeded AND the iterator was
        # compared with `last` since it last moved
        decodes = [e for _, e in fn.elements() if e['k'] == 'CXXMemberCallExpr' and 'reference::operator' in (e.get('fq') or '')]
        if not decodes:
            run.broken('VALIDATEFIRST', 'count<%s> decodes' % tag, 'no decode found', fn.where())
            continue
        incs_ = [e for _, e in fn.elements() if e['k'] == 'CXXOperatorCallExpr' and (e.get('fq') or '').endswith('::operator++')]
        is_nolast = lambda f: f[0].startswith('last') and 'operator!=' not in f[0] and 'operator==' not in f[0] and 'validate' not in f[0] and f[1] == '==' and f[2] == '0'
        is_valid = lambda f: 'validate(last)' in f[0] and f[1] == '!=' and f[2] == '0'
        is_notend = lambda f: 'operator!=' in f[0] and 'last' in f[0] and f[1] == '!=' and f[2] == '0'
        nbounded = 0
        for e in decodes:
            eb = fn.block_of[e['i']]
            inst = 'count<%s> decode@%s' % (tag, e['ln'])
            fs = dom.facts_at(fn, e['i'])
            if any(is_nolast(f) for f in fs):
                run.held('VALIDATEFIRST', inst, fn.loc(e), 'no buffer end on this path (last == 0): NUL-terminated text', False)
                continue
            nbounded += 1
            okv = dom.must_pass(fn, fn.entry, eb, lambda f: is_valid(f) or is_nolast(f), start_after=False)
            oke_ = dom.must_pass(fn, fn.entry, eb, lambda f: is_notend(f) or is_nolast(f), start_after=False)
            for i_ in incs_:
                ib = fn.block_of[i_['i']]
                if eb in fn.reachable_from(ib) and ib != eb:
                    oke_ = oke_ and dom.must_pass(fn, ib, eb, lambda f: is_notend(f) or is_nolast(f), start_after=True)
            if okv and oke_:
                run.held('VALIDATEFIRST', inst, fn.loc(e), 'with a buffer end: decode only after first.validate(last) succeeded and first != last was tested since the last advance')
            elif not okv:
                run.violated('VALIDATEFIRST', inst, fn.loc(e), 'with a buffer end the text is decoded without `first.validate(last)` having succeeded on every path: '
                             'a buffer ending in a truncated multi-unit sequence is read beyond buffer_end', {'facts': [f[:3] for f in fs]})
            else:
                run.violated('VALIDATEFIRST', inst, fn.loc(e), 'with a buffer end a character is decoded before the iterator was compared with `last`: one sequence is '
                             'read at buffer_end (out of bounds), and ill-formed bytes there are reported as an error of well-formed text', {'facts': [f[:3] for f in fs]})
        if nbounded == 0:
            run.broken('VALIDATEFIRST', 'count<%s> bounded loop' % tag, 'no decode that can run with a buffer end was found', fn.where())
            continue
        # failure of validate returns 0 and sets *error = last - 1
        rets0 = [e for _, e in fn.elements() if e['k'] == 'ReturnStmt' and fn.strip_all_casts(e['c'][0]).get('v') == 0]
        okr = False
        for r in rets0:
            if any('validate(last)' in f[0] and f[1] == '==' and f[2] == '0' for f in dom.facts_at(fn, r['i'])):
                okr = True
        errst = [e for _, e in fn.elements() if e['k'] == 'BinaryOperator' and e['op'] == '=' and fn.render(fn.N(e['c'][0])) == '*error'
                 and 'last' in fn.render(fn.N(e['c'][1])) and '- 1' in fn.render(fn.N(e['c'][1]))]
        oke = any(any('validate(last)' in f[0] and f[1] == '==' for f in dom.facts_at(fn, e['i'])) and
                  any(f[0] == 'error' and f[1] == '!=' for f in dom.facts_at(fn, e['i'])) for e in errst)
        inst = 'count<%s> validate failure' % tag
        if okr and oke:
            run.held('VALIDATEFIRST', inst, fn.where(), 'returns 0 with *error = last - 1 (inside the buffer)')
        else:
            run.violated('VALIDATEFIRST', inst, fn.where(), 'a failed tail validation no longer returns 0 with *error = last - 1 (return %s, error store %s)' % (okr, oke))
        # loop exits: every advance of the iterator is reached only after the decoded value was tested non-zero and the decode
        # error flag clear; in the region with a buffer end additionally only under first != last
        incs = [e for _, e in fn.elements() if e['k'] == 'CXXOperatorCallExpr' and (e.get('fq') or '').endswith('::operator++')]
        if not incs:
            run.broken('VALIDATEFIRST', 'count<%s> loop exits' % tag, 'no advance of the iterator found', fn.where())
            continue
        bad = []
        nb = 0
        # the decoded value: any local that is initialised or assigned from a decode (`usv = *first`, `const uint32 ch = *first`)
        dec_ids = {d_['i'] for d_ in decodes}
        decoded = set()
        for _, u in fn.elements():
            if u['k'] == 'DeclStmt':
                for d_ in u['decls']:
                    if d_.get('init') is not None and any(x.get('i') in dec_ids for x in fn.walk(d_['init'])):
                        decoded.add(d_['n'])
            elif u['k'] == 'BinaryOperator' and u['op'] == '=' and any(x.get('i') in dec_ids for x in fn.walk(u['c'][1])):
                l_ = fn.strip(u['c'][0])
                if l_['k'] == 'DeclRefExpr':
                    decoded.add(l_['d'].split('::')[-1])
        for e in incs:
            fs = [f[:3] for f in dom.facts_at(fn, e['i'])]
            bounded_region = not any(f[0].startswith('last') and 'operator!=' not in f[0] and 'operator==' not in f[0] and f[1] == '==' and f[2] == '0' for f in fs)
            has_nul = any((f[0] in decoded or f[0].strip('()').split(' = ')[0] in decoded or 'usv' in f[0] or 'reference::operator' in f[0]) and f[1] == '!=' and f[2] == '0' for f in fs)
            has_err = any('first.error()' in f[0] and f[1] == '==' and f[2] == '0' for f in fs)
            has_end = any('operator!=' in f[0] and 'last' in f[0] and f[1] == '!=' and f[2] == '0' for f in fs)
            if bounded_region:
                nb += 1
            if not (has_nul and has_err and (has_end or not bounded_region)):
                bad.append((e, bounded_region, has_end, has_nul, has_err))
        inst = 'count<%s> loop exits' % tag
        if not bad and nb:
            run.held('VALIDATEFIRST', inst, fn.where(), 'every ++first is dominated by usv != 0 and !first.error(); with a buffer end also by first != last')
        elif not nb:
            run.broken('VALIDATEFIRST', inst, 'no iterator advance found in the region with a buffer end', fn.where())
        else:
            e, br, he, hn, hr = bad[0]
            run.violated('VALIDATEFIRST', inst, fn.loc(e), 'the counting loop lost one of its exits before it advances (buffer end region: %s; first != last: %s, NUL: %s, error: %s)'
                         % (br, he, hn, hr))


def _is_cont_test(f):
    """the byte is 10xxxxxx: `(*cp >> 6) == 2` or `(*cp & 0xC0) == 0x80`"""
    x = f[0].replace(' ', '')
    return f[1] == '==' and 'cp' in x and (('>>6' in x and f[2] == '2') or ('&192' in x and f[2] == '128'))


def contguard(run, fx):
    g8 = _uniq(fx.fns_named('graphite2::_utf_codec<8>::get'))
    if not g8:
        raise AnalysisBroken('_utf_codec<8>::get not found')
    fn = g8[0]
    cpv = fn.f['params'][0]['vid']
    incs = [e for _, e in fn.elements() if e['k'] == 'UnaryOperator' and e['op'] == 'pre++' and fn.strip(e['c'][0]).get('vid') == cpv]
    if len(incs) < 3:
        raise AnalysisBroken('_utf_codec<8>::get: expected 3 look-ahead reads, found %d' % len(incs))
    n = 0
    for a in incs:
        for b in incs:
            if a is b:
                continue
            ba, bb = fn.block_of[a['i']], fn.block_of[b['i']]
            if ba == bb:
                continue
            # b directly follows a (no other look-ahead in between)
            others = {fn.block_of[x['i']] for x in incs if x is not a and x is not b}
            seen, st = set(), list(fn.succs(ba))
            direct = False
            while st:
                x = st.pop()
                if x in seen or x in others:
                    continue
                seen.add(x)
                if x == bb:
                    direct = True
                    break
                st.extend(fn.succs(x))
            if not direct:
                continue
            n += 1
            inst = 'utf8 look-ahead @%s -> @%s' % (a.get('site') or '%s:%s' % (a['ln'], a['col']), b.get('site') or '%s:%s' % (b['ln'], b['col']))
            ok = dom.must_pass(fn, ba, bb, _is_cont_test)
            if ok:
                run.held('CONTGUARD', inst, fn.loc(b), 'next byte read only after the previous byte passed (*cp >> 6) == 2')
            else:
                run.violated('CONTGUARD', inst, fn.loc(b), 'a further UTF-8 byte is read although the previous one did not pass the continuation test: a NUL or a '
                             'lead byte inside a truncated sequence no longer stops the look-ahead (read past the terminator)')
    if n < 2:
        run.broken('CONTGUARD', 'utf8 chain', 'expected the 4->3->2 fall-through chain, found %d links' % n, fn.where())
    g16 = _uniq(fx.fns_named('graphite2::_utf_codec<16>::get'))[0]
    rd = [e for _, e in g16.elements() if e['k'] == 'ArraySubscriptExpr' and g16.strip_all_casts(e['c'][1]).get('v') == 1]
    if not rd:
        raise AnalysisBroken('_utf_codec<16>::get: read of cp[1] not found')
    for e in rd:
        fs = [f[:3] for f in dom.facts_at(g16, e['i'])]
        # facts about the first unit, whatever local holds it (resolved spelling cp[0])
        hi = any(f[0] in ('uh', 'cp[0]') and dom.implies(f, (f[0], '>=', str(0xD800))) for f in fs) and \
            any(f[0] in ('uh', 'cp[0]') and dom.implies(f, (f[0], '<=', str(0xDBFF))) for f in fs)
        if hi:
            run.held('CONTGUARD', 'utf16 trail read', g16.loc(e), 'cp[1] read only when cp[0] is a high surrogate (D800..DBFF)')
        else:
            run.violated('CONTGUARD', 'utf16 trail read', g16.loc(e), 'the second UTF-16 unit is read although the first is not a high surrogate', {'facts': fs})


def advancebound(run, fx):
    for bits, okpred, what in ((8, _is_cont_test, 'continuation test'),
                               (16, lambda f: f[0] in ('ul', 'cp[1]') and dom.implies(f, (f[0], '<=', str(0xDFFF))), 'low-surrogate test'),
                               (32, lambda f: False, 'none')):
        fn = _uniq(fx.fns_named('graphite2::_utf_codec<%d>::get' % bits))[0]
        lv = fn.f['params'][1]['vid']
        okedges = dom.edges_with(fn, okpred)
        # for utf16 the passing edge needs both bounds: ul >= DC00 is the first test's false edge
        worst = None
        npaths = 0

        def rec(b, l, okc, seen):
            nonlocal worst, npaths
            if seen.get(b, 0) >= 2:
                return
            seen = dict(seen)
            seen[b] = seen.get(b, 0) + 1
            for e in fn.blocks[b]['el']:
                k = e['k']
                if k == 'BinaryOperator' and e['op'] == '=' and fn.strip(e['c'][0]).get('vid') == lv:
                    r = fn.strip_all_casts(e['c'][1])
                    if r.get('v') is not None:
                        l = r['v']
                    elif r['k'] == 'UnaryOperator' and r['op'] == '-' and fn.strip_all_casts(r['c'][0]).get('vid') == lv:
                        l = -l if l is not None else None
                    else:
                        l = None
                elif k == 'UnaryOperator' and e['op'] in ('pre++', 'post++') and fn.strip(e['c'][0]).get('vid') == lv:
                    l = l + 1 if l is not None else None
                elif k == 'UnaryOperator' and e['op'] in ('pre--', 'post--') and fn.strip(e['c'][0]).get('vid') == lv:
                    l = l - 1 if l is not None else None
                elif k == 'CompoundAssignOperator' and fn.strip(e['c'][0]).get('vid') == lv:
                    l = None
                elif k == 'ReturnStmt':
                    npaths += 1
                    if l is None or abs(l) < 1 or abs(l) > 1 + okc:
                        if worst is None:
                            worst = (e, l, okc)
                    return
            for idx, s in enumerate(fn.blocks[b]['succ']):
                if s is None:
                    continue
                rec(s, l, okc + (1 if (b, idx) in okedges else 0), seen)
        rec(fn.entry, None, 0, {})
        inst = 'utf%d step length' % bits
        if npaths == 0:
            run.broken('ADVANCEBOUND', inst, 'no return path enumerated', fn.where())
        elif worst:
            e, l, okc = worst
            run.violated('ADVANCEBOUND', inst, fn.loc(e), '_utf_codec<%d>::get can return with step length l = %s after only %d further unit(s) passed the %s: the iterator '
                         'advances abs(l) units and steps over a code unit that was never vetted -- possibly the terminating NUL' % (bits, l, okc, what))
        else:
            run.held('ADVANCEBOUND', inst, fn.where(), '%d return paths: 1 <= |l| <= 1 + units that passed the %s' % (npaths, what))


def leadreject(run, fx):
    vals = {}
    for v in fx.raw['vars']:
        if v['q'].startswith('graphite2::_utf_codec<8>::') and v.get('init'):
            def consts(n, out):
                if isinstance(n, dict):
                    if n.get('k') in ('InitListExpr',):
                        for c in n.get('c', []):
                            consts(c, out)
                    elif n.get('v') is not None:
                        out.append(n['v'])
                    else:
                        for c in n.get('c', []) or []:
                            consts(c, out)
            out = []
            consts(v['init'], out)
            if out:
                vals[v['q'].split('::')[-1]] = out
    # by role, not by name: the 16-entry table is the length class per lead nibble, the 5-entry one the lead-byte mask per length
    sz = next((v for v in vals.values() if len(v) == 16), None)
    mask = next((v for v in vals.values() if len(v) == 5), None)
    limit = next((v for k_, v in vals.items() if len(v) == 1 and v[0] > 0xFFFF), None)
    if not sz or not mask or not limit or len(sz) != 16:
        raise AnalysisBroken('UTF-8 tables not found (sz_lut %s, mask_lut %s, limit %s)' % (sz, mask, limit))
    limit = limit[0]
    bad = []
    for b in range(0x80, 0x100):
        n = sz[b >> 4]
        if n == 4 and b > 0xF4:
            u = (b & mask[n]) << 18
            if u < limit:
                bad.append(b)
        if n not in (0, 1, 2, 3, 4):
            bad.append(b)
    # the classes themselves: 0x00-0x7F single, 0x80-0xBF trailing, C0-DF two, E0-EF three, F0-FF four
    want = [1] * 8 + [0] * 4 + [2, 2, 3, 4]
    g8 = _uniq(fx.fns_named('graphite2::_utf_codec<8>::get'))[0]
    has_limit = any(str(limit) in g8.render(g8.term_cond(b), resolve=True) or 'limit' in g8.render(g8.term_cond(b)) for b in g8.blocks if g8.term_cond(b) is not None)
    if sz != want:
        run.violated('LEADREJECT', 'utf8 lead classes', 'src/UtfCodec.cpp', 'sz_lut is %s, expected %s (single / trailing / 2 / 3 / 4 byte lead classes)' % (sz, want))
    elif bad or not has_limit:
        run.violated('LEADREJECT', 'utf8 lead classes', 'src/UtfCodec.cpp', 'lead bytes %s are classed as 4-byte leads but (lead & mask_lut[4]) << 18 stays below the %#x limit '
                     '(u >= limit test present: %s): F5..FF would decode as valid scalars instead of U+FFFD' % ([hex(b) for b in bad][:8], limit, has_limit))
    else:
        run.held('LEADREJECT', 'utf8 lead classes', 'src/UtfCodec.cpp', 'every lead above F4 exceeds the limit through mask %#x; classes %s' % (mask[4], sz))


def iterstep(run, fx):
    """operator++ advances the iterator's code-unit pointer by |stored sequence length| (roles: the pointer-typed member and the
    8-bit signed member of _utf_iterator)"""
    seen = 0
    for fn in _uniq([f for f in fx.all_fns() if '_utf_iterator<' in f.q and f.q.endswith('::operator++') and len(f.f['params']) == 0]):
        seen += 1
        ok = False
        for _, e in fn.elements():
            if e['k'] == 'CompoundAssignOperator' and e['op'] == '+=':
                l = fn.strip_all_casts(e['c'][0])
                if l['k'] == 'MemberExpr' and '*' in (l.get('t') or ''):
                    r = fn.deref(e['c'][1])
                    txt = fn.render(r, resolve=True)
                    import re as _re
                    t_ = txt.replace(' ', '')
                    hasabs = any((y.get('fq') or '').split('::')[-1] == 'abs' for y in fn.walk(r)) or \
                        bool(_re.search(r'\(\((.+?)<0\)\?-\1:\1\)', t_)) or bool(_re.search(r'\(\((.+?)>=0\)\?\1:-\1\)', t_)) or \
                        bool(_re.search(r'\(\((.+?)>0\)\?\1:-\1\)', t_))
                    small = any(y['k'] == 'MemberExpr' and (y.get('t') or '').replace('const ', '') in ('signed char', 'graphite2::int8', 'int8') for y in fn.walk(r))
                    if hasabs and small:
                        ok = True
        inst = 'operator++ %s' % fn.q.split('<', 1)[1].split('>')[0]
        if ok:
            run.held('ITERSTEP', inst, fn.where(), 'pointer member += abs(sequence length member)', False)
        else:
            run.violated('ITERSTEP', inst, fn.where(), '_utf_iterator::operator++ no longer advances by abs(sl)')
    if seen < 3:
        run.broken('ITERSTEP', '*', 'expected >= 3 iterator instantiations, found %d' % seen)


def derefadvance(run, fx, rule='ITERSTEP'):
    """ITERSTEP at the use sites: a _utf_iterator only learns how many code units its character occupies when IT is dereferenced
    (operator* hands the codec a reference to the iterator's own step length), so every `++it` / `it++` in the library is preceded, in
    the same loop iteration, by a dereference of that same iterator VARIABLE -- a dereference of a temporary copy (`*it++`) teaches the
    copy, and the variable then steps by a stale length: one unit into the middle of a surrogate pair or a multi-byte sequence."""
    from .util import loop_bodies
    n = 0
    for fn in fx.all_fns():
        if '_utf_iterator<' in fn.q:
            continue                        # the iterator's own members (postfix ++ is written in terms of prefix ++ on *this)
        incs = [e for _, e in fn.elements() if e['k'] == 'CXXOperatorCallExpr' and '_utf_iterator<' in (e.get('fq') or '') and (e.get('fq') or '').endswith('::operator++')]
        if not incs:
            continue
        derefs = [e for _, e in fn.elements() if e['k'] == 'CXXOperatorCallExpr' and '_utf_iterator<' in (e.get('fq') or '') and (e.get('fq') or '').endswith('::operator*')]
        lb = loop_bodies(fn)
        dom_ = fn.dominators()

        def var_of(e):
            a = (e.get('args') or [None])[0]
            if a is None:
                return None
            x = fn.strip_all_casts(fn.N(a))
            return x.get('vid') if x.get('k') == 'DeclRefExpr' else None
        for inc in incs:
            v = var_of(inc)
            if v is None:
                continue
            n += 1
            bi = fn.block_of[inc['i']]
            loops = [body for h, body in lb.items() if bi in body]
            ok = False
            for d in derefs:
                if var_of(d) != v:
                    continue
                bd = fn.block_of[d['i']]
                if not ((bd in dom_[bi] and bd != bi) or (bd == bi and fn.pos_of[d['i']] < fn.pos_of[inc['i']])):
                    continue
                if all(bd in body for body in loops):
                    ok = True
                    break
            inst = '%s: ++ of a decoding iterator @%s' % (fn.q.split('graphite2::')[-1][:60], inc.get('ln'))
            if ok:
                run.held(rule, inst, fn.loc(inc), 'the same iterator variable is dereferenced earlier in the iteration', False)
            else:
                run.violated(rule, inst, fn.loc(inc), '%s advances a UTF iterator (line %s) that has not itself been dereferenced in this iteration (a dereference of a temporary copy, as in `*it++`, does '
                             'not count): it steps by the length of the PREVIOUS character -- into the middle of a surrogate pair or multi-byte sequence; the text is decoded differently from the '
                             'same scalars in another encoding' % (fn.q, inc.get('ln')))
    if n < 4:
        run.broken(rule, 'every ++ of a UTF iterator follows a dereference of the same iterator', 'expected at least 4 increments of _utf_iterator variables in the library, found %d' % n)


def validateback(run, fx):
    """VALIDATEFIRST, the helper's own reads: _utf_codec<W>::validate(s, e) looks BACKWARDS from e to see whether the buffer ends inside a
    multi-unit sequence.  Interpreted (rules/ordint.py) on buffers of 0..6 units and on an inverted range, every unit taking every
    class of value the function's own constants distinguish: no unit outside [s, e) is read."""
    from . import ordint as O
    for w in (8, 16, 32):
        fns = _uniq(fx.fns_named('graphite2::_utf_codec<%d>::validate' % w))
        if not fns:
            run.broken('VALIDATEFIRST', 'utf%d validate reads inside the buffer' % w, 'graphite2::_utf_codec<%d>::validate not found' % w)
            continue
        fn = fns[0]
        consts = set()
        for _, e in fn.elements():
            if e['k'] == 'IntegerLiteral' and e.get('v') is not None:
                consts.add(e['v'])
        cands = sorted({min(max(0, c + d), (1 << w) - 1) for c in consts for d in (-1, 0, 1)} | {0, (1 << w) - 1})
        paths = 0
        prob = None
        for n in range(-1, 7):
            ch = O.Chooser()
            while True:
                ch.start()
                vec = O.Vec([O.Lz(cands) for _ in range(max(n, 0) + 2)])
                # the buffer proper is items[1 .. 1+n); one unit of foreign memory on either side that must never be touched
                guard_lo, guard_hi = vec.items[0], vec.items[-1]
                lo = 1 if n >= 0 else 2
                it = O.Interp(fx, ch)
                it.MAX_STEPS = 4000
                inner = O.Vec(vec.items[1:1 + max(n, 0)])
                try:
                    it.call(fn, None, [O.It(inner, 0 if n >= 0 else 1), O.It(inner, n if n >= 0 else 0)])
                except O.Violation as v:
                    prob = 'buffer of %d unit(s): %s (%s)' % (n, v.what, v.loc)
                paths += 1
                if prob or not ch.advance():
                    break
            if prob:
                break
        inst = 'utf%d validate reads inside the buffer' % w
        if prob:
            run.violated('VALIDATEFIRST', inst, fn.where(), '_utf_codec<%d>::validate reads a code unit outside [s, e): %s -- gr_count_unicode_characters reads before buffer_begin / after buffer_end' % (w, prob))
        else:
            run.held('VALIDATEFIRST', inst, fn.where(), '%d abstract paths over buffers of -1..6 units, unit classes %s' % (paths, cands))


def utf32range(run, fx):
    """LEADREJECT's sibling for UTF-32: _utf_codec<32>::get, interpreted over an exact finite partition of the 32-bit code unit (the classes
    distinguished by the function's own comparison constants and constant masks -- the unit is only compared and masked, anything else
    is analysis-broken): every Unicode scalar value (0..D7FF, E000..10FFFF) is returned unchanged with length +1, every unit >= 110000 is
    returned as U+FFFD with a negative length.  Nothing is demanded for surrogate code points (the tree passes them through)."""
    from . import ordint as O
    fns = _uniq(fx.fns_named('graphite2::_utf_codec<32>::get'))
    inst = 'utf32 get accepts exactly the scalar range'
    if not fns:
        run.broken('LEADREJECT', inst, 'graphite2::_utf_codec<32>::get not found')
        return
    fn = fns[0]
    cuts, masks = {0xD800, 0xE000, 0x110000}, set()
    for _, e in fn.elements():
        if e['k'] == 'BinaryOperator' and e['op'] == '&':
            for c_ in e['c']:
                v_ = fn.strip_all_casts(c_).get('v')
                if v_:
                    masks.add(v_)
        elif e.get('v') is not None and e['k'] in ('IntegerLiteral', 'DeclRefExpr', 'ImplicitCastExpr') and e['v'] > 1:
            cuts.add(e['v'] & 0xFFFFFFFF)
    g = min([m & -m for m in masks] + [1 << 32])
    period = max([1 << m.bit_length() for m in masks] + [1])
    cands = set()
    for c_ in cuts | masks:
        for d in (-1, 0, 1):
            cands.add((c_ + d) & 0xFFFFFFFF)
    if g < (1 << 32):
        top = max(cuts) + 2 * period
        if top // g > 40000:
            run.broken('LEADREJECT', inst, 'the partition of the code unit has more than 40000 classes (mask granularity %#x)' % g, fn.where())
            return
        cands |= set(range(0, top, g))
        cands |= {(1 << 32) - period + k for k in range(0, period, g)}
    cands |= {0, 1, 0x7F, 0x80, 0x7FF, 0x800, 0xFFFF, 0x10000, 0x10FFFF, 0x7FFFFFFF, 0x80000000, 0xFFFFFFFF}
    cands = sorted(x for x in cands if 0 <= x < (1 << 32))
    bad = None
    n = 0
    for v in cands:
        unit = O.Lz([v])
        lref = O.LV([None], 0)
        it = O.Interp(fx)
        it.MAX_STEPS = 500
        try:
            ret = it.call(fn, None, [O.It(O.Vec([unit]), 0), lref])
        except O.Violation as ex:
            bad = 'unit %#x: %s' % (v, ex.what)
            break
        n += 1
        l = lref.load()
        rv = ret.v if isinstance(ret, O.Lz) else ret
        scalar = v < 0xD800 or 0xE000 <= v <= 0x10FFFF
        if scalar and not (l == 1 and ret is unit):
            bad = 'the scalar value U+%04X supplied as UTF-32 decodes to %s with length %s (expected itself, +1)' % (v, ('U+%04X' % rv) if isinstance(rv, int) else rv, l)
            break
        if v >= 0x110000 and not (isinstance(l, int) and l < 0 and rv == 0xFFFD):
            bad = 'the code unit %#x (beyond U+10FFFF) decodes to %s with length %s (expected U+FFFD and a negative length)' % (v, ('U+%04X' % rv) if isinstance(rv, int) else rv, l)
            break
    if bad:
        run.violated('LEADREJECT', inst, fn.where(), '_utf_codec<32>::get: ' + bad)
    else:
        run.held('LEADREJECT', inst, fn.where(), '%d value classes (cut points %s, masks %s)' % (n, sorted(hex(c_) for c_ in cuts), sorted(hex(m) for m in masks)))


def countexact(run, fx):
    """C11's statement itself, for the two encodings whose decoders only COMPARE code units while counting (UTF-16, UTF-32): the
    instantiation of count_unicode_chars with its iterator, reference proxy, codec get / validate all inlined from their own CFGs is
    interpreted (rules/ordint.py) on every buffer of 0..3 code units, each unit taking a representative of every class the decoders
    distinguish (NUL, ordinary, lead / trail surrogate boundaries, beyond U+10FFFF), with a buffer end and -- for NUL-terminated texts --
    without one.  Checked against an independent statement of the encoding: no unit outside the buffer is read; well-formed text that
    does not end in a truncated pair gives the exact count and *pError == NULL; ill-formed text reports an error; a reported error
    points inside the buffer and the count does not exceed the well-formed characters before the first ill-formed sequence.
    (UTF-8 decoding does arithmetic on the bytes; it is covered by CONTGUARD / LEADREJECT / ADVANCEBOUND, not here.)"""
    import itertools
    from . import ordint as O
    fns = _uniq(fx.fns_named('(anonymous namespace)::count_unicode_chars'))
    specs = {
        16: ('const unsigned short', [0, 0x41, 0xD7FF, 0xD800, 0xDBFF, 0xDC00, 0xDFFF, 0xE000]),
        32: ('const unsigned int', [0, 0x41, 0xD800, 0xDFFF, 0x10FFFF, 0x110000, 0xFFFFFFFF]),
        # UTF-8 decoding does arithmetic on the bytes: each class representative is executed as the number it is (bounded, not a partition argument)
        8: ('const unsigned char', [0, 0x41, 0x7F, 0x80, 0xBF, 0xC2, 0xDF, 0xE1, 0xEF, 0xF1, 0xF4, 0xF5, 0xFF]),
    }

    def parse(w, units):
        """(count of well-formed characters before the first NUL / ill-formed sequence / end, index of the first ill-formed sequence or None)"""
        i, cnt = 0, 0
        while i < len(units):
            u = units[i]
            if u == 0:
                return cnt, None
            if w == 8:
                need = 0 if u < 0x80 else 1 if 0xC2 <= u <= 0xDF else 2 if 0xE1 <= u <= 0xEF else 3 if 0xF1 <= u <= 0xF3 else None
                if need is None or i + need >= len(units) + (0 if need else 1) or any(not (0x80 <= x <= 0xBF) for x in units[i + 1:i + 1 + need]) or len(units[i + 1:i + 1 + need]) < need:
                    return cnt, i
                cnt, i = cnt + 1, i + 1 + need
                continue
            if w == 32:
                if u >= 0x110000:
                    return cnt, i
                cnt, i = cnt + 1, i + 1
                continue
            if u < 0xD800 or u > 0xDFFF:
                cnt, i = cnt + 1, i + 1
            elif u <= 0xDBFF:
                if i + 1 < len(units) and 0xDC00 <= units[i + 1] <= 0xDFFF:
                    cnt, i = cnt + 1, i + 2
                else:
                    return cnt, i
            else:
                return cnt, i
        return cnt, None

    for w, (ctype, reps) in specs.items():
        fn = [f for f in fns if ctype in f.qt]
        inst = 'gr_count_unicode_characters is exact and bounded for UTF-%d' % w
        if len(fn) != 1:
            run.broken('VALIDATEFIRST', inst, 'the count_unicode_chars instantiation for %s was not found' % ctype)
            continue
        fn = fn[0]
        IT = 'graphite2::_utf_iterator<%s>::' % ctype
        # the iterator's members by role (its one pointer, its one small integer): renaming them does not misplace the harness' inputs
        irec = fx.raw['records'].get(IT[:-2]) or {}
        pf = [f_['n'] for f_ in irec.get('fields', []) if '*' in (f_.get('t') or '')]
        sf = [f_['n'] for f_ in irec.get('fields', []) if '*' not in (f_.get('t') or '') and 'char' in (f_.get('t') or '')]
        if len(pf) != 1 or len(sf) != 1:
            run.broken('VALIDATEFIRST', inst, 'the position / step-length members of %s were not recognised' % IT[:-2], fn[0].where() if fn else '')
            continue
        FCP, FSL = IT + pf[0], IT + sf[0]
        cases, prob = 0, None
        ctor = [f_ for f_ in _uniq(fx.fns_named(IT + '_utf_iterator')) if not f_.f.get('implicit') and len(f_.f.get('params') or []) == 1 and 'void' in ((f_.f.get('params') or [{}])[0].get('t') or '')]
        ctor = ctor[0] if len(ctor) == 1 else None
        if ctor is None:
            run.observe('VALIDATEFIRST: the constructor %s_utf_iterator(const void *) was not found in the facts; the iterators of the count run start with step length 1 by hand' % IT)
        try:
            for n in range(0, 4):
                for units in itertools.product(reps, repeat=n):
                    for with_last in (True, False):
                        if not with_last and 0 not in units:
                            continue               # without a buffer end the text must be NUL-terminated (the API contract)
                        vec = O.Vec([O.Lz([u]) for u in units])
                        it = O.Interp(fx, natives={'abs': lambda i_, f_, e_, o_, a_: abs(i_.rv(a_[0]))})
                        it.MAX_STEPS = 6000
                        # the two iterators are made by the iterator's own constructor (as gr_count_unicode_characters makes them from
                        # the caller's pointers), not set up by hand: the initial step length is the library's
                        first, last = O.Rec({FCP: None, FSL: None}), O.Rec({FCP: None, FSL: None})
                        if ctor is not None:
                            it.call(ctor, first, [O.It(vec, 0)])
                            it.call(ctor, last, [O.It(vec, n) if with_last else O.Ptr(None)])
                            it.steps = 0
                        else:
                            first[FCP], first[FSL] = O.It(vec, 0), 1
                            last[FCP], last[FSL] = (O.It(vec, n) if with_last else O.Ptr(None)), 1
                        errv = O.Vec(['unset'])
                        it.lz_arith_ok = True        # the decoded value of a surrogate pair is only tested against 0 here, and it is >= 0x10000 for every pair
                        it.MAX_STEPS = 6000
                        desc = 'UTF-%d units [%s]%s' % (w, ' '.join('%04X' % u for u in units), ' with buffer end' if with_last else ' NUL-terminated, no buffer end')
                        try:
                            r = it.call(fn, None, [first, last, O.It(errv, 0)])
                        except O.Violation as v:
                            prob = '%s: %s (%s)' % (desc, v.what, v.loc)
                            break
                        cases += 1
                        e_ = errv.items[0]
                        if isinstance(e_, O.Ptr) and e_.rec is None:
                            e_ = 0
                        reported = not (isinstance(e_, int) and e_ == 0)
                        cnt, bad = parse(w, list(units))
                        text_end = list(units).index(0) if 0 in units else n
                        trunc_tail = with_last and w == 16 and n > 0 and 0xD800 <= units[-1] <= 0xDBFF
                        if w == 8 and with_last:
                            for k_ in range(1, min(3, n) + 1):          # the buffer ends inside a multi-byte sequence: the truncated-tail clause, either answer
                                ld = units[n - k_]
                                need_ = 1 if 0xC0 <= ld <= 0xDF else 2 if 0xE0 <= ld <= 0xEF else 3 if ld >= 0xF0 else 0
                                if need_ >= k_ and all(0x80 <= x <= 0xBF for x in units[n - k_ + 1:]):
                                    trunc_tail = True
                        if bad is None and not trunc_tail:
                            if r != cnt or reported:
                                prob = '%s: well-formed text of %d character(s), but the count is %r and *pError is %s' % (desc, cnt, r, 'set' if reported else 'NULL')
                                break
                        if bad is not None and not reported:
                            prob = '%s: the sequence at unit %d is ill-formed but no error is reported (count %r)' % (desc, bad, r)
                            break
                        if reported:
                            if not (isinstance(e_, O.It) and e_.vec is vec and 0 <= e_.idx < max(n, 1) and n > 0):
                                prob = '%s: *pError = %s does not point inside the buffer' % (desc, ('unit %d' % e_.idx) if isinstance(e_, O.It) else repr(e_))
                                break
                            if not isinstance(r, int) or r > cnt:
                                prob = '%s: an error is reported with count %r, more than the %d well-formed character(s) before the first ill-formed sequence' % (desc, r, cnt)
                                break
                    if prob:
                        break
                if prob:
                    break
        except AnalysisBroken as ex:
            run.broken('VALIDATEFIRST', inst, str(ex), fn.where())
            continue
        if prob:
            run.violated('VALIDATEFIRST', inst, fn.where(), prob)
        else:
            run.held('VALIDATEFIRST', inst, fn.where(), '%d abstract executions: buffers of 0..3 units over unit classes %s' % (cases, ['%X' % u for u in reps]))


def decodeexact(run, fx, rule='LEADREJECT'):
    """"the same scalar sequence supplied as UTF-8, UTF-16 or UTF-32 produces identical segments": _utf_codec<8>::get and
    _utf_codec<16>::get, interpreted from their own CFGs on the encodings of a grid of scalar values (both ends of every length class,
    both ends of every plane group: lead-surrogate payloads with and without each high bit), return that scalar value and the length
    of the sequence.  Bounded: the grid, not every scalar."""
    from . import ordint as O
    grid = [0x41, 0x7F, 0x80, 0x7FF, 0x800, 0xD7FF, 0xE000, 0xFFFD, 0xFFFF, 0x10000, 0x103FF, 0x10400, 0x1D510, 0x1FFFF, 0x20000, 0x2F800, 0x3FFFF, 0x40000,
            0x7FFFF, 0x80000, 0xE0001, 0xFFFFF, 0x100000, 0x10FC00, 0x10FFFF]
    for w in (8, 16):
        fns = _uniq(fx.fns_named('graphite2::_utf_codec<%d>::get' % w))
        inst = 'utf%d get returns the scalar value that was encoded' % w
        if not fns:
            run.broken(rule, inst, 'graphite2::_utf_codec<%d>::get not found' % w)
            continue
        fn = fns[0]
        prob, cases = None, 0
        try:
            for cp in grid:
                if w == 8:
                    units = list(chr(cp).encode('utf-8', 'surrogatepass'))
                else:
                    units = [cp] if cp < 0x10000 else [0xD800 + ((cp - 0x10000) >> 10), 0xDC00 + ((cp - 0x10000) & 0x3FF)]
                vec = O.Vec(list(units) + [0])
                lbox = [0]
                it = O.Interp(fx)
                it.MAX_STEPS = 2000
                cases += 1
                try:
                    r = it.call(fn, None, [O.It(vec, 0), O.LV(lbox, 0)])
                except O.Violation as v:
                    prob = 'U+%04X encoded as [%s]: %s (%s)' % (cp, ' '.join('%02X' % u for u in units), v.what, v.loc)
                    break
                if r != cp or lbox[0] != len(units):
                    prob = 'U+%04X encoded as [%s] decodes to %s with length %r: the UTF-%d form of a text no longer gives the characters (name-table labels, segments) its UTF-32 form gives' % (
                        cp, ' '.join(('%02X' if w == 8 else '%04X') % u for u in units), ('U+%04X' % r) if isinstance(r, int) else repr(r), lbox[0], w)
                    break
        except AnalysisBroken as ex:
            run.broken(rule, inst, str(ex), fn.where())
            continue
        if prob:
            run.violated(rule, inst, fn.where(), prob)
        else:
            run.held(rule, inst, fn.where(), '%d scalar values decoded from their encodings' % cases)
        # the encoder (name-table labels are converted with it): put() writes exactly the standard encoding
        pf = _uniq(fx.fns_named('graphite2::_utf_codec<%d>::put' % w))
        inst = 'utf%d put writes the standard encoding' % w
        if not pf:
            run.broken(rule, inst, 'graphite2::_utf_codec<%d>::put not found' % w)
            continue
        prob = None
        try:
            for cp in grid:
                want = list(chr(cp).encode('utf-8', 'surrogatepass')) if w == 8 else ([cp] if cp < 0x10000 else [0xD800 + ((cp - 0x10000) >> 10), 0xDC00 + ((cp - 0x10000) & 0x3FF)])
                vec = O.Vec(['unset'] * 4)
                lbox = [0]
                it = O.Interp(fx)
                it.MAX_STEPS = 2000
                try:
                    it.call(pf[0], None, [O.It(vec, 0), cp, O.LV(lbox, 0)])
                except O.Violation as v:
                    prob = 'U+%04X: %s (%s)' % (cp, v.what, v.loc)
                    break
                mask = 0xFF if w == 8 else 0xFFFF
                got = [x & mask if isinstance(x, int) else x for x in vec.items[:len(want)]]
                if got != want or lbox[0] != len(want) or any(x != 'unset' for x in vec.items[len(want):]):
                    prob = 'U+%04X is written as %s (length %r), its UTF-%d encoding is [%s]' % (cp, vec.items, lbox[0], w, ' '.join('%X' % u for u in want))
                    break
        except AnalysisBroken as ex:
            run.broken(rule, inst, str(ex), pf[0].where())
            continue
        if prob:
            run.violated(rule, inst, pf[0].where(), prob)
        else:
            run.held(rule, inst, pf[0].where(), '%d scalar values encoded' % len(grid))


def errset(run, fx):
    """`*pError` is the function's second result: NULL for well-formed text, the offending position otherwise.  The only code that writes
    it is count_unicode_chars; so every return of gr_count_unicode_characters for a valid encoding form hands the caller's pError to
    count_unicode_chars (an early `return 0` for, say, an empty range leaves whatever the caller had in the variable: an empty range is
    well-formed text of 0 characters and must report NULL)."""
    from .validators import case_context
    fn = fx.one('gr_count_unicode_characters')
    pe = [p_ for p_ in fn.f['params'] if '**' in p_['t'].replace(' ', '')]
    if len(pe) != 1:
        run.broken('VALIDATEFIRST', 'pError is always written', 'the error out-parameter of gr_count_unicode_characters was not recognised', fn.where())
        return
    ctx = case_context(fn)
    n = 0
    for _, e in fn.elements():
        if e['k'] != 'ReturnStmt':
            continue
        n += 1
        inst = 'pError is written before the return @%s' % e['ln']
        fwd = [x for x in fn.walk(e['c'][0]) if x['k'] == 'CallExpr' and 'count_unicode_chars' in (x.get('fq') or '')
               and any(fn.strip_all_casts(fn.N(a)).get('vid') == pe[0]['vid'] for a in x.get('args', []))] if e.get('c') else []
        if fwd:
            run.held('VALIDATEFIRST', inst, fn.loc(e), 'returns count_unicode_chars(.., pError)')
        elif ctx.get(fn.block_of[e['i']]) == ('default',) or (fn.blocks[fn.block_of[e['i']]].get('label') or {}).get('k') == 'DefaultStmt':
            run.held('VALIDATEFIRST', inst, fn.loc(e), 'the arm for an invalid encoding form (outside the contract)', False)
        else:
            stores = [x for _, x in fn.elements() if x['k'] == 'BinaryOperator' and x['op'] == '=' and fn.strip(x['c'][0])['k'] == 'UnaryOperator'
                      and fn.strip_all_casts(fn.N(fn.strip(x['c'][0])['c'][0])).get('vid') == pe[0]['vid'] and fn.block_of[x['i']] in fn.dominators()[fn.block_of[e['i']]]]
            if stores:
                run.held('VALIDATEFIRST', inst, fn.loc(e), 'stores *pError itself before returning')
            else:
                run.violated('VALIDATEFIRST', inst, fn.loc(e), 'gr_count_unicode_characters returns here for a valid encoding form without calling count_unicode_chars and without storing '
                             '*pError: the caller\'s variable keeps its old value, so well-formed text (an empty range is 0 well-formed characters) is not reported with *pError == NULL')
    if n < 3:
        run.broken('VALIDATEFIRST', 'pError is always written', 'expected a return per encoding form, found %d' % n, fn.where())


def run(run):
    fx = run.facts('Q0')
    errset(run, fx)
    decodeexact(run, fx)
    validatefirst(run, fx)
    countexact(run, fx)
    validateback(run, fx)
    contguard(run, fx)
    advancebound(run, fx)
    leadreject(run, fx)
    utf32range(run, fx)
    from .util import share as _share
    if not getattr(run, '_sharing', False):
        run._sharing = True
        try:
            _share(run, 'c12', ['TEXTFLOW', 'ONEDECODE'], 'ADVANCEBOUND')       # one decode per character, the count handed on unchanged (shared with C12)
            _share(run, 'c05', ['CINFO'], 'ITERSTEP')                          # the code-unit offsets the decoder reports are the ones the char-infos keep (shared with C05)
        finally:
            run._sharing = False
    iterstep(run, fx)
    derefadvance(run, fx)
    from . import c12
    from .util import OnlyRules
    for f_ in (c12.nulstop, c12.textexec):      # gr_make_seg decodes with the same iterator: it consumes exactly the text in every encoding, whatever was decoded before (shared with C12)
        try:
            f_(OnlyRules(run, ['NULSTOP'], {'NULSTOP': 'ADVANCEBOUND'}, soft=True), fx)
        except AnalysisBroken as ex:
            run.observe('shared C12 rule could not decide here: %s' % ex)
