"""LINKSYM engine: symbolic link-heap execution of the functions that relink the slot stream.

Every control path of a mutator (loops unrolled, each block visited at most twice) is executed
over an abstract heap of the stream links {slot.next, slot.prev, segment.first, segment.last}.
Terms: parameters / registers (symbols), null, fresh slots, initial field values
init(obj, field), opaque getter results.  The PRE-state is assumed well-formed
(prev0(next0(x)) = x, next0(prev0(x)) = x, prev0(first0) = null, next0(last0) = null); the
POST-state of every complete path must satisfy, for every link the path wrote:

  R1  o.next := v (v != null)  =>  post(v.prev) == o
  R2  o.prev := v (v != null)  =>  post(v.next) == o
  R3  o.next := null           =>  post(last)  == o
  R4  o.prev := null           =>  post(first) == o
  R5  first := v (v != null)   =>  post(v.prev) == null
  R6  last  := v (v != null)   =>  post(v.next) == null

Objects that the path re-constructs (placement new) or takes from / returns to the free list are
off-stream and exempt.  A construct the evaluator cannot classify makes the instance `broken`.
"""
from .facts import AnalysisBroken

NULL = ('null',)
SEG = ('seg',)


class Unsupported(Exception):
    pass


class PathState:
    def __init__(self):
        self.env = {}          # lvalue key -> term
        self.heap = {}         # (obj term, field) -> term   (writes made on this path)
        self.order = []        # [(obj, field, value, loc)]
        self.null = {}         # term -> True (null) / False (non-null)
        self.eqs = []          # [(a, b)] known equal
        self.neqs = []
        self.off = set()       # off-stream objects (re-constructed / free list)
        self.fresh = 0
        self.calls = []
        self.feasible = True

    def clone(self):
        n = PathState()
        n.env = dict(self.env)
        n.heap = dict(self.heap)
        n.order = list(self.order)
        n.null = dict(self.null)
        n.eqs = list(self.eqs)
        n.neqs = list(self.neqs)
        n.off = set(self.off)
        n.fresh = self.fresh
        n.calls = list(self.calls)
        n.bools = dict(getattr(self, 'bools', {}))
        n.tree_writes = list(getattr(self, 'tree_writes', []))
        return n


def show(t):
    if not isinstance(t, tuple):
        return str(t)
    k = t[0]
    if k == 'null':
        return 'NULL'
    if k == 'seg':
        return 'seg'
    if k == 'sym':
        return t[1]
    if k == 'fresh':
        return 'new#%d' % t[1]
    if k == 'init':
        return '%s.%s0' % (show(t[1]), t[2])
    if k == 'call':
        return '%s(%s)' % (t[1].split('::')[-1], ','.join(show(a) for a in t[2]))
    if k == 'garbage':
        return 'garbage(%s)' % show(t[1])
    return '<%s>' % k


class LinkSym:
    MAXPATHS = 6000

    def __init__(self, fn, this_kind, start=None, seg_names=('seg', 'segment'), stop_at_labels=None, regs=None):
        """this_kind: 'seg' when `this` is the Segment, 'slot' when a Slot, None for free functions"""
        self.fn = fn
        self.this_kind = this_kind
        self.start = fn.entry if start is None else start
        self.paths = []
        self.opq = 0
        self.regs = regs or {}
        self.cursor = ()

    # ------------------------------------------------------------------ term helpers
    def norm(self, st, t):
        """apply the pre-state well-formedness axioms"""
        if isinstance(t, tuple) and t[0] == 'init':
            if t[1] == SEG and t[2] == 'last' and getattr(self, 'alias_last', None) is not None:
                # window mode: m_last is the k-th slot of the list (a line end inside the stream), not its end
                a = ('init', SEG, 'first')
                for _ in range(self.alias_last):
                    a = ('init', a, 'next')
                return self.norm(st, a)
            o = self.norm(st, t[1])
            f = t[2]
            if isinstance(o, tuple) and o[0] == 'init' and o[1] != SEG:
                inv = {'next': 'prev', 'prev': 'next'}
                if inv.get(o[2]) == f and not self._maybe_deleted(st, o[1]):
                    return self.norm(st, o[1])
            if isinstance(o, tuple) and o[0] == 'init' and o[1] == SEG:
                if (o[2], f) in (('first', 'prev'), ('last', 'next')) and not getattr(self, 'window', False):
                    return NULL         # (not assumed in window mode: justify narrows m_first/m_last to a line inside the list)
            if o[0] == 'fresh':
                return NULL if o[1] < 1000 else ('garbage', o)
            return ('init', o, f)
        return t

    def _maybe_deleted(self, st, x):
        """x is a slot that a previous DELETE may have unlinked (its neighbours no longer point back at it)"""
        for m in getattr(self, 'cursor', ()):
            if x == m:
                for (a, b), v in getattr(st, 'bools', {}).items():
                    if a[0] == 'call' and a[1] == 'graphite2::Slot::isDeleted' and b == ('int', 1) and a[2][0] == x:
                        return v is not False
                return True
        return False

    def same(self, st, a, b):
        a, b = self.norm(st, a), self.norm(st, b)
        if a == b:
            return True
        # known equalities (one step, symmetric)
        for x, y in st.eqs:
            x, y = self.norm(st, x), self.norm(st, y)
            if (x == a and y == b) or (x == b and y == a):
                return True
        if a == NULL and st.null.get(b) is True:
            return True
        if b == NULL and st.null.get(a) is True:
            return True
        return False

    def is_null(self, st, t):
        t = self.norm(st, t)
        if t == NULL:
            return True
        if t[0] == 'fresh':
            return False
        v = st.null.get(t)
        if v is not None:
            return v
        for x, y in st.eqs:
            x, y = self.norm(st, x), self.norm(st, y)
            if x == t and (y == NULL or st.null.get(y) is True):
                return True
            if y == t and (x == NULL or st.null.get(x) is True):
                return True
            if x == t and (y[0] == 'fresh' or st.null.get(y) is False):
                return False
            if y == t and (x[0] == 'fresh' or st.null.get(x) is False):
                return False
        return None

    def read(self, st, obj, field):
        obj = self.norm(st, obj)
        if (obj, field) in st.heap:
            return st.heap[(obj, field)]
        # an alias known equal to an object that was written
        for (o, f), v in st.heap.items():
            if f == field and self.same(st, o, obj):
                return v
        if obj[0] == 'fresh':
            return NULL if obj[1] < 1000 else ('garbage', obj)     # Segment::newSlot returns a slot with null links (NEWSLOTCLEAN)
        return self.norm(st, ('init', obj, field))

    def write(self, st, obj, field, val, loc):
        obj = self.norm(st, obj)
        val = self.norm(st, val)
        # overwrite an aliasing entry
        for (o, f) in list(st.heap):
            if f == field and o != obj and self.same(st, o, obj):
                del st.heap[(o, f)]
        st.heap[(obj, field)] = val
        st.order.append((obj, field, val, loc))

    # ------------------------------------------------------------------ evaluation
    def opaque(self, what):
        self.opq += 1
        return ('sym', '%s#%d' % (what, self.opq))

    def run(self, init_state=None):
        st = init_state.clone() if init_state is not None else PathState()
        self._explore(self.start, st, {}, {})
        return self.paths

    def _explore(self, b, st, val, visits):
        fn = self.fn
        while True:
            if len(self.paths) > self.MAXPATHS:
                raise AnalysisBroken('%s: too many paths for the link-heap analysis' % fn.q)
            visits = dict(visits)
            visits[b] = visits.get(b, 0) + 1
            if visits[b] > getattr(self, "max_visits", 2):
                return                      # deeper loop iterations are not explored (not a complete path)
            blk = fn.blocks[b]
            done = False
            for e in blk['el']:
                r = self._eval(e, st, val)
                if r == 'exit':
                    done = True
                    break
            tk = (blk.get('term') or {}).get('k')
            if done or b == fn.exit or not blk['succ'] or tk in ('IndirectGotoStmt',) or (tk == 'GotoStmt' and blk['term'].get('label') == 'end'):
                st.exit_block = b
                self.paths.append(st)
                return
            succ = blk['succ']
            if len(succ) == 1:
                if succ[0] is None:
                    return
                b = succ[0]
                continue
            if len(succ) == 2:
                cond = (blk.get('term') or {}).get('cond')
                c = val.get(cond) if cond is not None else None
                for idx, pol in ((0, True), (1, False)):
                    if succ[idx] is None:
                        continue
                    s2 = st.clone()
                    if c is not None and not self._assume(s2, c, pol):
                        continue            # infeasible
                    self._explore(succ[idx], s2, dict(val), visits)
                return
            for s in succ:
                if s is not None:
                    self._explore(s, st.clone(), dict(val), visits)
            return

    def _assume(self, st, c, pol):
        """c is a boolean descriptor; returns False when it contradicts the path"""
        k = c[0]
        if k == 'const':
            return c[1] == pol
        if k == 'not':
            return self._assume(st, c[1], not pol)
        if k == 'nonnull':
            if isinstance(c[1], tuple) and c[1][0] == 'int':
                return bool(c[1][1]) == pol
            t = self.norm(st, c[1])
            cur = self.is_null(st, t)
            want_null = not pol
            if cur is not None and cur != want_null:
                return False
            if t != NULL and t[0] != 'fresh':
                st.null[t] = want_null
                if not self._empty_axiom(st, t, want_null):
                    return False
            return True
        if k in ('eq', 'ne'):
            a, b = self.norm(st, c[1]), self.norm(st, c[2])
            equal = (k == 'eq') == pol
            if equal:
                if self.same(st, a, b):
                    return True
                na, nb = self.is_null(st, a), self.is_null(st, b)
                if na is not None and nb is not None and na != nb:
                    return False
                if a[0] == 'fresh' and b[0] == 'fresh' and a != b:
                    return False
                for x, y in st.neqs:
                    if (self.same(st, x, a) and self.same(st, y, b)) or (self.same(st, x, b) and self.same(st, y, a)):
                        return False
                if b == NULL:
                    st.null[a] = True
                    return self._empty_axiom(st, a, True)
                elif a == NULL:
                    st.null[b] = True
                    return self._empty_axiom(st, b, True)
                else:
                    st.eqs.append((a, b))
                return True
            else:
                if self.same(st, a, b):
                    return False
                if b == NULL:
                    if self.is_null(st, a) is True:
                        return False
                    st.null[a] = False
                    return self._empty_axiom(st, a, False)
                elif a == NULL:
                    if self.is_null(st, b) is True:
                        return False
                    st.null[b] = False
                    return self._empty_axiom(st, b, False)
                else:
                    st.neqs.append((a, b))
                return True
        if k == 'beq':
            key = (c[1], c[2])
            cur = st.bools.get(key) if hasattr(st, 'bools') else None
            if cur is not None and cur != pol:
                return False
            if not hasattr(st, 'bools'):
                st.bools = {}
            st.bools[key] = pol
            return True
        if k == 'and':
            if pol:
                return self._assume(st, c[1], True) and self._assume(st, c[2], True)
            x, y = self._truth(st, c[1]), self._truth(st, c[2])
            if x is True and y is True:
                return False
            if x is True:
                return self._assume(st, c[2], False)     # the other operand is what failed
            if y is True:
                return self._assume(st, c[1], False)
            return True
        if k == 'or':
            if not pol:
                return self._assume(st, c[1], False) and self._assume(st, c[2], False)
            x, y = self._truth(st, c[1]), self._truth(st, c[2])
            if x is False and y is False:
                return False
            if x is False:
                return self._assume(st, c[2], True)
            if y is False:
                return self._assume(st, c[1], True)
            return True
        return True

    def _empty_axiom(self, st, t, isnull):
        """pre-state: segment.first0 is null exactly when segment.last0 is null"""
        pair = {('init', SEG, 'first'): ('init', SEG, 'last'), ('init', SEG, 'last'): ('init', SEG, 'first')}
        o = pair.get(t)
        if o is None:
            return True
        cur = st.null.get(o)
        if cur is not None and cur != isnull:
            return False
        st.null[o] = isnull
        return True

    def _lv_key(self, st, n, val):
        """key of an lvalue node for the environment / heap"""
        fn = self.fn
        n = fn.strip(n)
        k = n['k']
        if k == 'DeclRefExpr':
            if n.get('vid') is not None:
                return ('v', n['vid'], n['d'])
            return ('g', n['d'])
        if k == 'MemberExpr':
            base = self._term(st, n['c'][0], val) if n.get('c') else ('sym', 'this')
            return ('f', base, n['d'].split('::')[-1])
        if k == 'UnaryOperator' and n['op'] == '*':
            return ('deref', self._term(st, n['c'][0], val))
        if k == 'ArraySubscriptExpr':
            return ('idx', self._term(st, n['c'][0], val), fn.render(fn.N(n['c'][1])))
        return ('lv', fn.render(n))

    def _term(self, st, x, val):
        if isinstance(x, int):
            v = val.get(x)
            if v is None:
                return self.opaque('u')
            if isinstance(v, tuple) and v[0] == 'lvalue':
                return self._load(st, v[1])
            if isinstance(v, tuple) and v[0] in ('nonnull', 'eq', 'ne', 'not', 'and', 'or', 'bool', 'beq'):
                # a condition held in a bool local (`const bool append = !a || !b;`): the path already went through its short-circuit
                # edges, so its value is usually decided by what this path knows; otherwise the local stands for the condition
                tv = self._truth(st, v)
                if tv is not None:
                    return ('int', 1 if tv else 0)
                return v if v[0] != 'bool' else self.opaque('b')
            return v
        n = self.fn.N(x)
        if n.get('v') == 0 and ('*' in (n.get('t') or '') or n['k'] in ('CXXNullPtrLiteralExpr', 'GNUNullExpr', 'IntegerLiteral')):
            return NULL
        if n.get('v') is not None and '*' not in (n.get('t') or ''):
            return ('int', n['v'])          # a folded constant, also when spelled as a named constant
        if n.get('c') and (n['k'] in ('ExprWithCleanups', 'ParenExpr', 'MaterializeTemporaryExpr', 'CXXBindTemporaryExpr', 'ConstantExpr')
                           or (n['k'].endswith('CastExpr') and n.get('ck') in ('NoOp', 'BitCast', 'LValueToRValue'))):
            return self._term(st, n['c'][0], val)
        return self.opaque('inl')

    def _is_seg(self, t, node):
        ty = (node.get('t') or '')
        return 'graphite2::Segment' in ty and '*' not in ty.replace('Segment *', '*')

    def _load(self, st, key):
        if key[0] == 'f':
            base, f = key[1], key[2]
            if f in ('m_first', 'm_last') and (base == SEG or base == ('sym', 'this') and self.this_kind == 'seg'):
                return self.read(st, SEG, f[2:])
            if f in ('m_next', 'm_prev'):
                return self.read(st, base, f[2:])
            if f == 'segment' or f == 'seg':
                return SEG
        if key[0] == 'f' and key[2] in ('m_child', 'm_sibling', 'm_parent'):
            key = ('f', self.norm(st, key[1]), key[2])
            for k2, v2 in st.env.items():
                if k2[0] == 'f' and k2[2] == key[2] and k2 != key and self.same(st, k2[1], key[1]):
                    return v2
        if key in st.env:
            return st.env[key]
        if key[0] == 'v':
            return ('sym', key[2].split('::')[-1])
        if key[0] == 'f':
            return ('init', key[1], key[2])
        return ('sym', str(key))

    def _store(self, st, key, v, loc):
        if key[0] == 'f':
            base, f = key[1], key[2]
            if f in ('m_first', 'm_last') and (base == SEG or (base == ('sym', 'this') and self.this_kind == 'seg')):
                self.write(st, SEG, f[2:], v, loc)
                return
            if f in ('m_next', 'm_prev'):
                self.write(st, base, f[2:], v, loc)
                return
            if f in ('m_child', 'm_sibling', 'm_parent'):
                st.tree_writes = getattr(st, 'tree_writes', []) + [(self.norm(st, base), f, self.norm(st, v), loc)]
                key = ('f', self.norm(st, base), f)
        st.env[key] = v

    def _bool(self, st, x, val):
        if isinstance(x, int):
            v = val.get(x)
            if isinstance(v, tuple) and v[0] in ('nonnull', 'eq', 'ne', 'not', 'and', 'or', 'bool', 'beq'):
                return v
            if isinstance(v, tuple) and v[0] == 'lvalue':
                v = self._load(st, v[1])
                if isinstance(v, tuple) and v[0] in ('nonnull', 'eq', 'ne', 'not', 'and', 'or', 'beq'):
                    return v                # a bool local that stands for a condition
            if isinstance(v, tuple) and v[0] == 'int':
                return ('const', bool(v[1]))
            if v is not None:
                return ('nonnull', v)
        return ('bool', self.opq)

    def _truth(self, st, c):
        """what this path knows about the boolean descriptor c: True / False / None"""
        k = c[0]
        if k == 'const':
            return c[1]
        if k == 'not':
            t = self._truth(st, c[1])
            return None if t is None else not t
        if k == 'nonnull':
            if isinstance(c[1], tuple) and c[1][0] == 'int':
                return bool(c[1][1])
            n = self.is_null(st, c[1])
            return None if n is None else not n
        if k in ('eq', 'ne'):
            a, b = self.norm(st, c[1]), self.norm(st, c[2])
            r = None
            if self.same(st, a, b):
                r = True
            else:
                na, nb = self.is_null(st, a), self.is_null(st, b)
                if na is not None and nb is not None and na != nb:
                    r = False
                elif any((self.same(st, x, a) and self.same(st, y, b)) or (self.same(st, x, b) and self.same(st, y, a)) for x, y in st.neqs):
                    r = False
            return None if r is None else (r if k == 'eq' else not r)
        if k in ('and', 'or'):
            x, y = self._truth(st, c[1]), self._truth(st, c[2])
            if k == 'and':
                return False if (x is False or y is False) else True if (x and y) else None
            return True if (x is True or y is True) else False if (x is False and y is False) else None
        return None

    def _eval(self, e, st, val):
        fn = self.fn
        k, i = e['k'], e['i']
        c = e.get('c') or []
        loc = fn.loc(e)
        if k == 'DeclRefExpr':
            if e.get('v') is not None and (not e.get('lv') or e.get('cv') is not None):
                val[i] = ('int', e['v'])
            else:
                val[i] = ('lvalue', self._lv_key(st, e, val))
            return
        if k == 'CXXThisExpr':
            val[i] = SEG if self.this_kind == 'seg' else ('sym', 'this')
            return
        if k == 'MemberExpr':
            if e.get('dk') == 'Field':
                key = self._lv_key(st, e, val)
                # a reference member / value member that IS the segment
                if 'graphite2::Segment' in (e.get('t') or '') and '*' not in (e.get('t') or ''):
                    val[i] = SEG
                else:
                    val[i] = ('lvalue', key)
            else:
                val[i] = ('method', e['d'])
            return
        if k in ('CXXNullPtrLiteralExpr', 'GNUNullExpr'):
            val[i] = NULL
            return
        if k in ('IntegerLiteral', 'CXXBoolLiteralExpr', 'CharacterLiteral'):
            val[i] = NULL if e.get('v') == 0 and False else ('int', e.get('v'))
            return
        if k in ('ParenExpr', 'ExprWithCleanups', 'ConstantExpr', 'MaterializeTemporaryExpr', 'CXXBindTemporaryExpr'):
            val[i] = val.get(c[0]) if isinstance(c[0], int) else None
            return
        if k.endswith('CastExpr'):
            ck = e.get('ck')
            src = val.get(c[0]) if isinstance(c[0], int) else None
            if ck == 'LValueToRValue':
                if isinstance(src, tuple) and src[0] == 'lvalue':
                    val[i] = self._load(st, src[1])
                else:
                    val[i] = src
            elif ck == 'NullToPointer':
                val[i] = NULL
            elif ck == 'PointerToBoolean':
                val[i] = ('nonnull', self._term(st, c[0], val))
            elif ck in ('IntegralToBoolean',):
                val[i] = ('bool', i)
            elif ck in ('NoOp', 'BitCast', 'DerivedToBase', 'UncheckedDerivedToBase', 'BaseToDerived', 'ConstructorConversion', 'UserDefinedConversion'):
                val[i] = src
            else:
                val[i] = src if src is not None and isinstance(src, tuple) and src[0] in ('null', 'sym', 'fresh', 'init', 'call', 'seg') else None
                if e.get('v') == 0 and '*' in (e.get('t') or ''):
                    val[i] = NULL
                elif e.get('v') is not None and '*' not in (e.get('t') or ''):
                    val[i] = ('int', e['v'])        # integral conversion of a folded constant (e.g. a named int8 constant promoted to int)
            return
        if k == 'UnaryOperator':
            op = e['op']
            if op == '!':
                val[i] = ('not', self._bool(st, c[0], val))
            elif op == '*':
                src = val.get(c[0]) if isinstance(c[0], int) else None
                t = self._term(st, c[0], val)
                if 'graphite2::Segment' in (e.get('t') or ''):
                    val[i] = SEG
                else:
                    val[i] = ('lvalue', ('deref', t))
            elif op == '&':
                src = val.get(c[0]) if isinstance(c[0], int) else None
                if src == SEG:
                    val[i] = SEG
                elif isinstance(src, tuple) and src[0] == 'lvalue' and src[1][0] == 'deref':
                    val[i] = src[1][1]
                else:
                    val[i] = self.opaque('addr')
            elif op in ('pre++', 'post++', 'pre--', 'post--'):
                src = val.get(c[0]) if isinstance(c[0], int) else None
                if isinstance(src, tuple) and src[0] == 'lvalue':
                    old = self._load(st, src[1])
                    self._store(st, src[1], self.opaque('inc'), loc)
                    val[i] = old if op.startswith('post') else src
                else:
                    val[i] = self.opaque('inc')
            else:
                val[i] = self.opaque('un')
            return
        if k == 'BinaryOperator' or k == 'CompoundAssignOperator':
            op = e['op']
            if op == '=':
                l = val.get(c[0]) if isinstance(c[0], int) else None
                r = self._term(st, c[1], val)
                if isinstance(l, tuple) and l[0] == 'lvalue':
                    self._store(st, l[1], r, loc)
                val[i] = l
                return
            if op in ('==', '!='):
                a, b = self._term(st, c[0], val), self._term(st, c[1], val)
                ta = fn.N(c[0]).get('t') or ''
                if '*' in ta or a == NULL or b == NULL:
                    val[i] = ('eq' if op == '==' else 'ne', a, b)
                elif isinstance(a, tuple) and isinstance(b, tuple) and a[0] in ('call', 'int') and b[0] in ('call', 'int'):
                    # pure getter compared with a constant / another getter: the same test gives the same answer along a path
                    val[i] = ('beq', a, b) if op == '==' else ('not', ('beq', a, b))
                else:
                    val[i] = ('bool', i)
                return
            if op == '&&':
                val[i] = ('and', self._bool(st, c[0], val), self._bool(st, c[1], val))
                return
            if op == '||':
                val[i] = ('or', self._bool(st, c[0], val), self._bool(st, c[1], val))
                return
            if op == ',':
                val[i] = val.get(c[1]) if isinstance(c[1], int) else None
                return
            if k == 'CompoundAssignOperator':
                l = val.get(c[0]) if isinstance(c[0], int) else None
                if isinstance(l, tuple) and l[0] == 'lvalue':
                    self._store(st, l[1], self.opaque('cmp'), loc)
                val[i] = l
                return
            if op in ('<', '>', '<=', '>='):
                val[i] = ('bool', i)
                return
            val[i] = self.opaque('bin')
            return
        if k == 'ConditionalOperator':
            # value of the arm evaluated on this path
            a = val.get(c[1]) if isinstance(c[1], int) else None
            b = val.get(c[2]) if isinstance(c[2], int) else None
            val[i] = a if a is not None else b
            return
        if k == 'DeclStmt':
            for d in e['decls']:
                if d.get('dk') != 'Var':
                    continue
                key = ('v', d['vid'], d['n'])
                if d.get('init') is not None:
                    t = d.get('t') or ''
                    if t.endswith('&') and isinstance(d['init'], int) and isinstance(val.get(d['init']), tuple) and val[d['init']][0] == 'lvalue':
                        st.env[('alias', key)] = val[d['init']][1]
                        st.env[key] = self._load(st, val[d['init']][1])
                    else:
                        st.env[key] = self._term(st, d['init'], val)
                else:
                    st.env[key] = self.opaque(d['n'])
            return
        if k in ('CallExpr', 'CXXMemberCallExpr', 'CXXOperatorCallExpr'):
            return self._call(e, st, val, loc)
        if k == 'CXXNewExpr':
            if e.get('nplace') == 1 and 'graphite2::Slot' == (e.get('aty') or ''):
                tgt = self._term(st, e['place'][0], val)
                self.write(st, tgt, 'next', NULL, loc)
                self.write(st, tgt, 'prev', NULL, loc)
                st.off.add(self.norm(st, tgt))
                val[i] = tgt
            else:
                st.fresh += 1
                val[i] = ('fresh', 1000 + st.fresh)
            return
        if k == 'ReturnStmt':
            st.ret = self._term(st, c[0], val) if c else None
            return 'exit'
        if k in ('CXXConstructExpr', 'CXXTemporaryObjectExpr'):
            val[i] = self.opaque('obj')
            return
        val[i] = None
        return

    def _call(self, e, st, val, loc):
        fn = self.fn
        i = e['i']
        fq = e.get('fq') or ''
        args = e.get('args') or []
        obj = self._term(st, e['obj'], val) if e.get('obj') is not None else None
        if e.get('obj') is not None and isinstance(e['obj'], int) and val.get(e['obj']) == SEG:
            obj = SEG
        short = fq.split('::')[-1]
        if fq in ('graphite2::Slot::next', 'graphite2::Slot::prev'):
            if not args:
                val[i] = self.read(st, obj, short)
            else:
                self.write(st, obj, short, self._term(st, args[0], val), loc)
                val[i] = None
            return
        if fq in ('graphite2::Segment::first', 'graphite2::Segment::last'):
            if not args:
                val[i] = self.read(st, SEG, short)
            else:
                self.write(st, SEG, short, self._term(st, args[0], val), loc)
                val[i] = None
            return
        TREE = {'graphite2::Slot::nextSibling': 'm_sibling', 'graphite2::Slot::firstChild': 'm_child',
                'graphite2::Slot::attachedTo': 'm_parent', 'graphite2::Slot::attachTo': 'm_parent'}
        if fq in TREE and obj is not None:
            key = ('f', self.norm(st, obj), TREE[fq])
            if not args:
                val[i] = self._load(st, key)
            else:
                v = self._term(st, args[0], val)
                self._store(st, key, v, loc)
                st.tree_writes = getattr(st, 'tree_writes', []) + [(key[1], key[2], self.norm(st, v), loc)]
                val[i] = None
            return
        if fq == 'graphite2::Segment::newSlot':
            st.fresh += 1
            val[i] = ('fresh', st.fresh)
            st.calls.append(('newSlot', loc))
            return
        if fq == 'graphite2::Segment::freeSlot':
            t = self._term(st, args[0], val)
            st.off.add(self.norm(st, t))
            st.calls.append(('freeSlot', loc, t))
            val[i] = None
            return
        if fq == 'memcpy' and len(args) == 3:
            sz = fn.render(fn.N(args[2]))
            dst = self._term(st, args[0], val)
            src = self._term(st, args[1], val)
            dt = fn.N(args[0])
            # whole-slot copy?
            if fn.strip_all_casts(args[2]).get('v') is not None and 'Slot' in fn.render(fn.strip_all_casts(args[0])) or \
                    'graphite2::Slot *' in (fn.strip(args[0]).get('t') or '') or 'graphite2::Slot *' in (fn.strip_all_casts(args[0]).get('t') or ''):
                nx, pv = self.read(st, src, 'next'), self.read(st, src, 'prev')
                self.write(st, dst, 'next', nx, loc)
                self.write(st, dst, 'prev', pv, loc)
                st.calls.append(('slotcopy', loc, dst, src))
            val[i] = None
            return
        at = tuple(self._term(st, a, val) for a in args)
        st.calls.append((fq, loc))
        rt = e.get('t') or ''
        if 'graphite2::Segment &' in rt or rt == 'graphite2::Segment':
            val[i] = SEG
            return
        if rt == 'bool':
            # pure boolean getter on a slot (isDeleted, isCopied, ...): the same question has the same answer along a path
            if obj is not None and not at and e.get('fconst'):
                val[i] = ('beq', ('call', fq, (self.norm(st, obj),)), ('int', 1))
            else:
                val[i] = ('bool', i)
            return
        val[i] = ('call', fq, ((obj,) if obj is not None else ()) + at)
        return

    # ------------------------------------------------------------------ verdict
    def known_not_deleted(self, st, t):
        t = self.norm(st, t)
        for (a, b), v in getattr(st, 'bools', {}).items():
            if a[0] == 'call' and a[1] == 'graphite2::Slot::isDeleted' and b == ('int', 1) and self.same(st, a[2][0], t):
                return v is False
        return False

    def check_path(self, st, rules=('R1', 'R2', 'R3', 'R4', 'R5', 'R6'), exempt_objs=(), maybe_deleted=()):
        """returns [(rule, obj, field, value, loc, explanation)] violated on this complete path"""
        out = []
        # R7: a slot that may be a deleted (off-stream) one -- the rule cursor -- must be known not deleted before it is linked
        for obj, field, v, loc in st.order:
            for t in (obj, v):
                if t == SEG or t == NULL or not isinstance(t, tuple) or t[0] == 'fresh':
                    continue
                if any(self.same(st, t, m) for m in maybe_deleted) and self.is_null(st, t) is not True:
                    if not self.known_not_deleted(st, t):
                        out.append(('R7', obj, field, v, loc, '%s may be a deleted slot (the rule cursor after DELETE) and is linked into the stream '
                                    'without an isDeleted() test' % show(t)))
        final = {}
        for obj, field, v, loc in st.order:
            final[(obj, field)] = (v, loc)
        if 'R9' in rules and st.order:
            # R9: every slot whose links the path rewrote is still on the forward chain that starts at the post-state head
            # (nothing is dropped from the stream, and the chain has no cycle)
            touched = []
            for obj, field, v, loc in st.order:
                o = self.norm(st, obj)
                if obj != SEG and o != NULL and o not in touched and o not in st.off and not (isinstance(o, tuple) and o[0] == 'fresh'):
                    touched.append(o)
            head = self.norm(st, self.read(st, SEG, 'first'))
            # the window may start inside the list (segment.first is then not the head of what was relinked): walk back over the
            # post-state prev links to the earliest slot the path knows about
            back_seen = []
            for _ in range(64):
                if head == NULL or self.is_null(st, head) is True:
                    break
                pv = self.norm(st, self.read(st, head, 'prev'))
                if pv == NULL or self.is_null(st, pv) is True or any(self.same(st, pv, x) for x in back_seen):
                    break
                back_seen.append(head)
                head = pv
                if not any(self.same(st, pv, o) for o in touched):
                    break
            seen, chain, cur, cyc = [], [], head, False
            for _ in range(64):
                if cur == NULL or self.is_null(st, cur) is True or cur is None:
                    break
                if any(self.same(st, cur, x) for x in chain):
                    cyc = True
                    break
                chain.append(cur)
                cur = self.norm(st, self.read(st, cur, 'next'))
            if cyc:
                out.append(('R9', chain[-1], 'next', cur, st.order[-1][3], 'following next links from segment.first runs into a cycle at %s: walking the stream never ends' % show(cur)))
            else:
                lost = [o for o in touched if not any(self.same(st, o, x) for x in chain)]
                if lost:
                    out.append(('R9', lost[0], 'next', NULL, st.order[-1][3], '%s was relinked but is no longer reachable from segment.first by next links (%d slots on the chain): '
                                'the slot has dropped out of the stream' % (show(lost[0]), len(chain))))
        for (obj, field), (v, loc) in final.items():
            # the LAST write to the cell is what counts
            if st.heap.get((obj, field)) != v:
                continue
            if obj in st.off or any(self.same(st, obj, o) for o in st.off) or obj in exempt_objs:
                continue
            vnull = self.is_null(st, v)
            if obj != SEG and 'R8' in rules and obj[0] != 'fresh':
                # R8: the slot this link pointed to BEFORE (pre-state) must not be left pointing back at obj
                inv8 = 'prev' if field == 'next' else 'next'
                old = self.norm(st, ('init', obj, field))
                if old != NULL and self.is_null(st, old) is not True and not self.same(st, old, v) and old not in st.off \
                        and not any(self.same(st, old, o) for o in st.off) and not (isinstance(old, tuple) and old[0] == 'fresh'):
                    back = self.read(st, old, inv8)
                    if self.same(st, back, obj):
                        out.append(('R8', obj, field, v, loc, '%s.%s is redirected from %s to %s, but %s.%s still points back at %s: the old neighbour is left '
                                    'half-linked (it is reachable from one side only)' % (show(obj), field, show(old), show(v), show(old), inv8, show(obj))))
            if obj != SEG:
                inv = 'prev' if field == 'next' else 'next'
                if vnull is True:
                    r = 'R3' if field == 'next' else 'R4'
                    if r in rules:
                        end = 'last' if field == 'next' else 'first'
                        pe = self.read(st, SEG, end)
                        if not self.same(st, pe, obj):
                            out.append((r, obj, field, v, loc, '%s.%s = NULL but segment.%s is %s, not %s' % (show(obj), field, end, show(pe), show(obj))))
                else:
                    r = 'R1' if field == 'next' else 'R2'
                    if r in rules:
                        if v in st.off or (isinstance(v, tuple) and v[0] == 'garbage'):
                            out.append((r, obj, field, v, loc, '%s.%s points to an off-stream / uninitialised slot %s' % (show(obj), field, show(v))))
                            continue
                        back = self.read(st, v, inv)
                        if not self.same(st, back, obj):
                            if vnull is None and (self.norm(st, back) == ('init', self.norm(st, v), inv)):
                                # v may be null and was never touched: only a problem when v is non-null; the pre-state axiom
                                # gives prev0(v) == o only when v == next0(o)
                                pass
                            out.append((r, obj, field, v, loc, '%s.%s = %s but %s.%s is %s' % (show(obj), field, show(v), show(v), inv, show(back))))
            else:
                if vnull is True:
                    continue
                r = 'R5' if field == 'first' else 'R6'
                if r in rules:
                    inv = 'prev' if field == 'first' else 'next'
                    if v in st.off:
                        out.append((r, obj, field, v, loc, 'segment.%s set to the off-stream slot %s' % (field, show(v))))
                        continue
                    back = self.read(st, v, inv)
                    if not (self.is_null(st, back) is True):
                        out.append((r, obj, field, v, loc, 'segment.%s = %s but %s.%s is %s (not NULL)' % (field, show(v), show(v), inv, show(back))))
        return out
