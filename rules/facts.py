"""Fact extraction and loading.

Every run re-derives its facts from /repo's current working tree:
  * unit list  = src/files.mk  U  glob(src/*.cpp), cross-checked with src/CMakeLists.txt
  * AST/CFG facts through build/grfacts.so (one clang -fsyntax-only per unit)
  * LLVM IR facts through build/grir over llvm-link'ed -O0 bitcode (see ir.py)
Facts are cached under .cache/<sha256(sources, flags, tool binaries)>; the cache is an
optimisation only -- any edit under /repo/src or /repo/include changes the key.
"""
import glob
import hashlib
import json
import os
import pickle
import re
import subprocess
import sys
import time
from concurrent.futures import ThreadPoolExecutor

VERIF = os.path.dirname(os.path.dirname(os.path.abspath(__file__)))
REPO = os.environ.get('VERIF_REPO', '/repo')
BUILD = os.path.join(VERIF, 'build')
CACHE = os.environ.get('VERIF_CACHE_DIR') or os.path.join(VERIF, '.cache')
PLUGIN = os.path.join(BUILD, 'grfacts.so')
GRIR = os.path.join(BUILD, 'grir')


FACTS_VERSION = '2'


class AnalysisBroken(Exception):
    """exit 2: the analysis itself cannot be trusted (parse failure, vanished anchor,
    instance floor not met, unknown construct shape)."""


# ----------------------------------------------------------------------------------
# configurations

BASE_FLAGS = ['-std=gnu++11', '-fno-rtti', '-fno-exceptions', '-Iinclude', '-Isrc',
              '-Wno-everything']

CONFIGS = {
    # what ships and what the test-suite builds (RelWithDebInfo, direct VM)
    'Q0':       {'defs': ['GRAPHITE2_NTRACING', 'NDEBUG'], 'vm': 'direct'},
    'call':     {'defs': ['GRAPHITE2_NTRACING', 'NDEBUG'], 'vm': 'call'},
    'tracing':  {'defs': ['NDEBUG'], 'vm': 'direct'},
    'assert':   {'defs': ['GRAPHITE2_NTRACING'], 'vm': 'direct'},
    'nofile':   {'defs': ['GRAPHITE2_NTRACING', 'NDEBUG', 'GRAPHITE2_NFILEFACE'], 'vm': 'direct'},
    # cmake -DGRAPHITE2_TELEMETRY=ON: only the units that install an allocation category are parsed (C09 TELESCOPE)
    # tracing compiled in (what cmake builds unless GRAPHITE2_NTRACING is set): only the rule driver is parsed (C04 DETACH/garbage)
    'tracepass': {'defs': ['NDEBUG'], 'vm': 'direct', 'units': ['Pass.cpp']},
    'tracejust': {'defs': ['NDEBUG'], 'vm': 'direct', 'units': ['Justifier.cpp']},
    'traceseg': {'defs': ['NDEBUG'], 'vm': 'direct', 'units': ['Segment.cpp']},
    'tracelog': {'defs': ['NDEBUG'], 'vm': 'direct', 'units': ['gr_logging.cpp']},
    # ... and the two API units that take tags (C20 / C18 TAGNORM: a tracing-only branch must normalise too)
    'traceapi': {'defs': ['NDEBUG'], 'vm': 'direct', 'units': ['gr_face.cpp', 'gr_segment.cpp', 'Face.cpp']},
    'tele':     {'defs': ['GRAPHITE2_NTRACING', 'NDEBUG', 'GRAPHITE2_TELEMETRY'], 'vm': 'direct'},      # every unit: a guard in a shaping function is what the rule looks for
}


def unit_list(cfg):
    """Units compiled in configuration cfg.  Both VM drivers are always *parsed* (the
    AST facts of call_machine.cpp give one function per opcode handler); 'vm' decides
    which of the two is linked into the IR module."""
    src = os.path.join(REPO, 'src')
    globbed = sorted(os.path.basename(p) for p in glob.glob(os.path.join(src, '*.cpp')))
    mk = open(os.path.join(src, 'files.mk')).read()
    listed = set(re.findall(r'/src/([A-Za-z0-9_$()]+)\.cpp', mk))
    listed = {x + '.cpp' for x in listed}
    listed.discard('$($(_NS)_MACHINE)_machine.cpp')
    listed |= {'direct_machine.cpp', 'call_machine.cpp'}
    cm = open(os.path.join(src, 'CMakeLists.txt')).read()
    cml = set(re.findall(r'^\s+([A-Za-z0-9_]+\.cpp)\s*$', cm, re.M)) | set(
        re.findall(r'\b([A-Za-z0-9_]+\.cpp)\b', cm))
    cml |= {'direct_machine.cpp', 'call_machine.cpp'}
    unknown = [u for u in globbed if u not in listed and u not in cml]
    if unknown:
        raise AnalysisBroken('src/*.cpp not in files.mk nor CMakeLists.txt: %s' % unknown)
    missing = [u for u in listed if u not in globbed]
    if missing:
        raise AnalysisBroken('files.mk lists units that do not exist: %s' % missing)
    units = list(globbed)
    defs = CONFIGS[cfg]['defs']
    if 'GRAPHITE2_NTRACING' in defs:
        units = [u for u in units if u != 'json.cpp']
    if 'GRAPHITE2_NFILEFACE' in defs:
        units = [u for u in units if u != 'FileFace.cpp']
    only = CONFIGS[cfg].get('units')
    if only:
        gone = [u for u in only if u not in units]
        if gone:
            raise AnalysisBroken('configuration %s names units that do not exist: %s' % (cfg, gone))
        units = [u for u in units if u in only]
    return units


def flags_for(cfg):
    return BASE_FLAGS + ['-D' + d for d in CONFIGS[cfg]['defs']]


def source_digest():
    h = hashlib.sha256()
    paths = []
    for root in ('src', 'include'):
        for dp, dn, fn in os.walk(os.path.join(REPO, root)):
            for f in fn:
                if f.endswith(('.cpp', '.h', '.mk', '.txt')):
                    paths.append(os.path.join(dp, f))
    for p in sorted(paths):
        h.update(p.encode())
        with open(p, 'rb') as fh:
            h.update(fh.read())
    for tool in (PLUGIN, GRIR):
        if os.path.exists(tool):
            with open(tool, 'rb') as fh:
                h.update(hashlib.sha256(fh.read()).digest())
    return h.hexdigest()


def cache_dir(cfg, digest=None):
    d = digest or source_digest()
    h = hashlib.sha256((FACTS_VERSION + d + cfg + ' '.join(flags_for(cfg)) + '|' + ' '.join(CONFIGS[cfg].get('units') or ())).encode()).hexdigest()[:24]
    return os.path.join(CACHE, h)


def _run_plugin(args):
    unit, cfg, outdir = args
    out = os.path.join(outdir, unit + '.json')
    cmd = ['clang++', '-fsyntax-only'] + flags_for(cfg) + [
        '-fplugin=' + PLUGIN, '-Xclang', '-plugin', '-Xclang', 'grfacts',
        '-Xclang', '-plugin-arg-grfacts', '-Xclang', 'out=' + out,
        '-Xclang', '-plugin-arg-grfacts', '-Xclang', 'root=' + REPO,
        os.path.join('src', unit)]
    p = subprocess.run(cmd, cwd=REPO, capture_output=True, text=True)
    if p.returncode != 0 or not os.path.exists(out):
        return unit, None, (p.stderr or p.stdout)[-2000:]
    return unit, out, ''



ALPHA = os.environ.get('VERIF_ALPHA', '')
ALPHA_KEEP = set(filter(None, os.environ.get('VERIF_ALPHA_KEEP', '').split(',')))


def _normalise(merged):
    from . import localnames
    alpha_rename(merged)
    localnames.canon(merged)
    merged['_known_q'] = localnames.known_functions()
    return merged


def alpha_rename(merged):
    """metamorphic self-test (VERIF_ALPHA=<suffix>): present the facts as if every local variable and parameter of /repo had been
    renamed consistently (name -> name<suffix>).  No verdict may change: rules are about roles and resolved declarations, not about
    what a local is called.  Off in every registered command; used by `bin/check.py --alpha` and the thorough self-test."""
    if not ALPHA:
        return merged

    mod = int(os.environ.get('VERIF_ALPHA_MOD', '1'))
    pick = int(os.environ.get('VERIF_ALPHA_PICK', '0'))

    def ren(n):
        if n in ALPHA_KEEP or not n:
            return n
        if mod > 1 and int(hashlib.md5(n.encode()).hexdigest(), 16) % mod != pick:
            return n                   # only a subset of the names is renamed
        return n + ALPHA

    def walk(x):
        if isinstance(x, dict):
            if x.get('vid') is not None:
                if isinstance(x.get('d'), str):
                    parts = x['d'].split('::')
                    parts[-1] = ren(parts[-1])
                    x['d'] = '::'.join(parts)
                if isinstance(x.get('n'), str) and x.get('k') is None:
                    x['n'] = ren(x['n'])
            for v in x.values():
                if isinstance(v, (dict, list)):
                    walk(v)
        elif isinstance(x, list):
            for v in x:
                if isinstance(v, (dict, list)):
                    walk(v)
    for f in merged['functions'].values():
        if f.get('_alpha'):
            continue
        f['_alpha'] = True
        walk(f.get('params') or [])
        walk(f.get('blocks') or [])
    return merged

def extract_ast(cfg='Q0', use_cache=True, log=None, raw=False):
    """Return merged AST facts for configuration cfg (dict)."""
    if not os.path.exists(PLUGIN):
        raise AnalysisBroken('build/grfacts.so missing: run MANIFEST.setup_cmd (make -C tools)')
    cdir = cache_dir(cfg)
    pk = os.path.join(cdir, 'ast.pickle')
    if use_cache and os.path.exists(pk):
        with open(pk, 'rb') as fh:
            m = pickle.load(fh)
            return m if raw else _normalise(m)
    t0 = time.time()
    units = unit_list(cfg)
    tmp = os.path.join(cdir, 'ast.%d' % os.getpid())       # private to this process: checks may run concurrently
    os.makedirs(tmp, exist_ok=True)
    with ThreadPoolExecutor(max_workers=16) as ex:
        res = list(ex.map(_run_plugin, [(u, cfg, tmp) for u in units]))
    bad = [(u, e) for u, o, e in res if o is None]
    if bad:
        raise AnalysisBroken('units failed to parse in %s: %s' % (cfg, '; '.join(
            '%s: %s' % (u, e.strip().splitlines()[-1] if e.strip() else '?') for u, e in bad)))
    merged = {'cfg': cfg, 'units': units, 'functions': {}, 'records': {}, 'enums': {}, 'vars': [],
              'fn_by_q': {}}
    for u, o, _ in res:
        with open(o) as fh:
            doc = json.load(fh)
        for f in doc['functions']:
            key = f['m'] or f['qt']
            if f.get('internal'):
                key = key + '@' + u
            f['unit'] = u
            if key in merged['functions'] and f['file'].endswith('.cpp') and merged['functions'][key]['unit'] != u \
                    and merged['functions'][key]['file'] != f['file']:
                key = key + '@' + u          # alternative units defining the same function (the two VM drivers)
            if key in merged['functions']:
                continue
            f['key'] = key
            merged['functions'][key] = f
        for r in doc['records']:
            merged['records'].setdefault(r['q'], r)
        for e in doc['enums']:
            merged['enums'].setdefault(e['q'] + '@' + e['file'] + ':' + str(e['ln']), e)
        for v in doc['vars']:
            v['unit'] = u
            merged['vars'].append(v)
        os.remove(o)
    try:
        os.rmdir(tmp)
    except OSError:
        pass
    for k, f in merged['functions'].items():
        merged['fn_by_q'].setdefault(f['q'], []).append(k)
    merged['extract_s'] = round(time.time() - t0, 2)
    with open(pk + '.%d' % os.getpid(), 'wb') as fh:
        pickle.dump(merged, fh, protocol=pickle.HIGHEST_PROTOCOL)
    os.replace(pk + '.%d' % os.getpid(), pk)                # atomic: a concurrent reader sees the old state or the whole file
    _prune_cache()
    return merged if raw else _normalise(merged)


def _prune_cache(keep=12):
    try:
        now = time.time()
        ds = [os.path.join(CACHE, d) for d in os.listdir(CACHE)]
        ds = [d for d in ds if os.path.isdir(d)]
        ds.sort(key=lambda d: os.path.getmtime(d), reverse=True)
        for d in ds[keep:]:
            if now - os.path.getmtime(d) > 1800:      # never touch a directory another run may still be filling
                subprocess.run(['rm', '-rf', d])
    except OSError:
        pass
