"""C13 -- characters map to the glyphs the cmap assigns, by either lookup path.

Lookup values are run-time data and are NOT decided.  Decided (necessary conditions):
  SELECTORS   both cmap implementations obtain their sub-tables only through bmp_subtable / smp_subtable (one
              preference order, every candidate gated by its CheckCmapSubtable*), cache_subtable is instantiated
              only with matching (NextCodepoint, Lookup) pairs of one format
  PLANEROUTE  the set of (plane class, sub-table format) pairs that can determine an answer is the same for
              DirectCmap and CachedCmap: {(BMP, 4), (supplementary, 12)}
  FALLBACK    the pseudo-glyph map is consulted exactly when the cmap returned 0 (both users)
  CMAPBOUND   CachedCmap::operator[] indexes m_blocks only under the bounds that match its allocation
"""
from . import dom
from .facts import AnalysisBroken
from .util import callers_of, calls_in, find_decl

LEVEL = 'other'
EXPLANATION = ('Sibling cross-check of the two cmap implementations on the AST/CFG facts: shared sub-table selectors and their '
               'platform/encoding preference order, the plane routing each implementation applies (DirectCmap\'s usv > 0xFFFF '
               'split vs the start/limit arguments and store guard of CachedCmap\'s two fill passes), the pseudo-glyph fallback '
               'condition at both users, and the bounds that make the cached block table access safe.  Glyph ids are run-time '
               'values and are not decided; agreement of the routing is the necessary condition for the two paths to agree on '
               'every code point.')
FLOORS = {'SELECTORS': 12, 'PLANEROUTE': 8, 'FALLBACK': 3, 'CMAPBOUND': 4, 'NARROWREAD': 1}

BMP_ORDER = [(3, 1), (0, 3), (0, 2), (0, 1), (0, 0)]
SMP_ORDER = [(3, 10), (0, 4)]


def selectors(run, fx):
    for q, chk, order in (('bmp_subtable', 'graphite2::TtfUtil::CheckCmapSubtable4', BMP_ORDER),
                          ('smp_subtable', 'graphite2::TtfUtil::CheckCmapSubtable12', SMP_ORDER)):
        fn = fx.one(q)
        finds = sorted(calls_in(fn, 'graphite2::TtfUtil::FindCmapSubtable'), key=lambda e: (e['ln'], e['col']))
        got = []
        for e in finds:
            a = [fn.strip_all_casts(x).get('v') for x in e['args'][1:3]]
            got.append(tuple(a))
            # each Find... result is consumed by the matching Check...
            cur = e['i']
            gated = False
            for _ in range(8):
                ps = fn.parents().get(cur)
                if not ps:
                    break
                p = fn.nodes[ps[0]]
                if p.get('fq') == chk:
                    gated = True
                    break
                cur = p['i']
            inst = '%s candidate %s' % (q, tuple(a))
            if gated:
                run.held('SELECTORS', inst, fn.loc(e), 'gated by %s' % chk.split('::')[-1])
            else:
                run.violated('SELECTORS', inst, fn.loc(e), 'sub-table candidate %s is returned without passing %s' % (tuple(a), chk.split('::')[-1]))
        if got == order:
            run.held('SELECTORS', '%s preference order' % q, fn.where(), str(got), False)
        else:
            run.violated('SELECTORS', '%s preference order' % q, fn.where(), '(platform, encoding) preference order is %s, tabled %s' % (got, order))
    for q in ('bmp_subtable', 'smp_subtable'):
        users = sorted(set(f.q for f, _ in callers_of(fx, q)))
        want = ['graphite2::CachedCmap::CachedCmap', 'graphite2::DirectCmap::DirectCmap']
        if users == want:
            run.held('SELECTORS', '%s users' % q, '', 'used by both cmap implementations and nothing else', False)
        else:
            run.violated('SELECTORS', '%s users' % q, '', '%s is used by %s; both cmap implementations (and only they) must share it' % (q, users))
    others = sorted(set(f.q for f, _ in callers_of(fx, 'graphite2::TtfUtil::FindCmapSubtable')) - {'bmp_subtable', 'smp_subtable'})
    if others:
        run.violated('SELECTORS', 'FindCmapSubtable users', '', 'sub-tables are also selected in %s, bypassing the shared selectors' % others)
    else:
        run.held('SELECTORS', 'FindCmapSubtable users', '', 'only the two shared selectors', False)
    insts = fx.fns_named('cache_subtable')
    pairs = sorted(f.qt for f in insts)
    ok = len(insts) == 2 and any('CmapSubtable12NextCodepoint' in p and 'CmapSubtable12Lookup' in p for p in pairs) and \
        any('CmapSubtable4NextCodepoint' in p and 'CmapSubtable4Lookup' in p for p in pairs)
    if ok:
        run.held('SELECTORS', 'cache_subtable instantiations', insts[0].where(), 'format 12 pair and format 4 pair, never mixed')
    else:
        run.violated('SELECTORS', 'cache_subtable instantiations', insts[0].where() if insts else '', 'cache_subtable is instantiated with %s: the iteration and '
                     'lookup functions of one fill pass must belong to the same sub-table format' % pairs)


def planeroute(run, fx):
    # --- DirectCmap::operator[]
    d = fx.one('graphite2::DirectCmap::operator[]')
    conds = [e for _, e in d.elements() if e['k'] == 'ConditionalOperator']
    usv = d.f['params'][0]['n']
    routes = set()
    split = None
    if dom.edges_with(d, lambda f: f[0] == usv and dom.implies(f, (usv, '>', '65535'))):
        split = True
    if split is None:
        run.violated('PLANEROUTE', 'DirectCmap plane split', d.where(), 'DirectCmap::operator[] no longer splits on usv > 0xFFFF')
    for e in calls_in(d):
        fq = e.get('fq') or ''
        if fq.endswith('CmapSubtable12Lookup') or fq.endswith('CmapSubtable4Lookup'):
            fs = dom.facts_at(d, e['i'])
            hi = any(f[:3] == (usv, '>', '65535') for f in fs)
            lo = any(f[:3] == (usv, '<=', '65535') for f in fs)
            tbl = d.render(d.N(e['args'][0]))
            routes.add(('SMP' if hi else 'BMP' if lo else 'ANY', 12 if '12' in fq else 4, tbl.split('->')[-1]))
    want = {('SMP', 12, '_smp'), ('BMP', 4, '_bmp')}
    if routes == want:
        run.held('PLANEROUTE', 'DirectCmap routes', d.where(), str(sorted(routes)))
    else:
        run.violated('PLANEROUTE', 'DirectCmap routes', d.where(), 'DirectCmap answers from %s, expected %s' % (sorted(routes), sorted(want)))
    # --- CachedCmap: the two fill passes
    c = fx.inl(fx.one('graphite2::CachedCmap::CachedCmap'))      # wrappers around the fills that the pinned tree does not know are expanded in place
    fills = [e for e in calls_in(c) if (e.get('fq') or '') == 'cache_subtable']
    got = set()
    for e in fills:
        fmt = 12 if 'Subtable12' in (e.get('fn') or '') else 4
        start = c.strip_all_casts(e['args'][2]).get('v') if len(e['args']) >= 4 else 0
        limit = c.strip_all_casts(e['args'][-1]).get('v')
        tbl = c.render(c.N(e['args'][1]))
        fs = dom.facts_at(c, e['i'])
        # the sub-table pointer may have been handed on through a by-value parameter of an (inlined) wrapper: any spelling of it counts
        tbls = {tbl, c.render(c.deref(e['args'][1])), c.render(c.N(e['args'][1]), resolve=True)}
        a_ = c.strip_all_casts(e['args'][1])
        for _r in range(3):
            if a_['k'] == 'DeclRefExpr' and a_.get('vid') is not None:
                ds_ = [dd for _, st_ in c.elements() if st_['k'] == 'DeclStmt' for dd in st_['decls'] if dd.get('vid') == a_['vid'] and dd.get('init') is not None]
                as_ = [u for _, u in c.elements() if u['k'] == 'BinaryOperator' and u['op'] == '=' and c.strip(u['c'][0]).get('vid') == a_['vid']]
                src_ = [dd['init'] for dd in ds_] + [u['c'][1] for u in as_]
                if len(src_) != 1:
                    break
                a_ = c.strip_all_casts(src_[0])
                tbls.add(c.render(a_))
        guarded = any(f[0] in tbls and f[1] == '!=' for f in fs)
        got.add((fmt, start, limit, tbl, guarded))
        inst = 'CachedCmap fill format %d' % fmt
        # (start, limit): the fill asks for the successors of `start` and stops at the first code point >= limit.  Format 4 answers for every
        # usv <= 0xFFFF and format 12 for every usv in (0xFFFF, 0x10FFFF] in DirectCmap, U+FFFF and U+10FFFF included (defect F21: the limits were one short)
        wantrow = (12, 0xFFFF, 0x110000) if fmt == 12 else (4, 0, 0x10000)
        if (fmt, start, limit) == wantrow and guarded:
            run.held('PLANEROUTE', inst, c.loc(e), 'code points in (%#x, %#x) from %s' % (start, limit, tbl))
        else:
            run.violated('PLANEROUTE', inst, c.loc(e),
                         'the cached cmap fills code points (%s, %s) from the format %d sub-table, DirectCmap uses format %d only for %s: '
                         'a code point mapped by only one of the sub-tables resolves differently on a gr_face_cacheCmap face'
                         % (hex(start) if start is not None else start, hex(limit) if limit is not None else limit, fmt, fmt,
                            'usv > 0xFFFF' if fmt == 12 else 'usv <= 0xFFFF'))
    if len(fills) != 2:
        run.broken('PLANEROUTE', 'CachedCmap fills', 'expected 2 cache_subtable calls, found %d' % len(fills), c.where())
    # --- cache_subtable body: starts from `start`, stores only under codePoint < limit
    for f in fx.fns_named('cache_subtable'):
        tag = '12' if 'Subtable12' in f.qt else '4'
        ps = f.f['params']
        if len(ps) != 4:
            run.broken('PLANEROUTE', 'cache_subtable<%s> window' % tag, 'cache_subtable no longer has the 4 parameters (blocks, subtable, start, limit): re-confirm', f.where())
            continue
        pv = [p['vid'] for p in ps]
        vids_in = lambda n: {x.get('vid') for x in f.walk(n) if x['k'] == 'DeclRefExpr' and x.get('vid') is not None}
        # the code point variable: the local compared `< limit` by the loop condition
        cpv = None
        for b in f.blocks:
            c = f.term_cond(b)
            if c is None:
                continue
            c = f.strip_all_casts(c)
            if c['k'] == 'BinaryOperator' and c['op'] == '<':
                l, r = f.strip_all_casts(c['c'][0]), f.strip_all_casts(c['c'][1])
                if r['k'] == 'DeclRefExpr' and r.get('vid') == pv[3] and l['k'] == 'DeclRefExpr' and l.get('vid') is not None:
                    cpv, cpname = l['vid'], l['d'].split('::')[-1]
        inst = 'cache_subtable<%s> window' % tag
        if cpv is None:
            run.violated('PLANEROUTE', inst, f.where(), 'cache_subtable has no loop bounded by `<code point> < limit` (4th parameter): its stores are not confined to the window')
            continue
        dd = None
        for _, e in f.elements():
            if e['k'] == 'DeclStmt':
                for d in e['decls']:
                    if d.get('vid') == cpv:
                        dd = d
        iv = vids_in(dd['init']) if dd and dd.get('init') is not None else set()
        okstart = pv[1] in iv and pv[2] in iv
        stores = []
        for _, e in f.elements():
            if e['k'] == 'BinaryOperator' and e['op'] == '=':
                lhs = f.strip_all_casts(e['c'][0])
                if lhs['k'] == 'ArraySubscriptExpr':
                    inner = f.deref(lhs['c'][0])
                    if inner['k'] == 'ArraySubscriptExpr' and pv[0] in vids_in(inner['c'][0]):
                        stores.append(e)
        okstore = bool(stores) and all(any(x[:3] == (cpname, '<', ps[3]['n']) for x in dom.facts_at(f, s['i'])) for s in stores)
        if okstart and okstore:
            run.held('PLANEROUTE', inst, f.where(), 'first code point = Next(subtable, start); stores dominated by %s < %s' % (cpname, ps[3]['n']))
        else:
            run.violated('PLANEROUTE', inst, f.where(), 'cache_subtable does not confine its stores to (start, limit): start honoured %s, store guarded %s'
                         % (okstart, okstore))


def fallback(run, fx):
    # the functions that consult the pseudo-glyph map: the text loop and gr_face_is_char_supported, or a file-local helper of theirs
    sites = []
    seen = set()
    for callee in ('graphite2::Face::findPseudo', 'graphite2::Silf::findPseudo'):
        for fn, e in callers_of(fx, callee):
            if fn.q in ('graphite2::Face::findPseudo',) or (fn.key, callee) in seen:
                continue
            seen.add((fn.key, callee))
            sites.append((fn, callee))
    owners = set()
    for fn, _c in sites:
        if fn.q.startswith('process_utf_data') or fn.q == 'gr_face_is_char_supported':
            owners.add(fn.q.split('<')[0])
        else:
            users = sorted(set(f.q.split('<')[0] for f, _ in callers_of(fx, fn.q)))
            if users and set(users) <= {'process_utf_data', 'gr_face_is_char_supported'}:
                owners.update(users)
            else:
                run.violated('FALLBACK', 'users of the pseudo-glyph map', fn.where(), 'the pseudo-glyph map is consulted from %s (called by %s): only the text loop and '
                             'gr_face_is_char_supported (or a helper of theirs) map characters to glyphs' % (fn.q, users))
    if owners != {'process_utf_data', 'gr_face_is_char_supported'}:
        run.violated('FALLBACK', 'users of the pseudo-glyph map', '', 'the pseudo-glyph fallback is reached from %s; both the text loop and gr_face_is_char_supported must apply it' % sorted(owners))
    for fn, callee in sites:
        inst = 'fallback in %s' % fn.qt[:70]
        cs = calls_in(fn, callee)
        if len(cs) != 1:
            run.violated('FALLBACK', inst, fn.where(), 'expected exactly one %s call, found %d' % (callee, len(cs)))
            continue
        fs = dom.facts_at(fn, cs[0]['i'])
        # gid is the local holding the cmap result
        d = None
        for _, e in fn.elements():
            if e['k'] == 'DeclStmt':
                for dd in e['decls']:
                    if dd.get('init') is not None and any((y.get('fq') or '').endswith('Cmap::operator[]') for y in fn.walk(dd['init'])):
                        d = dd
        gid = d['n'] if d else 'gid'
        ok = [f for f in fs if f[0] == gid and f[1] == '==' and f[2] == '0']
        src = fn.render(d['init']) if d and d.get('init') is not None else ''
        if ok and d is not None:
            run.held('FALLBACK', inst, fn.loc(cs[0]), 'gid = cmap[usv]; findPseudo only under gid == 0')
        else:
            run.violated('FALLBACK', inst, fn.loc(cs[0]), 'the pseudo-glyph map is not consulted exactly when the cmap lookup returned 0 '
                         '(gid source `%s`, guard %s)' % (src, [f[:3] for f in fs]))


def lookupfirst(run, fx):
    """gr_face_is_char_supported answers from the font's cmap (and the pseudo-glyph map): no path returns before the cmap was asked.
    A pre-filter on the code point would make the answer differ from the glyph a segment starts with for the filtered values."""
    fn = fx.one('gr_face_is_char_supported')
    look = [e for _, e in fn.elements() if e['k'] in ('CXXOperatorCallExpr', 'CXXMemberCallExpr') and (e.get('fq') or '').endswith('Cmap::operator[]')]
    inst = 'gr_face_is_char_supported asks the cmap on every path'
    if not look:
        run.broken('FALLBACK', inst, 'no Cmap::operator[] call in gr_face_is_char_supported', fn.where())
        return
    d = fn.dominators()
    lb = {fn.block_of[e['i']] for e in look}
    rets = [e for _, e in fn.elements() if e['k'] == 'ReturnStmt']
    bad = [r for r in rets if not (d[fn.block_of[r['i']]] & lb) or
           (fn.block_of[r['i']] in lb and not any(fn.pos_of[l_['i']] < fn.pos_of[r['i']] for l_ in look if fn.block_of[l_['i']] == fn.block_of[r['i']]) and not (d[fn.block_of[r['i']]] - {fn.block_of[r['i']]}) & lb)]
    if bad:
        fs = [f[:3] for f in dom.facts_at(fn, bad[0]['i'])]
        run.violated('FALLBACK', inst, fn.loc(bad[0]), 'gr_face_is_char_supported returns %s without having looked the character up in the cmap (under %s): for those code points '
                     'the answer no longer is the glyph the font maps them to' % (fn.render(bad[0]), fs[:4]))
    else:
        run.held('FALLBACK', inst, fn.loc(look[0]), 'the cmap lookup dominates all %d returns' % len(rets))


def segsearch(run, fx, rule='PLANEROUTE'):
    """"the glyph a face maps it to is the one given by the font's cmap subtables": the lookups select the segment / group / pseudo entry
    that CONTAINS the code point.  The search parts of CmapSubtable4Lookup, CmapSubtable12Lookup and Silf::findPseudo only compare code
    points, so they are decided by order-type interpretation (rules/ordint.py) on every sorted table of up to 4 segments / 3 groups / 3
    entries against every placement of the looked-up character, without and with the range hint the cached cmap passes: when a
    segment contains the character, its own glyph data (idDelta cell / start_glyph_id / gid) is what is read and something other than
    the literal 0 is returned; when none does, 0 is returned.  The glyph arithmetic after the selection is value-level, not decided."""
    from . import ordint as O
    import itertools
    # ---------------------------------------------------------------------------------------- format 12
    f12 = fx.one('graphite2::TtfUtil::CmapSubtable12Lookup')
    T12 = 'graphite2::TtfUtil::Sfnt::CmapSubTableFormat12::'
    G12 = T12 + '(anonymous struct)::'

    def sorted_ranges(n):
        """all order types of n sorted, disjoint, non-empty-or-single ranges on an even grid (start <= end < next start)"""
        for combo in itertools.product((0, 2), repeat=n):          # width 0 (single code point) or 2
            for gaps in itertools.product((2, 4), repeat=n):
                pos, out = 0, []
                for w, g in zip(combo, gaps):
                    pos += g
                    out.append((pos, pos + w))
                    pos += w
                yield out

    def run12():
        cases = 0
        for n in range(0, 4):
            for rs in sorted_ranges(n):
                hi = (rs[-1][1] if rs else 0) + 3
                for key in range(0, hi + 1):
                    want = [k for k, (a, b) in enumerate(rs) if a <= key <= b]
                    for hint in ([0] + ([want[0]] if want and want[0] else [])):
                        tab = O.Rec()
                        groups = O.Vec()
                        for k, (a, b) in enumerate(rs):
                            g = O.Rec()
                            g[G12 + 'start_char_code'] = O.Co(a)
                            g[G12 + 'end_char_code'] = O.Co(b)
                            g[G12 + 'start_glyph_id'] = O.W(('G%d' % k,))
                            groups.items.append(g)
                        for fld in ('format', 'length', 'language'):
                            tab[T12 + fld] = O.Op()
                        tab[T12 + 'num_groups'] = n
                        tab[T12 + 'group'] = O.It(groups, 0)
                        it = O.Interp(fx)
                        it.coords_may_feed_costs = True
                        it.MAX_STEPS = 4000
                        it.read_log = []
                        gid_reads = []
                        try:
                            r = it.call(f12, None, [O.Ptr(tab), O.Co(key), hint])
                        except O.Violation as v:
                            return cases, 'groups %s, character %s: %s (%s)' % (rs, key, v.what, v.loc)
                        cases += 1
                        # which group's start_glyph_id flowed into the answer is visible from the result's shape: 0 means "unmapped"
                        found = not (isinstance(r, int) and r == 0)
                        if bool(want) != found:
                            return cases, ('groups %s (each [start,end]), character at %s%s: %s' % (
                                rs, key, (' with range hint %d' % hint) if hint else '',
                                'the group that contains it is not found (0 returned)' if want else 'a glyph is returned although no group contains it'))
                        if want:
                            picked = [idx for vec, idx in it.read_log if vec is groups]
                            if not picked or picked[-1] != want[0]:
                                return cases, 'groups %s, character at %s: the answer is taken from group %s, the character lies in group %d' % (rs, key, picked[-1:] or '-', want[0])
        return cases, None

    # ---------------------------------------------------------------------------------------- format 4
    f4 = fx.one('graphite2::TtfUtil::CmapSubtable4Lookup')
    T4 = 'graphite2::TtfUtil::Sfnt::CmapSubTableFormat4::'
    TB = 'graphite2::TtfUtil::Sfnt::CmapSubTable::'

    def run4():
        cases = 0
        for n in range(1, 5):
            for rs in sorted_ranges(n):
                hi = rs[-1][1] + 3
                for key in range(0, hi + 1):
                    want = [k for k, (a, b) in enumerate(rs) if a <= key <= b]
                    for hint in ([0] + ([want[0]] if want and want[0] else [])):
                        cells = [O.Co(b) for a, b in rs] + [0] + [O.Co(a) for a, b in rs] + [O.W(('D%d' % k,)) for k in range(n)] + [0] * n
                        flat = O.Vec(cells)
                        tab = O.Rec()
                        for fld in ('search_range', 'entry_selector', 'range_shift'):
                            tab[T4 + fld] = O.Op()
                        tab[T4 + 'seg_count_x2'] = 2 * n
                        tab[T4 + 'end_code'] = O.It(flat, 0)
                        tab[TB + 'format'] = 4
                        tab[TB + 'length'] = 16 + 8 * n + 2
                        tab[TB + 'language'] = 0
                        it = O.Interp(fx)
                        it.coords_may_feed_costs = True
                        it.MAX_STEPS = 4000
                        it.read_log = []
                        try:
                            r = it.call(f4, None, [O.Ptr(tab), O.Co(key), hint])
                        except O.Violation as v:
                            return cases, 'segments %s, character %s%s: %s (%s)' % (rs, key, (' with range hint %d' % hint) if hint else '', v.what, v.loc)
                        cases += 1
                        found = not (isinstance(r, int) and r == 0)
                        if bool(want) != found:
                            return cases, ('segments %s (each [startCode,endCode]), character at %s%s: %s' % (
                                rs, key, (' with range hint %d' % hint) if hint else '',
                                'the segment that contains it is not found (glyph 0 returned)' if want else 'a glyph is returned although no segment contains it'))
                        if want:
                            picked = [idx - (2 * n + 1) for vec, idx in it.read_log if vec is flat and 2 * n + 1 <= idx < 3 * n + 1]
                            if not picked or picked[-1] != want[0]:
                                return cases, 'segments %s, character at %s: idDelta of segment %s is used, the character lies in segment %d' % (rs, key, picked[-1:] or '-', want[0])
        return cases, None

    # ---------------------------------------------------------------------------------------- pseudo-glyph map
    fp = fx.one('graphite2::Silf::findPseudo')
    PS, PP = 'graphite2::Silf::', 'graphite2::Pseudo::'
    srec = fx.record('graphite2::Silf')

    def runp():
        cases = 0
        for n in range(0, 4):
            for perm in itertools.permutations(range(n)):
                uids = [2 + 2 * j for j in perm]
                for key in range(0, 2 * n + 4):
                    silf = O.Rec()
                    for f in srec['fields']:
                        silf[PS + f['n']] = None
                    ents = O.Vec()
                    for k, u in enumerate(uids):
                        r_ = O.Rec()
                        r_[PP + 'uid'] = O.Co(u)
                        r_[PP + 'gid'] = 100 + k
                        ents.items.append(r_)
                    silf[PS + 'm_pseudos'] = O.It(ents, 0)
                    silf[PS + 'm_numPseudo'] = n
                    it = O.Interp(fx)
                    it.MAX_STEPS = 2000
                    try:
                        r = it.call(fp, silf, [O.Co(key)])
                    except O.Violation as v:
                        return cases, 'pseudo map uids %s, character %s: %s (%s)' % (uids, key, v.what, v.loc)
                    cases += 1
                    want = [100 + k for k, u in enumerate(uids) if u == key]
                    if (want and r != want[0]) or (not want and r != 0):
                        return cases, 'pseudo map with code points %s, character %s: findPseudo answers %r, expected %s' % (uids, key, r, want[0] if want else 0)
        return cases, None

    for inst, fn, runner in (('format 12 lookup finds the group containing the character', f12, run12),
                             ('format 4 lookup finds the segment containing the character', f4, run4),
                             ('findPseudo finds the entry of the character', fp, runp)):
        try:
            cases, prob = runner()
        except AnalysisBroken as ex:
            run.broken(rule, inst, str(ex), fn.where())
            continue
        if prob:
            run.violated(rule, inst, fn.where(), prob + ' [positions are order-type representatives]')
        else:
            run.held(rule, inst, fn.where(), '%d order types of (table, character, range hint)' % cases)


def agree(run, fx, rule='PLANEROUTE'):
    """"the directly parsed and the cached (gr_face_cacheCmap) lookups agree on every code point", by bounded abstract execution
    (rules/ordint.py): for every small format 4 table (1..3 segments over the code points 0..9, plus the 0xFFFF terminator the format
    requires) and every small format 12 table (0..2 groups straddling / above U+FFFF), the two cache_subtable fills are interpreted with
    the start / limit arguments CachedCmap::CachedCmap passes them (read from its call sites), with CmapSubtable{4,12}NextCodepoint and
    CmapSubtable{4,12}Lookup inlined from their own CFGs; then CachedCmap::operator[] and DirectCmap::operator[] are interpreted for
    every code point near the mapped ranges and must give the same glyph."""
    import itertools
    from . import ordint as O
    T4 = 'graphite2::TtfUtil::Sfnt::CmapSubTableFormat4::'
    TB = 'graphite2::TtfUtil::Sfnt::CmapSubTable::'
    T12 = 'graphite2::TtfUtil::Sfnt::CmapSubTableFormat12::'
    G12 = T12 + '(anonymous struct)::'
    CC, DC = 'graphite2::CachedCmap::', 'graphite2::DirectCmap::'
    ctor = fx.inl(fx.one('graphite2::CachedCmap::CachedCmap'))
    fills = {}
    for e in calls_in(ctor):
        if (e.get('fq') or '') == 'cache_subtable' and len(e.get('args') or []) == 4:
            fmt = 12 if 'Subtable12' in (e.get('fn') or '') else 4
            st, li = ctor.strip_all_casts(e['args'][2]).get('v'), ctor.strip_all_casts(e['args'][3]).get('v')
            key = e.get('fm')
            fills[fmt] = (key, st, li)
    if set(fills) != {4, 12} or any(v[1] is None or v[2] is None for v in fills.values()):
        run.broken(rule, 'cached and direct lookups agree', 'the two cache_subtable calls of CachedCmap::CachedCmap (with constant start / limit) were not found', ctor.where())
        return
    cop = fx.one('graphite2::CachedCmap::operator[]')
    dop = fx.one('graphite2::DirectCmap::operator[]')

    def fn_of(key):
        return fx.fn(key if key in fx.raw['functions'] else '%s@CmapCache.cpp' % key)

    def mk4(segs):
        segs = list(segs)
        if not segs or segs[-1][1] != 0xFFFF:
            segs.append((0xFFFF, 0xFFFF, 1))               # (start, end, idDelta); the terminator maps 0xFFFF to glyph 0
        n = len(segs)
        flat = O.Vec([e_ for s_, e_, d_ in segs] + [0] + [s_ for s_, e_, d_ in segs] + [d_ & 0xFFFF for s_, e_, d_ in segs] + [0] * n)
        tab = O.Rec()
        for fld in ('search_range', 'entry_selector', 'range_shift'):
            tab[T4 + fld] = 0
        tab[T4 + 'seg_count_x2'] = 2 * n
        tab[T4 + 'end_code'] = O.It(flat, 0)
        tab[TB + 'format'], tab[TB + 'length'], tab[TB + 'language'] = 4, 16 + 8 * n, 0
        return tab

    def mk12(groups):
        tab = O.Rec()
        gv = O.Vec()
        for a, b, g in groups:
            r_ = O.Rec()
            r_[G12 + 'start_char_code'], r_[G12 + 'end_char_code'], r_[G12 + 'start_glyph_id'] = a, b, g
            gv.items.append(r_)
        if not groups:
            gv.items.append(O.Rec({G12 + 'start_char_code': 0x10FFFF, G12 + 'end_char_code': 0x10FFFF, G12 + 'start_glyph_id': 0}))
        tab[T12 + 'language'] = 0
        tab[T12 + 'format'], tab[TB + 'format'] = 12 << 16, 12         # `fixed format`: the 16-bit format word of the generic header is its top half
        tab[T12 + 'length'] = tab[TB + 'length'] = 16 + 12 * len(groups)
        tab[T12 + 'num_groups'] = len(groups)
        tab[T12 + 'group'] = O.It(gv, 0)
        return tab

    def segsets(maxn, lo, hi):
        pts = list(range(lo, hi + 1))
        for n in range(1, maxn + 1):
            for cut in itertools.combinations(pts, 2 * n):
                ok = all(cut[2 * k] <= cut[2 * k + 1] for k in range(n)) and all(cut[2 * k + 1] < cut[2 * k + 2] for k in range(n - 1))
                if ok:
                    yield [(cut[2 * k], cut[2 * k + 1]) for k in range(n)]
            # single code point segments too
            for single in itertools.combinations(pts, n):
                yield [(c_, c_) for c_ in single]
    zero_alloc = lambda it, f, e, obj, args: O.It(O.Vec([0] * it.rv(args[0])), 0)
    cases, prob = 0, None
    chkcases, chkprob = 0, None
    dcases, dprob = 0, None
    f4, f12 = fn_of(fills[4][0]), fn_of(fills[12][0])
    try:
        bmp_sets = [sg for sg in segsets(2, 0, 6)]
        # the format only requires that the last segment END at 0xFFFF: it may carry real mappings
        bmp_sets[7:7] = [[(2, 3), (0xFFFC, 0xFFFF)], [(0xFFFA, 0xFFFF)]]
        # segments around the surrogate block: nothing special about D800..DFFF in a cmap
        bmp_sets[14:14] = [[(0xD7FE, 0xD801), (0xE000, 0xE001)], [(0xDFFE, 0xDFFF), (0xE000, 0xE002)]]
        smp_sets = [[]] + [sg for sg in segsets(1, 0xFFFE, 0x10002)] + [[(0x10000, 0x10001), (0x10003, 0x10004)]]
        # a format 12 subtable that also lists BMP ranges (most do): the cached fill must step over ALL of them
        smp_sets.insert(2, [(0x2, 0x2), (0x4, 0x4), (0x6, 0x6), (0x10000, 0x10001)])
        smp_sets.insert(3, [(0x0, 0x1), (0x10000, 0x10000)])          # U+0000 is a code point like any other: a group may start there
        for k, bmp in enumerate(bmp_sets):
            for smp in (smp_sets if k % 7 == 0 else smp_sets[:2]):
                t4 = mk4([(a, b, (10 - a) if b != 0xFFFF else (0x10000 + 30 - a)) for a, b in bmp])         # glyph = code point + 10 - start (30 - start in a real last segment)
                t12 = mk12([(a, b, 100 + j * 20) for j, (a, b) in enumerate(smp)]) if smp else None
                blocks = O.Vec([O.Ptr(None) for _ in range(0x1100 if t12 is not None else 0x100)])
                cc = O.Rec()
                cc[CC + 'm_blocks'] = O.It(blocks, 0)
                cc[CC + 'm_isBmpOnly'] = t12 is None
                dc = O.Rec()
                for f_ in (fx.raw['records'].get('graphite2::DirectCmap') or {}).get('fields', []):
                    dc[DC + f_['n']] = O.Ptr(None) if '*' in (f_.get('t') or '') else 0
                dc[DC + '_cmap'] = O.Rec()
                dc[DC + '_bmp'] = O.Ptr(t4)
                dc[DC + '_smp'] = O.Ptr(t12) if t12 is not None else O.Ptr(None)
                desc = 'format 4 segments %s%s' % (bmp, (', format 12 groups %s' % [('%X' % a, '%X' % b) for a, b in smp]) if smp else ', no format 12 subtable')
                # every table of this set is well-formed: the gates the selectors put in front of the lookups must accept it, whatever
                # slack follows it in the cmap table (a gate that rejects one leaves the character unmapped in both implementations)
                for chkq, tab_, ln_ in (('graphite2::TtfUtil::CheckCmapSubtable4', t4, t4[TB + 'length']), ('graphite2::TtfUtil::CheckCmapSubtable12', t12, t12[T12 + 'length'] if t12 is not None else 0)):
                    if tab_ is None or chkprob:
                        continue
                    for slack in (0, 5):
                        try:
                            ok_ = O.Interp(fx, natives={}).call(fx.one(chkq), None, [O.Ptr(tab_), O.EndPtr(tab_, ln_ + slack)])
                        except O.Violation as v:
                            ok_ = '%s (%s)' % (v.what, v.loc)
                        chkcases += 1
                        if ok_ is not True and ok_ != 1:
                            chkprob = '%s, %d byte(s) of the cmap table following it: %s answers %r -- the sub-table is well-formed and must be accepted' % (desc, slack, chkq.split('::')[-1], ok_)
                            break
                nat = {'graphite2::grzeroalloc': zero_alloc}
                try:
                    # the constructor itself decides whether there is a format 12 subtable to cache and how many blocks to allocate
                    def zalloc2(it_, f_, e_, obj_, args_):
                        n_ = it_.rv(args_[0])
                        return O.It(O.Vec([O.Ptr(None) for _ in range(n_)] if '**' in (e_.get('t') or '').replace(' ', '') else [0] * n_), 0)
                    def galloc(it_, f_, e_, obj_, args_):
                        n_ = it_.rv(args_[0])
                        return O.It(O.Vec([O.Ptr(None) for _ in range(n_)] if '**' in (e_.get('t') or '').replace(' ', '') else [0xABAB] * n_), 0)          # malloc: whatever the heap held
                    natc = {'graphite2::grzeroalloc': zalloc2, 'graphite2::gralloc': galloc,
                            'graphite2::Cmap::Cmap': lambda it_, f_, e_, o_, a_: O.Rec(),
                            'graphite2::TtfUtil::Tag::Tag': lambda it_, f_, e_, o_, a_: O.Rec(),
                            'graphite2::Face::Table::Table': lambda it_, f_, e_, o_, a_: O.Rec({'#table': 'cmap'}),
                            'graphite2::Face::Table::operator const unsigned char *': lambda it_, f_, e_, o_, a_: O.It(O.Vec([0]), 0),
                            'bmp_subtable': lambda it_, f_, e_, o_, a_: O.Ptr(t4),
                            'smp_subtable': lambda it_, f_, e_, o_, a_: O.Ptr(t12) if t12 is not None else O.Ptr(None)}
                    cc = O.Rec({CC + 'm_blocks': O.Ptr(None), CC + 'm_isBmpOnly': True})
                    it = O.Interp(fx, natives=natc)
                    it.MAX_STEPS = 150000
                    it.call(fx.one('graphite2::CachedCmap::CachedCmap'), cc, [O.Rec()])
                    nat = natc
                    dctor = [f__ for f__ in fx.fns_named('graphite2::DirectCmap::DirectCmap') if not f__.f.get('implicit')]
                    if len(dctor) == 1:
                        dc = O.Rec()
                        for f_ in (fx.raw['records'].get('graphite2::DirectCmap') or {}).get('fields', []):
                            dc[DC + f_['n']] = O.Ptr(None) if '*' in (f_.get('t') or '') else 0
                        itd = O.Interp(fx, natives=natc)
                        itd.MAX_STEPS = 20000
                        itd.call(dctor[0], dc, [O.Rec()])
                    # the face asks the cmap whether it is usable (Face::readGlyphs: `!*m_cmap` fails the load): a cache built from a
                    # well-formed format 4 subtable is, whatever code points it maps -- the direct cmap of the same table is
                    usable = O.Interp(fx, natives=nat).call(fx.one('graphite2::CachedCmap::operator bool'), cc, [])
                    if not usable:
                        prob = ('%s: the cached cmap reports itself unusable (CachedCmap::operator bool is false) although its sub-tables are well-formed and the direct cmap of the same tables is '
                                'usable: with gr_face_cacheCmap the face does not load at all' % desc)
                        break
                    probe = sorted(set(range(0, 9)) | {0xD7FD, 0xD7FE, 0xD7FF, 0xD800, 0xD801, 0xD802, 0xDFFD, 0xDFFE, 0xDFFF, 0xE000, 0xE001, 0xE002, 0xE003} | {0xFFF9, 0xFFFA, 0xFFFB, 0xFFFC, 0xFFFD, 0xFFFE, 0xFFFF, 0x10000, 0x10001, 0x10002, 0x10003, 0x10004, 0x10005, 0x10FFFF})
                    for c_ in probe + probe[::-1]:
                        a_ = O.Interp(fx, natives=nat).call(cop, cc, [c_])
                        b_ = O.Interp(fx, natives=nat).call(dop, dc, [c_])
                        cases += 1
                        if a_ != b_:
                            prob = '%s: U+%04X maps to glyph %r through the cached cmap and to %r through the direct one' % (desc, c_, a_, b_)
                            break
                    if not prob and k % 7 == 0 and dcases < 24:
                        # ... and the destructor gives back every block the constructor made, each once, and the block table itself
                        dts = fx.fns_named('graphite2::CachedCmap::~CachedCmap')
                        if dts:
                            freed = []
                            natd = dict(nat)
                            natd['free'] = lambda it_, f_, e_, o_, a_, freed=freed: freed.append(it_.rv(a_[0]))
                            blk = cc[CC + 'm_blocks']
                            made = [x for x in blk.vec.items if isinstance(x, O.It)]
                            itx = O.Interp(fx, natives=natd)
                            itx.MAX_STEPS = 200000
                            itx.call(dts[0], cc, [])
                            dcases += 1
                            fv = [f_.vec for f_ in freed if isinstance(f_, O.It)]
                            lost = [k_ for k_, x in enumerate(blk.vec.items) if isinstance(x, O.It) and sum(1 for v_ in fv if v_ is x.vec) != 1]
                            if lost or sum(1 for v_ in fv if v_ is blk.vec) != 1:
                                dprob = ('%s: ~CachedCmap frees %s' % (desc, ('block(s) %s of the %d the constructor allocated %s' % (['%#x' % k_ for k_ in lost[:4]], len(made),
                                         'not exactly once (code points U+%04X00.. stay allocated after gr_face_destroy)' % lost[0])) if lost else 'the block table itself not exactly once'))
                except O.Violation as v:
                    prob = '%s: %s (%s)' % (desc, v.what, v.loc)
                if prob:
                    break
            if prob:
                break
    except AnalysisBroken as ex:
        run.broken(rule, 'cached and direct lookups agree', str(ex), ctor.where())
        return
    if dprob:
        run.violated('CMAPBOUND', 'the cached cmap\'s destructor frees every block its constructor made', ctor.where(), dprob)
    elif dcases:
        run.held('CMAPBOUND', 'the cached cmap\'s destructor frees every block its constructor made', ctor.where(), '%d constructed caches destroyed (interpreted)' % dcases)
    if chkprob:
        run.violated(rule, 'well-formed sub-tables pass their gate', fx.one('graphite2::TtfUtil::CheckCmapSubtable12').where(), chkprob)
    elif chkcases >= 20:
        run.held(rule, 'well-formed sub-tables pass their gate', fx.one('graphite2::TtfUtil::CheckCmapSubtable12').where(), '%d interpreted calls of CheckCmapSubtable4 / 12 on the tables of the agreement run' % chkcases)
    elif not prob:
        run.broken(rule, 'well-formed sub-tables pass their gate', 'only %d gate calls interpreted' % chkcases, ctor.where())
    if prob:
        run.violated(rule, 'cached and direct lookups agree', ctor.where(), prob)
    else:
        run.held(rule, 'cached and direct lookups agree', ctor.where(), '%d code point lookups over %d small format 4 tables x format 12 tables, both fills interpreted' % (cases, len(bmp_sets)))


def cmapbound(run, fx):
    op = fx.one('graphite2::CachedCmap::operator[]')
    usv = op.f['params'][0]['n']
    reads = [e for _, e in op.elements() if e['k'] == 'ArraySubscriptExpr' and op.render(op.N(e['c'][0])) == 'this->m_blocks']
    if not reads:
        raise AnalysisBroken('CachedCmap::operator[]: m_blocks[...] access not found')
    for e in reads:
        fs = dom.facts_at(op, e['i'])
        top = any(f[0] == usv and f[1] == '<=' and f[2] == str(0x10FFFF) for f in fs)
        # (m_isBmpOnly && usv > 0xFFFF) == false, rendered as a compound or as its parts
        bmp = dom.must_pass(op, op.entry, op.block_of[e['i']],
                            lambda f: f[:3] == ('this->m_isBmpOnly', '==', '0') or f[:3] == (usv, '<=', '65535'))
        inst = 'operator[] m_blocks access@%s:%s' % (e['ln'], e['col'])
        if top and bmp:
            run.held('CMAPBOUND', inst, op.loc(e), 'dominated by usv <= 0x10FFFF and !(m_isBmpOnly && usv > 0xFFFF)')
        else:
            run.violated('CMAPBOUND', inst, op.loc(e), 'm_blocks is indexed with usv >> 8 without the bounds matching its allocation '
                         '(0x100 blocks for a BMP-only font, 0x1100 otherwise): top bound %s, BMP-only bound %s -- an astral character '
                         'on a font without a format 12 sub-table reads far beyond the block table' % (top, bmp), {'facts': [f[:3] for f in fs]})
    c = fx.one('graphite2::CachedCmap::CachedCmap')
    al = [e for e in calls_in(c) if (e.get('fq') or '').startswith('graphite2::grzeroalloc')]
    txt = c.render(al[0]['args'][0], resolve=True) if al else ''
    if 'm_isBmpOnly' in txt and '256' in txt and '4352' in txt:
        run.held('CMAPBOUND', 'block table size', c.loc(al[0]), txt)
    else:
        run.violated('CMAPBOUND', 'block table size', c.where(), 'm_blocks is allocated with `%s`, expected m_isBmpOnly ? 0x100 : 0x1100' % txt)
    st = [e for _, e in c.elements() if e['k'] == 'BinaryOperator' and e['op'] == '=' and c.render(c.N(e['c'][0])) == 'this->m_isBmpOnly']
    okdef = False
    if st:
        # `!x`, `x == NULL`, `x == 0`, ... : one atomic fact  <the smp_subtable() result> == 0  (the local that holds the result is the
        # one the format 12 fill is guarded by)
        ats = dom.atoms(c, c.N(st[0]['c'][1]), True)
        if len([a for a in ats if not (isinstance(a[0], dict) and a[0].get('k') == 'Inlined')]) == 1:
            a, p = ats[0]
            t = dom.norm(c, a, p)
            x = c.strip_all_casts(a['c'][0]) if c.strip(a)['k'] == 'BinaryOperator' else c.strip_all_casts(a)
            n_ = c.strip(a)
            if n_['k'] == 'BinaryOperator':
                x = c.strip_all_casts(n_['c'][0]) if c.strip_all_casts(n_['c'][1]).get('v') == 0 or c.is_null(n_['c'][1]) else c.strip_all_casts(n_['c'][1])
            else:
                x = c.strip_all_casts(n_)
            if t[1] == '==' and t[2] == '0' and x['k'] == 'DeclRefExpr' and x.get('vid') is not None:
                for _, e in c.elements():
                    if e['k'] == 'DeclStmt':
                        for d in e['decls']:
                            if d.get('vid') == x['vid'] and d.get('init') is not None and \
                                    any((y.get('fq') or '') == 'smp_subtable' for y in c.walk(d['init'])):
                                okdef = True
    if okdef:
        run.held('CMAPBOUND', 'm_isBmpOnly definition', c.loc(st[0]), 'm_isBmpOnly = !<smp_subtable() result>', False)
    else:
        run.violated('CMAPBOUND', 'm_isBmpOnly definition', c.where(), 'm_isBmpOnly is no longer exactly `!smp_subtable(cmap)`')
    d = fx.one('graphite2::CachedCmap::~CachedCmap')
    ts = [d.render(e, resolve=True) for _, e in d.elements() if e['k'] == 'ConditionalOperator']
    t = next((x for x in ts if 'm_isBmpOnly' in x and '256' in x and '4352' in x), None)
    if t:
        run.held('CMAPBOUND', 'destructor block count', d.where(), t, False)
    else:
        run.violated('CMAPBOUND', 'destructor block count', d.where(), 'destructor walks `%s` blocks, allocation uses m_isBmpOnly ? 0x100 : 0x1100' % ts)

def narrowread(run, fx, rule='NARROWREAD'):
    """no big-endian table field is truncated on the way into the variable or field that keeps it: be::read<T> / be::peek<T> of width
    W is only ever stored into an integer of at least W bits (expected count of narrowing stores: zero; the census of all such
    stores is the instance count).  A narrowed field compares equal to code points / ids it does not denote."""
    from .cfg import int_type
    total, bad = 0, []
    for fn in fx.all_fns():
        if not fn.file.startswith('src/') or fn.f.get('implicit'):
            continue
        for _, e in fn.elements():
            pairs = []
            if e['k'] == 'BinaryOperator' and e['op'] == '=':
                pairs.append((fn.N(e['c'][0]).get('t'), e['c'][1]))
            elif e['k'] == 'DeclStmt':
                for d in e.get('decls', []):
                    if d.get('init') is not None and d.get('dk') == 'Var':
                        pairs.append((d.get('t'), d['init']))
            for t, rhs in pairs:
                r = fn.strip_all_casts(rhs)
                if r['k'] == 'CallExpr' and (r.get('fq') or '').split('<')[0].endswith(('be::read', 'be::peek', 'be::swap')):
                    total += 1
                    wt, wr = int_type((t or '').replace('const ', '')), int_type(r.get('t'))
                    if wt and wr and wt[0] < wr[0]:
                        bad.append((fn, e, t, r.get('t')))
    # the same value forwarded through a local and then IMPLICITLY narrowed where it is handed on (call argument, return, operand):
    # `uint32 id = be::read<uint32>(p); f(id)` with f(uint16).  Explicit casts are the author's statement and are not counted.
    fwd = 0
    for fn in fx.all_fns():
        if not fn.file.startswith('src/') or fn.f.get('implicit'):
            continue
        wide = {}
        for _, e in fn.elements():
            if e['k'] == 'DeclStmt':
                for d in e.get('decls', []):
                    if d.get('init') is not None and d.get('dk') == 'Var':
                        r = fn.strip_all_casts(d['init'])
                        if r['k'] == 'CallExpr' and (r.get('fq') or '').split('<')[0].endswith(('be::read', 'be::peek', 'be::swap')):
                            wr = int_type(r.get('t'))
                            wt = int_type((d.get('t') or '').replace('const ', ''))
                            if wr and wt and wt[0] >= wr[0]:
                                wide[d['vid']] = (wr[0], d['n'], r.get('t'))
        if not wide:
            continue
        # locals that are re-assigned later do not stand for the table field any more
        for _, e in fn.elements():
            if e['k'] in ('BinaryOperator', 'CompoundAssignOperator') and e['op'].endswith('=') and e['op'] not in ('==', '!=', '<=', '>='):
                l = fn.strip(e['c'][0])
                if l['k'] == 'DeclRefExpr' and l.get('vid') in wide:
                    wide.pop(l['vid'])
            elif e['k'] == 'UnaryOperator' and e['op'] in ('pre++', 'pre--', 'post++', 'post--'):
                l = fn.strip(e['c'][0])
                if l['k'] == 'DeclRefExpr' and l.get('vid') in wide:
                    wide.pop(l['vid'])
        for _, e in fn.elements():
            if e['k'] == 'ImplicitCastExpr' and e.get('ck') == 'IntegralCast':
                src = fn.N(e['c'][0])
                if src['k'] == 'ImplicitCastExpr' and src.get('ck') == 'LValueToRValue':
                    src = fn.N(src['c'][0])
                if src['k'] == 'DeclRefExpr' and src.get('vid') in wide:
                    fwd += 1
                    wt = int_type(e.get('t'))
                    if wt and wt[0] < wide[src['vid']][0]:
                        bad.append((fn, e, e.get('t'), '%s (local %s)' % (wide[src['vid']][2], wide[src['vid']][1])))
    total += fwd
    # the opposite accident: a narrow SIGNED holder (int16 local, element of an int16 scratch array) implicitly widened to an unsigned type --
    # values with the top bit set arrive sign-extended (a Feat default 0x8000 becomes 0xFFFF8000 and fails the range check of
    # applyValToFeature).  Expected count zero, one tabled exception.
    SIGNEXT_OK = {('CmapSubtable4Lookup', 'idDelta'): 'format 4 delta arithmetic is modulo 65536: the sum is truncated to 16 bits again, the extension cancels'}
    sx = 0
    for fn in fx.all_fns():
        if not fn.file.startswith('src/') or fn.f.get('implicit'):
            continue
        for _, e in fn.elements():
            if e['k'] == 'ImplicitCastExpr' and e.get('ck') == 'IntegralCast':
                src = fn.N(e['c'][0])
                st, dt = int_type((src.get('t') or '').replace('const ', '')), int_type((e.get('t') or '').replace('const ', ''))
                if st and dt and st[1] and not dt[1] and dt[0] > st[0] and st[0] < 32 and src.get('v') is None:
                    sx += 1
                    if (fn.q.split('::')[-1], fn.render(fn.strip_all_casts(src))) not in SIGNEXT_OK:
                        bad.append((fn, e, '%s (sign-extended from %s `%s`)' % (e.get('t'), src.get('t'), fn.render(fn.strip_all_casts(src))[:40]), src.get('t')))
    if total < 60:
        run.broken(rule, 'census', 'only %d stores of be::read / be::peek results found (98 confirmed)' % total)
        return
    if bad:
        fn, e, t, rt = bad[0]
        if 'sign-extended' in (t or ''):
            run.violated(rule, 'table fields stored at full width', fn.loc(e), '%s widens a narrow signed value implicitly into `%s`: a table value with its top bit set arrives sign-extended '
                         '(0x8000 becomes 0xFFFF8000) -- range checks reject it or it selects something else' % (fn.q, t), {'all': ['%s %s<-%s' % (f.loc(x), a, b) for f, x, a, b in bad[:8]]})
            return
        run.violated(rule, 'table fields stored at full width', fn.loc(e), '%s keeps a %s table field in a `%s`: the upper bits are dropped at load, so the value later '
                     'compares equal to (or misses) numbers it does not denote -- e.g. a pseudo-glyph code point above U+FFFF is never found and its '
                     'low 16 bits match a different character' % (fn.q, rt, t), {'all': ['%s %s<-%s' % (f.loc(x), a, b) for f, x, a, b in bad[:8]]})
    else:
        run.held(rule, 'table fields stored at full width', '', '%d stores of be::read / be::peek results, none into a narrower integer; %d implicit sign-extending widening(s), all tabled' % (total, sx))


def pseudosib_exec(run, fx):
    """FALLBACK, agreement of the two users: the text loop asks Face::findPseudo(c), gr_face_is_char_supported asks
    Face::chooseSilf(script)->findPseudo(c); a character is supported exactly when it gets a glyph.  Both are interpreted (rules/ordint.py;
    Silf::findPseudo answers from a per-subtable map the harness supplies) on faces of 0..3 Silf subtables whose pseudo maps differ, for
    every script value of a small grid: the two answers are the same for every code point."""
    from . import ordint as O
    ff, cs = fx.one('graphite2::Face::findPseudo'), fx.one('graphite2::Face::chooseSilf')
    PF = 'graphite2::Face::'
    frec = fx.record('graphite2::Face')
    inst = 'the text loop and gr_face_is_char_supported ask the same sub-table for pseudo-glyphs (interpreted)'
    cases = 0
    try:
        for nsilf in range(0, 4):
            maps = [{0x100 + k: 40 + k, 0x200: 50 + k} if k else {0x200: 50} for k in range(nsilf)]          # sub-table k > 0 declares a pseudo-glyph of its own
            silfs = O.Vec([O.Rec({'#silf': k}) for k in range(nsilf)])
            face = O.Rec()
            for f in frec['fields']:
                face[PF + f['n']] = O.Ptr(None) if f.get('ptr') else 0
            face[PF + 'm_numSilf'] = nsilf
            face[PF + 'm_silfs'] = O.It(silfs, 0) if nsilf else O.Ptr(None)
            nat = {'graphite2::Silf::findPseudo': lambda I, f, e, obj, a, maps=maps: maps[obj['#silf']].get(I.rv(a[0]), 0)}
            for script in (0, 0x6C61746E, 0x20202020):
                for uid in (0x41, 0x100, 0x101, 0x102, 0x200):
                    cases += 1
                    a = O.Interp(fx, natives=nat).call(ff, face, [uid])
                    sp = O.Interp(fx, natives=nat).call(cs, face, [script])
                    if isinstance(sp, O.It):
                        srec = O.Interp(fx, natives=nat).deref_it(sp, cs, {'ln': 0}).load()
                    elif isinstance(sp, O.Ptr):
                        srec = sp.rec
                    else:
                        raise AnalysisBroken('Face::chooseSilf returns a %s' % type(sp).__name__)
                    b = maps[srec['#silf']].get(uid, 0) if srec is not None else 0
                    if a != b:
                        run.violated('FALLBACK', inst, ff.where(), 'face with %d Silf sub-tables, script %#x, U+%04X: the text loop (Face::findPseudo) maps it to glyph %s, gr_face_is_char_supported '
                                     '(chooseSilf(script)->findPseudo) to glyph %s -- a character shaped with a glyph is reported unsupported, or the reverse' % (nsilf, script, uid, a, b))
                        return
    except (AnalysisBroken, O.Violation) as ex:
        run.broken('FALLBACK', inst, str(getattr(ex, 'what', ex)), ff.where())
        return
    run.held('FALLBACK', inst, ff.where(), '%d abstract executions' % cases)


def nextinrange(run, fx):
    """the cmap iterators that fill the cached cmap (CmapSubtable4/12NextCodepoint) answer `the successor of c in the same
    range` only when the range really contains it: `return c + 1` is dominated by a test `end > c` (strict).  With `>=` the
    iterator reports end+1 under this range's key, the cached table stores glyph 0 for the first code point of an abutting
    range, and the cached and direct lookups disagree."""
    from . import linear
    n = 0
    for q in ('graphite2::TtfUtil::CmapSubtable4NextCodepoint', 'graphite2::TtfUtil::CmapSubtable12NextCodepoint'):
        fn = fx.one(q)
        for _, e in fn.elements():
            if e['k'] != 'ReturnStmt' or not e.get('c'):
                continue
            terms, c0 = linear.lin(fn, e['c'][0], through_unsigned=True)
            if c0 != 1 or len(terms) != 1 or list(terms.values()) != [1]:
                continue
            x = list(terms)[0]
            n += 1
            inst = '%s: return %s + 1 @%s' % (q.split('::')[-1], x, e['ln'])
            strict, weak = [], []
            for cond, pol in dom.edge_guards(fn, fn.block_of[e['i']]):
                for a, p in dom.atoms(fn, cond, pol):
                    for t, c in linear.lower_bounds(fn, a, p):
                        if t.get(x) == -1 and len(t) == 2 and sorted(t.values()) == [-1, 1]:
                            (strict if c <= -1 else weak).append(fn.render(fn.strip(a)))
            if strict:
                run.held('CMAPBOUND', inst, fn.loc(e), 'dominated by `%s`: the successor is still inside the range whose key is reported' % strict[0])
            else:
                run.violated('CMAPBOUND', inst, fn.loc(e), '%s returns %s + 1 as the next code point of the current range without a dominating strict test that the range '
                             'end exceeds %s (found: %s): it reports end+1 under this range\'s key, so the cached cmap (filled through this iterator) maps the first '
                             'code point of an abutting range to glyph 0 while the direct lookup finds it' % (q, x, x, weak[:1] or 'none'))
    if n < 2:
        run.broken('CMAPBOUND', 'cmap iterators', 'expected a `return c + 1` in each of the two NextCodepoint iterators, found %d' % n, '')


def run(run):
    fx = run.facts('Q0')
    nextinrange(run, fx)
    selectors(run, fx)
    planeroute(run, fx)
    fallback(run, fx)
    lookupfirst(run, fx)
    segsearch(run, fx)
    pseudostore(run, fx)
    pseudosib_exec(run, fx)
    from . import validators as validators_
    validators_.check(run, fx, 'SELECTORS')          # the cmap gates and the pseudo-glyph map are checked at load (shared with C01)
    inst_ = 'format 4 lookup computes the glyph the table gives (interpreted on concrete small tables)'
    f4_ = fx.one('graphite2::TtfUtil::CmapSubtable4Lookup')
    try:
        cases_, bad_ = glyph4(run, fx)
        if bad_:
            run.violated('PLANEROUTE', inst_, f4_.where(), bad_)
        else:
            run.held('PLANEROUTE', inst_, f4_.where(), '%d concrete executions' % cases_)
    except AnalysisBroken as ex:
        run.broken('PLANEROUTE', inst_, str(ex), f4_.where())
    agree(run, fx)
    cmapbound(run, fx)
    narrowread(run, fx)


def pseudostore(run, fx):
    """FALLBACK: "falling back to the Silf pseudo-glyph map" -- the map in memory is the map in the font: the only stores into
    Pseudo::uid / Pseudo::gid are the two table reads of Silf::readGraphite; nothing rewrites an entry afterwards (a "hardening" that
    zeroes entries it dislikes changes what an unmapped character falls back to)."""
    from .util import field_writes
    fw = field_writes(fx)
    n, bad = 0, None
    for F_ in ('graphite2::Pseudo::uid', 'graphite2::Pseudo::gid'):
        for fn, e, kind in fw.get(F_, []):
            n += 1
            rhs = fn.strip_all_casts(fn.N(e['c'][1])) if e['k'] == 'BinaryOperator' and e['op'] == '=' else None
            ok = rhs is not None and rhs['k'] == 'CallExpr' and (rhs.get('fq') or '').split('<')[0] in ('be::read', 'be::peek') and fn.q == 'graphite2::Silf::readGraphite'
            if not ok and bad is None:
                bad = (fn, e, F_)
    inst = 'the pseudo-glyph map holds what the table says'
    if n < 2:
        run.broken('FALLBACK', inst, 'the two stores of Silf::readGraphite into Pseudo::uid / gid were not found')
    elif bad:
        fn, e, F_ = bad
        run.violated('FALLBACK', inst, fn.loc(e), '%s stores into %s other than the value read from the Silf table (`%s`): the character that pseudo-glyph stands for no longer falls back '
                     'to the glyph the font names' % (fn.q, F_.split('::')[-1], fn.render(e)[:80]))
    else:
        run.held('FALLBACK', inst, '', '%d stores, all `= be::read<..>(p)` in Silf::readGraphite' % n)


def glyph4(run, fx, rule='PLANEROUTE'):
    """the glyph arithmetic of TtfUtil::CmapSubtable4Lookup after the segment is selected, by bounded concrete execution (rules/ordint.py):
    format 4 tables of one or two segments (plus the 0xFFFF terminator), every combination of idDelta in {0, 5, -5, 0x8000} and
    idRangeOffset in {0, into a glyph array right behind the offsets, a glyph array 0x8000 or more bytes away}, are laid out as the 16-bit
    cells the format prescribes and the function is interpreted for every code point in and around the segments.  The answer is the
    OpenType one: (c + idDelta) mod 65536 without a glyph array; with one, the cell at &idRangeOffset[i] + idRangeOffset/2 + (c - start),
    plus idDelta mod 65536 unless the cell is 0; nothing outside the table is read."""
    from . import ordint as O
    import itertools
    f4 = fx.one('graphite2::TtfUtil::CmapSubtable4Lookup')
    T4 = 'graphite2::TtfUtil::Sfnt::CmapSubTableFormat4::'
    TB = 'graphite2::TtfUtil::Sfnt::CmapSubTable::'
    cases = 0
    layouts = [[(10, 13)], [(10, 12), (20, 21)]]
    deltas = (0, 5, 0xFFFB, 0x8000)
    for segs in layouts:
        n = len(segs) + 1
        for ds in itertools.product(deltas, repeat=len(segs)):
            for modes in itertools.product(('none', 'near', 'far'), repeat=len(segs)):
                if modes.count('far') > 1:
                    continue
                ends = [b for a, b in segs] + [0xFFFF]
                starts = [a for a, b in segs] + [0xFFFF]
                dl = list(ds) + [1]
                hdr = 7
                ro_base = hdr + n + 1 + n + n          # index of idRangeOffset[0]
                garr_base = ro_base + n
                ro, garr, want = [0] * n, [], {}
                for k, (a, b) in enumerate(segs):
                    if modes[k] == 'none':
                        for c in range(a, b + 1):
                            want[c] = (c + ds[k]) & 0xFFFF
                        continue
                    if modes[k] == 'far':
                        garr += [0] * (0x4000 - len(garr))       # the array starts 0x8000 bytes behind its offset cell
                    pos = garr_base + len(garr)
                    ro[k] = 2 * (pos - (ro_base + k))
                    vals = [7 + 3 * j if (j % 3) != 2 else 0 for j in range(b - a + 1)]
                    garr += vals
                    for j, c in enumerate(range(a, b + 1)):
                        want[c] = ((vals[j] + ds[k]) & 0xFFFF) if vals[j] else 0
                if any(r_ > 0xFFFF for r_ in ro):
                    continue
                cells = [4, 0, 0, 2 * n, 0, 0, 0] + ends + [0] + starts + dl + ro + garr
                cells[1] = 2 * len(cells)
                flat = O.Vec(cells)
                tab = O.Rec({TB + 'format': 4, TB + 'length': cells[1], TB + 'language': 0, T4 + 'seg_count_x2': 2 * n, T4 + 'search_range': 0, T4 + 'entry_selector': 0,
                             T4 + 'range_shift': 0, T4 + 'end_code': O.It(flat, hdr), '#flat': flat})
                for c in sorted(set(range(8, 24)) | {0, 0xFFFF}):
                    it = O.Interp(fx)
                    it.MAX_STEPS = 3000
                    desc = 'segments %s with idDelta %s and glyph arrays %s, character %d' % (segs, [hex(d) for d in ds], list(modes), c)
                    cases += 1
                    try:
                        r = it.call(f4, None, [O.Ptr(tab), c, 0])
                    except O.Violation as v:
                        return cases, '%s: %s (%s)' % (desc, v.what, v.loc)
                    w = want.get(c, 0) if c != 0xFFFF else 0
                    if c == 0xFFFF:
                        continue            # the terminator segment maps U+FFFF to (0xFFFF + 1) mod 65536 = 0 in every conforming font
                    if not isinstance(r, int) or (r & 0xFFFF) != w:
                        return cases, '%s: the lookup answers %r, the table says glyph %d' % (desc, r, w)
    return cases, None
