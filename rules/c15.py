"""C15 -- positions are design-unit results scaled linearly by the font size.

Numeric equality with the scaled design-unit run is a run-time fact and NOT decided.  Decided:
  FONTFLOW   every call site of Segment::positionSlots / Slot::finalise passes either a literal null font or the caller's
             own `font` parameter; the only functions that receive a non-null font from outside are Segment::finalise
             (from gr_make_seg) and Segment::justify; passes, the VM and the colliders never see a Font
  SCALEUSE   the readers of Font::scale() are exactly the tabled final-positioning / query functions
  UNITS      dimension analysis (design units vs pixels) of Slot::finalise, Segment::justify, gr_slot_advance_X/Y and
             Face::default_glyph_advance on every font != NULL path: no sum / difference / comparison / store mixes a
             design-unit value with a pixel value, nothing is scaled twice or divided by the scale in the wrong direction
"""
from . import dom
from .facts import AnalysisBroken
from .units import UnitCheck, PX, DU
from .util import callers_of, calls_in

LEVEL = 'other'
EXPLANATION = ('Argument-provenance rule on the font parameter (which call sites can hand a Font to positioning code), who-may-call on '
               'Font::scale(), and a flow-sensitive two-point dimension analysis (design units / pixels, scale converts) of the float '
               'arithmetic in the five functions that apply the scale, over every path on which a font is present.  A du/px mix is '
               'exactly what makes positions stop scaling linearly with the font size; the numeric equality itself is not decided.')
FLOORS = {'FONTFLOW': 30, 'SCALEUSE': 2, 'UNITS': 5}

SCALE_READERS = {'graphite2::Slot::finalise', 'graphite2::Segment::justify', 'gr_slot_advance_X', 'gr_slot_advance_Y', 'graphite2::Face::default_glyph_advance'}


def fontflow(run, fx):
    n = 0
    for q, argi in (('graphite2::Segment::positionSlots', 0), ('graphite2::Slot::finalise', 1)):
        for fn, e in callers_of(fx, q):
            a = fn.strip_all_casts(e['args'][argi])
            n += 1
            inst = '%s call in %s@%s' % (q.split('::')[-1], fn.q.split('::')[-1], e['ln'])
            isnull = a.get('v') == 0 or a['k'] in ('CXXNullPtrLiteralExpr', 'GNUNullExpr')
            isparam = a['k'] == 'DeclRefExpr' and a.get('pi') is not None and 'graphite2::Font' in (a.get('t') or '')
            if isnull:
                run.held('FONTFLOW', inst, fn.loc(e), 'literal null font (design units)', False)
            elif isparam and fn.q in ('graphite2::Segment::finalise', 'graphite2::Segment::justify', 'graphite2::Segment::positionSlots', 'graphite2::Slot::finalise'):
                run.held('FONTFLOW', inst, fn.loc(e), 'forwards its own font parameter (final positioning chain)')
            else:
                run.violated('FONTFLOW', inst, fn.loc(e), '%s hands `%s` as the font to %s: only the final-positioning chain (Segment::finalise / justify -> positionSlots -> '
                             'Slot::finalise) may carry a font; mid-pipeline positions would depend on the font size' % (fn.q, fn.render(a), q.split('::')[-1]))
    # who calls Segment::finalise / justify with a font
    for fn, e in callers_of(fx, 'graphite2::Segment::finalise'):
        inst = 'Segment::finalise call in %s' % fn.q.split('::')[-1]
        if fn.q.endswith('makeAndInitialize'):
            run.held('FONTFLOW', inst, fn.loc(e), 'the single final positioning of gr_make_seg', False)
        else:
            run.violated('FONTFLOW', inst, fn.loc(e), 'Segment::finalise is called from %s' % fn.q)
    # no function of the shaping pipeline takes a Font
    offenders = []
    for fn in fx.all_fns():
        if fn.q.split('::')[1:2] and fn.f.get('cls', '') in ('graphite2::Pass', 'graphite2::Silf', 'graphite2::ShiftCollider', 'graphite2::KernCollider', 'graphite2::vm::Machine',
                                                             'graphite2::vm::Machine::Code', 'graphite2::Zones', 'graphite2::SlotCollision'):
            if any('graphite2::Font' in p['t'] for p in fn.f['params']):
                offenders.append(fn.q)
    if offenders:
        run.violated('FONTFLOW', 'pipeline classes are font-free', '', '%s take a Font parameter: passes, the VM and the colliders must work in design units only' % offenders)
    else:
        run.held('FONTFLOW', 'pipeline classes are font-free', '', 'no method of Pass/Silf/Machine/Code/colliders/Zones has a Font parameter', False)
    if n < 8:
        run.broken('FONTFLOW', '*', 'only %d positioning call sites found' % n)


def sameterms(run, fx):
    """UNITS: with and without a font, Slot::finalise builds the slot's advance and position from the SAME design-unit quantities of
    the slot (advance, justification space, shift, attachment offsets); the font only scales them.  So no float / Position member of
    Slot is read in Slot::finalise exclusively under `font != 0` (or exclusively under `font == 0`): a term that exists on one side
    only makes the two results differ by more than the scale."""
    fn = fx.one('graphite2::Slot::finalise')
    rec = fx.record('graphite2::Slot')
    dus = {'graphite2::Slot::' + f['n'] for f in rec['fields'] if (f.get('t') or '').replace('const ', '') in ('float', 'graphite2::Position')}
    fp = [p_['n'] for p_ in fn.f['params'] if 'Font' in (p_.get('t') or '')]
    if not fp or not dus:
        run.broken('UNITS', 'same design-unit terms with and without a font', 'Slot::finalise font parameter / float members not recognised', fn.where())
        return
    fname = fp[0]
    side = {}

    def note(dest, rhs, at):
        fs = dom.facts_at(fn, at)
        w = 'font' if any(f[0] == fname and f[1] == '!=' and f[2] == '0' for f in fs) else 'nofont' if any(f[0] == fname and f[1] == '==' and f[2] == '0' for f in fs) else 'both'
        for x in fn.walk(rhs):
            if x['k'] == 'MemberExpr' and x.get('d') in dus and fn.render(fn.N(x['c'][0])) == 'this':
                side.setdefault((dest, x['d']), set()).add(w)
    # per result variable: which of the slot's design-unit members flow into it, and on which side of `if (font)`
    for _, e in fn.elements():
        if e['k'] == 'DeclStmt':
            for x in e.get('decls', []):
                if x.get('init') is not None:
                    note(x.get('n'), x['init'], e['i'])
        elif e['k'] in ('BinaryOperator', 'CompoundAssignOperator') and e.get('op', '').endswith('=') and e['op'] not in ('==', '!=', '<=', '>='):
            t_ = fn.strip_all_casts(fn.N(e['c'][0]))
            if t_['k'] == 'DeclRefExpr':
                note(fn.render(t_), e['c'][1], e['i'])
        elif e['k'] == 'CXXOperatorCallExpr' and (e.get('fq') or '').split('::')[-1] in ('operator=', 'operator+=', 'operator*=') and len(e.get('args') or []) == 2:
            t_ = fn.strip_all_casts(fn.N(e['args'][0]))
            if t_['k'] == 'DeclRefExpr':
                note(fn.render(t_), e['args'][1], e['i'])
    bad = [(m[1], s_, m[0]) for m, s_ in side.items() if s_ == {'font'} or s_ == {'nofont'}]
    inst = 'same design-unit terms with and without a font'
    if len(side) < 3:
        run.broken('UNITS', inst, 'only %d (result, member) flows found in Slot::finalise' % len(side), fn.where())
    elif bad:
        m, s_, dest_ = bad[0]
        run.violated('UNITS', inst, fn.where(), 'Slot::finalise lets %s flow into `%s` only when %s: that term is part of the result on one side only, so positions with a font are '
                     'no longer the design-unit positions times P/upem' % (m.split('::')[-1], dest_, 'a font is given' if s_ == {'font'} else 'no font is given'))
    else:
        run.held('UNITS', inst, fn.where(), '%d (result variable, member) flows, none on one side of `if (font)` only' % len(side))


def lastposition(run):
    """Segment::justify positions the line with the caller's font as its LAST positioning step, in the plain build and in the build with
    tracing compiled in (which positions once more with a null font to dump design-unit slots): no positionSlots call with a null font
    is reachable after the call that carries the font parameter."""
    from .util import reaches_avoiding
    for cfg in ('Q0', 'tracejust'):
        fx = run.facts(cfg)
        fn = fx.one('graphite2::Segment::justify')
        fp = [p_['vid'] for p_ in fn.f['params'] if 'Font' in (p_.get('t') or '')]
        calls = calls_in(fn, 'graphite2::Segment::positionSlots')
        withfont = [e for e in calls if fn.strip_all_casts(fn.N(e['args'][0])).get('vid') in fp]
        nullfont = [e for e in calls if e not in withfont]
        inst = '[%s] justify positions with the font last' % cfg
        if len(withfont) != 1:
            run.broken('FONTFLOW', inst, 'expected one positionSlots(font, ..) call in Segment::justify, found %d' % len(withfont), fn.where())
            continue
        late = [e for e in nullfont if reaches_avoiding(fn, withfont[0], e, avoid=())]
        if late:
            run.violated('FONTFLOW', inst, fn.loc(late[0]), 'after positionSlots(font, ..) at line %s, Segment::justify positions the line again with a null font at line %s: the origins the caller '
                         'reads are design units while the width returned was scaled' % (withfont[0]['ln'], late[0]['ln']))
        else:
            run.held('FONTFLOW', inst, fn.loc(withfont[0]), '%d null-font call(s), none after it' % len(nullfont))


def fontface(run, fx):
    """the face a segment is shaped with is the caller's face argument; the font contributes a scale and hinted advances, never a face:
    Font::face() is called only by the default advance callback (which needs the glyph metrics of the font's own face)."""
    users = sorted({fn.q for fn, e in callers_of(fx, 'graphite2::Font::face')})
    allowed = {'graphite2::Face::default_glyph_advance'}
    if not users:
        run.held('FONTFLOW', 'who asks a font for its face', '', 'nobody', False)
    elif set(users) <= allowed:
        run.held('FONTFLOW', 'who asks a font for its face', '', str(users))
    else:
        run.violated('FONTFLOW', 'who asks a font for its face', '', 'Font::face() is called from %s: a face taken from the gr_font makes glyph ids, attachments and associations depend on '
                     'the font passed (only %s may ask, for the default advance)' % (sorted(set(users) - allowed), sorted(allowed)))


def scaleuse(run, fx):
    users = set(fn.q for fn, e in callers_of(fx, 'graphite2::Font::scale'))
    if users <= SCALE_READERS and users:
        run.held('SCALEUSE', 'readers of Font::scale()', '', sorted(users).__repr__())
    else:
        run.violated('SCALEUSE', 'readers of Font::scale()', '', 'Font::scale() is read by %s; the scale may be applied only in %s' % (sorted(users - SCALE_READERS), sorted(SCALE_READERS)))


def ppmflow(run, fx):
    """"multiplied by P/upem" for EVERY P the API accepts (a float): the pixels-per-em value travels from each gr_make_font* entry to the
    m_scale initialiser as a floating-point value -- no parameter on the way has an integer type and no floating->integral conversion is
    applied to it (12.5 ppm must not become 12, 0.75 ppm must not become 0)."""
    from .cfg import int_type
    ctors = [f for f in fx.fns_named('graphite2::Font::Font') if not f.f.get('implicit') and len(f.f.get('params') or []) >= 2]
    inst = 'ppm reaches m_scale as a float'
    if len(ctors) != 1:
        run.broken('SCALEUSE', inst, 'Font::Font(ppm, face, ..) not found')
        return
    ct = ctors[0]
    init = [e for _, e in ct.elements() if e['k'] == 'Init' and e.get('field') == 'graphite2::Font::m_scale']
    if not init or init[0].get('init') is None:
        run.broken('SCALEUSE', inst, 'the initialiser of Font::m_scale was not found', ct.where())
        return
    pvs = {p_['vid']: k for k, p_ in enumerate(ct.f['params'])}
    used = sorted({pvs[x['vid']] for x in ct.walk(init[0]['init']) if x['k'] == 'DeclRefExpr' and x.get('vid') in pvs and 'Face' not in (ct.f['params'][pvs[x['vid']]].get('t') or '')})
    if len(used) != 1:
        run.broken('SCALEUSE', inst, 'cannot tell which constructor parameter is the size (candidates %s)' % used, ct.where())
        return
    probs = []
    chain = [(ct, used[0])]
    seen = set()
    while chain:
        fn, j = chain.pop()
        if (fn.key, j) in seen:
            continue
        seen.add((fn.key, j))
        p_ = fn.f['params'][j]
        t = (p_.get('t') or '').replace('const ', '').strip()
        if t not in ('float', 'double'):
            probs.append((fn.where(), '%s takes the size as `%s %s`' % (fn.q, p_.get('t'), p_['n'])))
            continue
        for _, e in fn.elements():
            if e['k'].endswith('CastExpr') and e.get('ck') in ('FloatingToIntegral', 'FloatingToBoolean'):
                src = fn.strip_all_casts(e['c'][0])
                if src['k'] == 'DeclRefExpr' and src.get('vid') == p_['vid']:
                    probs.append((fn.loc(e), '%s converts the size `%s` to an integer' % (fn.q, p_['n'])))
        for _, e in fn.elements():
            tgt = None
            if e['k'] in ('BinaryOperator', 'CompoundAssignOperator') and e.get('op', '').endswith('=') and e['op'] not in ('==', '!=', '<=', '>='):
                tgt = e['c'][0]
            elif e['k'] == 'UnaryOperator' and e.get('op') in ('pre++', 'pre--', 'post++', 'post--', '&'):
                tgt = e['c'][0]
            if tgt is not None:
                t_ = fn.strip_all_casts(fn.N(tgt))
                if t_['k'] == 'DeclRefExpr' and t_.get('vid') == p_['vid']:
                    probs.append((fn.loc(e), '%s changes the size it was given (`%s`) before passing it on' % (fn.q, fn.render(e)[:60])))
        for cf, ce in callers_of(fx, fn.q):
            args = ce.get('args') if ce.get('args') is not None else ce.get('c') or []
            if j >= len(args) or args[j] is None:
                continue
            a0 = cf.strip_all_casts(args[j])
            cpv0 = {q_['vid'] for q_ in cf.f.get('params') or []}
            if a0['k'] != 'DeclRefExpr' and a0.get('v') is None and a0.get('fv') is None and any(x['k'] == 'DeclRefExpr' and x.get('vid') in cpv0 and (x.get('t') or '') in ('float', 'double') for x in cf.walk(args[j])):
                probs.append((cf.loc(ce), '%s passes `%s`, not the size it was given, to %s' % (cf.q, cf.render(a0)[:60], fn.q)))
            for x in cf.walk(args[j]):
                if x['k'].endswith('CastExpr') and x.get('ck') in ('FloatingToIntegral', 'FloatingToBoolean'):
                    probs.append((cf.loc(ce), '%s converts the size to an integer where it calls %s' % (cf.q, fn.q)))
            a = cf.strip_all_casts(args[j])
            cpv = {q_['vid']: k for k, q_ in enumerate(cf.f.get('params') or [])}
            if a['k'] == 'DeclRefExpr' and a.get('vid') in cpv:
                chain.append((cf, cpv[a['vid']]))
    if probs:
        run.violated('SCALEUSE', inst, probs[0][0], '%s: the scale factor is not computed from the pixels-per-em value the caller passed (truncated, clamped or replaced on the way), so '
                     'positions are no longer the design-unit values times P/upem for that P' % probs[0][1])
    else:
        run.held('SCALEUSE', inst, ct.where(), '%d function(s) on the way from the API to m_scale, all take and pass the size as a floating-point value' % len(seen))


def units(run, fx):
    targets = [
        ('graphite2::Slot::finalise', {'base': PX, 'bbox': PX, 'clusterMin': PX}, 'font'),
        ('graphite2::Segment::justify', {'width': PX}, 'font'),
        ('gr_slot_advance_X', {}, 'font', PX),
        ('gr_slot_advance_Y', {}, 'font', PX),
        ('graphite2::Face::default_glyph_advance', {}, '<none>'),
    ]
    for tgt in targets:
        q, pu, fp = tgt[:3]
        fn = fx.one(q)
        uc = UnitCheck(fn, pu, fp, ret_unit=tgt[3] if len(tgt) > 3 else None)
        probs = uc.run()
        inst = 'units in %s' % q.split('::')[-1]
        if uc.npaths == 0 or uc.nops == 0:
            run.broken('UNITS', inst, 'no arithmetic analysed (%d paths, %d operations)' % (uc.npaths, uc.nops), fn.where())
        elif probs:
            loc, text, expr = sorted(probs.values())[0]
            run.violated('UNITS', inst, loc, 'with a font present, %s: `%s` -- positions no longer equal the design-unit result times ppm/upem'
                         % (text, expr), {'all': [p[:2] for p in sorted(probs.values())][:6]})
        else:
            run.held('UNITS', inst, fn.where(), '%d font != NULL paths, %d unit-relevant operations, no design-unit/pixel mix' % (uc.npaths, uc.nops))


def widthunits(run, fx):
    """UNITS in Segment::justify: the target width arrives in the font's units (pixels) and everything it is compared with is in design
    units, so it is divided by the scale ONCE, before anything else reads it: the conversion dominates every other read of the
    parameter (with gr_justEndInline a conversion tucked into the trailing-space block never runs)."""
    fn = fx.one('graphite2::Segment::justify')
    ps = [p_ for p_ in fn.f['params'] if p_['n'] == 'width' or ((p_.get('t') or '') == 'float')]
    inst = 'justify converts the target width to design units before it is used'
    if len(ps) != 1:
        run.broken('UNITS', inst, 'the float width parameter of Segment::justify was not found', fn.where())
        return
    vid = ps[0]['vid']
    conv = []
    for _, e in fn.elements():
        if e['k'] in ('BinaryOperator', 'CompoundAssignOperator') and e.get('op') in ('=', '/=') and fn.strip(e['c'][0]).get('vid') == vid:
            r = fn.strip_all_casts(fn.N(e['c'][1]))
            if e['op'] == '/=' or (r['k'] == 'BinaryOperator' and r['op'] == '/' and fn.strip_all_casts(fn.N(r['c'][0])).get('vid') == vid):
                conv.append(e)
    if len(conv) != 1:
        run.violated('UNITS', inst, fn.where(), 'Segment::justify has %d conversions `width = width / scale`, expected exactly one' % len(conv))
        return
    ce = conv[0]
    doms_ = fn.dominators()
    cb = fn.block_of[ce['i']]
    inner = {x['i'] for x in fn.walk(ce['i']) if isinstance(x, dict) and 'i' in x}
    bad = None
    n = 0
    par = fn.parents()

    def unit_free(e):
        # the sign of the width and handing it back unchanged do not depend on its unit
        cur = e['i']
        for _ in range(4):
            ups = par.get(cur) or []
            if not ups:
                return False
            p_ = fn.nodes[ups[0]]
            if p_['k'] == 'ReturnStmt':
                return True
            if p_['k'] == 'BinaryOperator' and p_.get('op') in ('<', '>', '<=', '>=', '==', '!='):
                return any(fn.strip_all_casts(fn.N(c_)).get('v') in (0, 0.0) or fn.strip_all_casts(fn.N(c_)).get('fv') == 0.0 for c_ in p_['c'])
            if not (p_['k'].endswith('CastExpr') or p_['k'] == 'ParenExpr'):
                return False
            cur = p_['i']
        return False
    for _, e in fn.elements():
        if e['k'] == 'DeclRefExpr' and e.get('vid') == vid and e['i'] not in inner and not unit_free(e):
            n += 1
            b = fn.block_of[e['i']]
            if b == cb:
                if fn.pos_of[e['i']] < fn.pos_of[ce['i']]:
                    bad = e
            elif cb not in doms_[b]:
                bad = e
    if bad is not None:
        run.violated('UNITS', inst, fn.loc(bad), 'Segment::justify reads `width` at %s on a path that has not passed `%s`: the pixel width is compared with design-unit lengths -- with a font '
                     'the line is stretched or shrunk to a width that is off by the scale factor' % (fn.loc(bad), fn.render(ce)))
    elif n < 1:
        run.broken('UNITS', inst, 'no unit-dependent read of width found', fn.where())
    else:
        run.held('UNITS', inst, fn.loc(ce), '`%s` dominates the other %d reads of width' % (fn.render(ce), n))


def posapi(run, fx):
    """FONTFLOW: positions in the caller's units exist from the ONE final positioning of gr_make_seg (and of gr_seg_justify) on; the
    passes position in design units while they run.  So no API query re-positions: no `gr_*` entry other than gr_seg_justify reaches
    Segment::positionSlots or Slot::finalise by a direct call (a query that "calculates the position attributes first" overwrites every
    origin of a font-scaled segment with design-unit values)."""
    n, bad = 0, None
    for q in ('graphite2::Segment::positionSlots', 'graphite2::Slot::finalise', 'graphite2::Segment::finalise'):
        for fn, e in callers_of(fx, q):
            n += 1
            if fn.q.startswith('gr_') and fn.q not in ('gr_seg_justify',) and not fn.q.startswith('gr_make_seg'):
                bad = bad or (fn, e, q)
    inst = 'no API query positions the segment again'
    if n < 10:
        run.broken('FONTFLOW', inst, 'only %d callers of the positioning functions found' % n)
    elif bad:
        fn, e, q = bad
        run.violated('FONTFLOW', inst, fn.loc(e), '%s calls %s: a query made after gr_make_seg positions the whole segment once more -- with the font it passes (none: design units), so every '
                     'gr_slot_origin_X/Y read afterwards is no longer the design-unit position times ppm/upem' % (fn.q, q.split('graphite2::')[-1]))
    else:
        run.held('FONTFLOW', inst, '', '%d callers, none of them an API query' % n)


def nopixeldecision(run, fx):
    """UNITS in Segment::justify: everything justify decides -- how much space there is to distribute, which level takes it -- it decides
    on design-unit quantities (pixel inputs are DIVIDED by the scale on entry), so that the run with a font distributes exactly what the
    run without one does.  No quantity multiplied by the scale flows into a branch condition of justify (a "fits to within half a
    pixel" shortcut distributes with one font size and not with another)."""
    fn = fx.one('graphite2::Segment::justify')
    scales = {d['vid'] for _, e in fn.elements() if e['k'] == 'DeclStmt' for d in e.get('decls', []) if d.get('init') is not None
              and any((x.get('fq') or '').endswith('Font::scale') for x in fn.walk(d['init']))}
    inst = 'justify decides on design-unit quantities only'
    if not scales:
        run.broken('UNITS', inst, 'the local that holds font->scale() was not found in Segment::justify', fn.where())
        return

    def pixel(x, seen=()):
        """does expression x contain a product with the scale (directly or through a local initialised / assigned with one)?"""
        for y in fn.walk(x):
            if y['k'] in ('BinaryOperator', 'CompoundAssignOperator') and y.get('op') in ('*', '*='):
                if any(z['k'] == 'DeclRefExpr' and z.get('vid') in scales for c_ in y['c'] for z in fn.walk(c_)):
                    return True
            if y['k'] == 'DeclRefExpr' and y.get('vid') in tainted and y.get('vid') not in seen:
                return True
        return False
    tainted = set()
    for _r in range(3):
        for _, e in fn.elements():
            if e['k'] == 'DeclStmt':
                for d in e.get('decls', []):
                    if d.get('init') is not None and pixel(d['init']):
                        tainted.add(d['vid'])
            elif e['k'] in ('BinaryOperator', 'CompoundAssignOperator') and e.get('op', '').endswith('=') and e['op'] not in ('==', '!=', '<=', '>='):
                l = fn.strip(e['c'][0])
                if l['k'] == 'DeclRefExpr' and l.get('vid') is not None and (pixel(e['c'][1]) or (e['op'] == '*=' and pixel(e))):
                    tainted.add(l['vid'])
    n, bad = 0, None
    for b in fn.blocks:
        c = fn.term_cond(b)
        if c is None or len(fn.blocks[b]['succ']) != 2:
            continue
        n += 1
        if pixel(c):
            nd_ = fn.N(c) if isinstance(c, int) else c
            if bad is None or (nd_.get('ln') or 10 ** 9) < ((fn.N(bad) if isinstance(bad, int) else bad).get('ln') or 10 ** 9):
                bad = c
    if bad is not None:
        node = fn.N(bad) if isinstance(bad, int) else bad
        run.violated('UNITS', inst, fn.loc(node) if 'ln' in node else fn.where(), 'Segment::justify branches on `%s`, a quantity multiplied by the font scale (pixels): whether and how the line is justified then '
                     'depends on the font size, and the positions with a font are no longer the design-unit positions times ppm/upem' % fn.render(node)[:200])
    elif n < 10:
        run.broken('UNITS', inst, 'only %d branch conditions seen in Segment::justify' % n, fn.where())
    else:
        run.held('UNITS', inst, fn.where(), '%d branch conditions, none on a scaled quantity' % n)


def run(run):
    fx = run.facts('Q0')
    fontflow(run, fx)
    posapi(run, fx)
    lastposition(run)
    fontface(run, fx)
    scaleuse(run, fx)
    ppmflow(run, fx)
    units(run, fx)
    sameterms(run, fx)
    widthunits(run, fx)
    nopixeldecision(run, fx)
    from . import posexec
    posexec.finalise_exec(run, fx, rules=('UNITS',), deep=getattr(run, 'tier', 'quick') != 'quick')      # Slot::finalise with symbolic floats: font run = scale x design-unit run
    from .util import share as _share
    if not getattr(run, '_sharing', False):
        run._sharing = True
        try:
            _share(run, 'c09', ['UNHINTED'], 'UNITS')        # which fonts count as unhinted (shared with C09)
        finally:
            run._sharing = False
    fontuse(run, fx)
    from . import c09
    for f in [f for f in fx.fns_named('graphite2::Font::Font') if not f.f.get('implicit')]:
        for _, e in f.elements():
            if e['k'] == 'Init' and e.get('field') == 'graphite2::Font::m_hinted' and e.get('init') is not None:
                c09.hinted_tests_handle(run, f, e, 'UNITS')       # 'unhinted font' is decided by this flag


def fontuse(run, fx):
    """the only things done with a Font pointer are: hand it on as a Font, call its members, and branch on whether it is null.  Its
    null-ness never becomes data (a bool argument, a stored flag): a segment made with font = NULL would then be shaped, reversed or
    positioned differently from one made with a font, beyond the scale (gr_make_seg's `finalise(font, true)` reverses right-to-left
    text whether or not a font was given)."""
    n = 0
    for fn in fx.all_fns():
        if not fn.file.startswith('src/') or fn.f.get('implicit'):
            continue
        pidx = [k for k, p in enumerate(fn.f['params']) if 'Font *' in p['t'] or 'gr_font *' in p['t'] or 'Font*' in p['t']]
        if not pidx:
            continue
        par = fn.parents()
        conds = set()
        for b in fn.f.get('blocks', []):
            t = b.get('term') or {}
            if t.get('cond') is not None:
                conds.add(t['cond'])
        work = [e for _, e in fn.elements() if e['k'] == 'DeclRefExpr' and e.get('pi') in pidx]
        seen_v = set()
        while work:
            e = work.pop(0)
            n += 1
            cur = e['i']
            verdict = None
            hops = 0
            while verdict is None and hops < 20:
                hops += 1
                if cur in conds:
                    verdict = 'branch'
                    break
                ps = par.get(cur, [])
                if not ps:
                    verdict = 'unused value' if cur != e['i'] else 'discarded'
                    break
                p = fn.N(ps[0])
                k = p['k']
                if k in ('ImplicitCastExpr', 'ParenExpr', 'CStyleCastExpr', 'CXXStaticCastExpr', 'CXXConstCastExpr', 'CXXReinterpretCastExpr', 'ExprWithCleanups'):
                    cur = p['i']
                    continue
                if k == 'UnaryOperator' and p.get('op') == '!':
                    cur = p['i']
                    continue
                if k == 'UnaryOperator' and p.get('op') == '*':
                    verdict = 'member call'          # (*font).scale(): the object is used, its null-ness is not
                    break
                if k == 'BinaryOperator' and p.get('op') in ('&&', '||', '==', '!='):
                    cur = p['i']
                    continue
                if k == 'ConditionalOperator' and p['c'][0] == cur:
                    verdict = 'branch'
                    break
                if k in ('CallExpr', 'CXXMemberCallExpr', 'CXXOperatorCallExpr', 'CXXConstructExpr', 'CXXTemporaryObjectExpr'):
                    if p.get('obj') == cur or (k == 'CXXMemberCallExpr' and p.get('c') and cur in fn._direct_refs(fn.N(p['c'][0]))):
                        verdict = 'member call'
                        break
                    args = p.get('args') or []
                    if cur in args:
                        a = fn.N(cur)
                        at = a.get('t') or ''
                        verdict = 'forwarded' if ('Font' in at or 'gr_font' in at or 'void' in at) and '*' in at else 'DATA: argument of type %s to %s' % (at, (p.get('fq') or '?'))
                        break
                    verdict = 'member call'
                    break
                if k == 'MemberExpr':
                    verdict = 'member call'
                    break
                if k in ('ReturnStmt',):
                    at = fn.N(cur).get('t') or ''
                    verdict = 'forwarded' if '*' in at else 'DATA: returned as %s' % at
                    break
                if k == 'DeclStmt':
                    # a local that holds the font or its null-ness: its uses are classified in turn
                    vids = [d.get('vid') for d in p.get('decls', []) if d.get('init') == cur]
                    if vids and vids[0] is not None:
                        if vids[0] not in seen_v:
                            seen_v.add(vids[0])
                            work.extend(x for _, x in fn.elements() if x['k'] == 'DeclRefExpr' and x.get('vid') == vids[0])
                        verdict = 'kept in a local (uses classified separately)'
                        break
                if k == 'DeclStmt' or (k == 'BinaryOperator' and p.get('op') == '=') or k == 'Init':
                    at = fn.N(cur).get('t') or ''
                    verdict = 'forwarded' if '*' in at else 'DATA: stored as %s' % at
                    break
                if k == 'CXXDeleteExpr':
                    verdict = 'destroyed'
                    break
                verdict = 'DATA: operand of %s' % k
            inst = 'use of %s in %s @%s:%s' % (fn.render(e), fn.q.split('graphite2::')[-1], e.get('ln'), e.get('col'))
            if verdict and verdict.startswith('DATA'):
                run.violated('FONTFLOW', inst, fn.loc(e), 'whether the font is null becomes a value (%s): the result of shaping / positioning now differs between font = NULL and a real font by more '
                             'than the scale (only a branch that selects scaled vs design-unit arithmetic may test the font)' % verdict[6:])
            else:
                run.held('FONTFLOW', inst, fn.loc(e), verdict or 'unclassified', False)
    if n < 20:
        run.broken('FONTFLOW', 'font uses', 'only %d uses of Font parameters found' % n)
