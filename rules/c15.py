"""C15 -- positions are design-unit results scaled linearly by the font size.

Numeric equality with the scaled design-unit run is a run-time fact and NOT decided.  Decided:
  FONTFLOW   every call site of Segment::positionSlots / Slot::finalise passes either a literal null font or the caller's
             own `font` parameter; the only functions that receive a non-null font from outside are Segment::finalise
             (from gr_make_seg) and Segment::justify; passes, the VM and the colliders never see a Font
  SCALEUSE   the readers of Font::scale() are exactly the tabled final-positioning / query functions
  UNITS      dimension analysis (design units vs pixels) of Slot::finalise, Segment::justify, gr_slot_advance_X/Y and
             Face::default_glyph_advance on every font != NULL path: no sum / difference / comparison / store mixes a
             design-unit value with a pixel value, nothing is scaled twice or divided by the scale in the wrong direction
"""
from . import dom
from .facts import AnalysisBroken
from .units import UnitCheck, PX, DU
from .util import callers_of, calls_in

LEVEL = 'other'
EXPLANATION = ('Argument-provenance rule on the font parameter (which call sites can hand a Font to positioning code), who-may-call on '
               'Font::scale(), and a flow-sensitive two-point dimension analysis (design units / pixels, scale converts) of the float '
               'arithmetic in the five functions that apply the scale, over every path on which a font is present.  A du/px mix is '
               'exactly what makes positions stop scaling linearly with the font size; the numeric equality itself is not decided.')
FLOORS = {'FONTFLOW': 8, 'SCALEUSE': 1, 'UNITS': 5}

SCALE_READERS = {'graphite2::Slot::finalise', 'graphite2::Segment::justify', 'gr_slot_advance_X', 'gr_slot_advance_Y', 'graphite2::Face::default_glyph_advance'}


def fontflow(run, fx):
    n = 0
    for q, argi in (('graphite2::Segment::positionSlots', 0), ('graphite2::Slot::finalise', 1)):
        for fn, e in callers_of(fx, q):
            a = fn.strip_all_casts(e['args'][argi])
            n += 1
            inst = '%s call in %s@%s' % (q.split('::')[-1], fn.q.split('::')[-1], e['ln'])
            isnull = a.get('v') == 0 or a['k'] in ('CXXNullPtrLiteralExpr', 'GNUNullExpr')
            isparam = a['k'] == 'DeclRefExpr' and a.get('pi') is not None and 'graphite2::Font' in (a.get('t') or '')
            if isnull:
                run.held('FONTFLOW', inst, fn.loc(e), 'literal null font (design units)', False)
            elif isparam and fn.q in ('graphite2::Segment::finalise', 'graphite2::Segment::justify', 'graphite2::Segment::positionSlots', 'graphite2::Slot::finalise'):
                run.held('FONTFLOW', inst, fn.loc(e), 'forwards its own font parameter (final positioning chain)')
            else:
                run.violated('FONTFLOW', inst, fn.loc(e), '%s hands `%s` as the font to %s: only the final-positioning chain (Segment::finalise / justify -> positionSlots -> '
                             'Slot::finalise) may carry a font; mid-pipeline positions would depend on the font size' % (fn.q, fn.render(a), q.split('::')[-1]))
    # who calls Segment::finalise / justify with a font
    for fn, e in callers_of(fx, 'graphite2::Segment::finalise'):
        inst = 'Segment::finalise call in %s' % fn.q.split('::')[-1]
        if fn.q.endswith('makeAndInitialize'):
            run.held('FONTFLOW', inst, fn.loc(e), 'the single final positioning of gr_make_seg', False)
        else:
            run.violated('FONTFLOW', inst, fn.loc(e), 'Segment::finalise is called from %s' % fn.q)
    # no function of the shaping pipeline takes a Font
    offenders = []
    for fn in fx.all_fns():
        if fn.q.split('::')[1:2] and fn.f.get('cls', '') in ('graphite2::Pass', 'graphite2::Silf', 'graphite2::ShiftCollider', 'graphite2::KernCollider', 'graphite2::vm::Machine',
                                                             'graphite2::vm::Machine::Code', 'graphite2::Zones', 'graphite2::SlotCollision'):
            if any('graphite2::Font' in p['t'] for p in fn.f['params']):
                offenders.append(fn.q)
    if offenders:
        run.violated('FONTFLOW', 'pipeline classes are font-free', '', '%s take a Font parameter: passes, the VM and the colliders must work in design units only' % offenders)
    else:
        run.held('FONTFLOW', 'pipeline classes are font-free', '', 'no method of Pass/Silf/Machine/Code/colliders/Zones has a Font parameter', False)
    if n < 8:
        run.broken('FONTFLOW', '*', 'only %d positioning call sites found' % n)


def scaleuse(run, fx):
    users = set(fn.q for fn, e in callers_of(fx, 'graphite2::Font::scale'))
    if users <= SCALE_READERS and users:
        run.held('SCALEUSE', 'readers of Font::scale()', '', sorted(users).__repr__())
    else:
        run.violated('SCALEUSE', 'readers of Font::scale()', '', 'Font::scale() is read by %s; the scale may be applied only in %s' % (sorted(users - SCALE_READERS), sorted(SCALE_READERS)))


def units(run, fx):
    targets = [
        ('graphite2::Slot::finalise', {'base': PX, 'bbox': PX, 'clusterMin': PX}, 'font'),
        ('graphite2::Segment::justify', {'width': PX}, 'font'),
        ('gr_slot_advance_X', {}, 'font', PX),
        ('gr_slot_advance_Y', {}, 'font', PX),
        ('graphite2::Face::default_glyph_advance', {}, '<none>'),
    ]
    for tgt in targets:
        q, pu, fp = tgt[:3]
        fn = fx.one(q)
        uc = UnitCheck(fn, pu, fp, ret_unit=tgt[3] if len(tgt) > 3 else None)
        probs = uc.run()
        inst = 'units in %s' % q.split('::')[-1]
        if uc.npaths == 0 or uc.nops == 0:
            run.broken('UNITS', inst, 'no arithmetic analysed (%d paths, %d operations)' % (uc.npaths, uc.nops), fn.where())
        elif probs:
            loc, text, expr = sorted(probs.values())[0]
            run.violated('UNITS', inst, loc, 'with a font present, %s: `%s` -- positions no longer equal the design-unit result times ppm/upem'
                         % (text, expr), {'all': [p[:2] for p in sorted(probs.values())][:6]})
        else:
            run.held('UNITS', inst, fn.where(), '%d font != NULL paths, %d unit-relevant operations, no design-unit/pixel mix' % (uc.npaths, uc.nops))


def run(run):
    fx = run.facts('Q0')
    fontflow(run, fx)
    scaleuse(run, fx)
    units(run, fx)
