"""OPERANDCHECK (C01.2, decoder <-> handler): per `case OPC:` of decoder::fetch_opcode the validation
calls made before the opcode is emitted (valid_upto(limit, operand), test_ref(operand), test_context(),
test_attr(), failure(...) under a condition).  tables/opcode_checks.json freezes what was confirmed on
the pinned tree; each tabled validation must still be performed for its opcode.  The rows that are
load-bearing for memory safety at run time (the handler passes the operand to an unchecked sink) carry
their reason."""
import json
import os
import sys

if __name__ == '__main__':
    sys.path.insert(0, os.path.dirname(os.path.dirname(os.path.abspath(__file__))))
    __package__ = 'rules'

from . import dom
from .facts import AnalysisBroken, VERIF
from .util import CALL_KINDS

TABLE = os.path.join(VERIF, 'tables', 'opcode_checks.json')
VALIDATORS = ('valid_upto', 'test_ref', 'test_context', 'test_attr')     # conditional failure(...) calls are VALIDATOR rows of fetch_opcode

LOAD_BEARING = {
    'valid_upto(this->_max.classes': 'class id -> Silf::getClassGlyph/findClassIndex, whose own test is `cid > m_nClass` (one too weak): the loader bound keeps m_classOffsets[cid+1] in range',
    'valid_upto(this->_max.attrid[': 'indexed attribute id -> Slot::setAttr/getAttr(gr_slatUserDefn) index m_userAttr[subindex] unchecked on the set path',
    'gr_slatUserDefn': 'un-indexed ATTR_* / PUSH_SLOT_ATTR must not name the user-defined attribute (index 0 is out of range when the font declares none)',
    'test_ref(': 'slot reference must lie inside the rule\'s slot window recorded for Code::run\'s _max_ref precheck',
    'test_context()': 'output index / context-table bound (NUMCONTEXTS)',
}


def case_checks(fx, opnum):
    fn = fx.one('graphite2::vm::Machine::Code::decoder::fetch_opcode')
    sw = [b for b in fn.blocks if (fn.blocks[b].get('term') or {}).get('k') == 'SwitchStmt']
    if len(sw) != 1:
        raise AnalysisBroken('fetch_opcode: expected one switch')
    sw = sw[0]
    byval = {}
    for n, v in opnum.items():
        byval.setdefault(v, []).append(n)
    out = {}
    for s in fn.blocks[sw]['succ']:
        if s is None:
            continue
        lab = fn.blocks[s].get('label') or {}
        if lab.get('k') != 'CaseStmt':
            continue
        names = byval.get(lab['lo'], ['?'])
        checks = []
        seen, st = set(), [s]
        while st:
            b = st.pop()
            if b in seen:
                continue
            seen.add(b)
            blk = fn.blocks[b]
            for e in blk['el']:
                if e['k'] in CALL_KINDS and (e.get('fq') or '').split('::')[-1] in VALIDATORS and 'decoder' in (e.get('fq') or ''):
                    sp = []
                    for res in (False, True):
                        txt = fn.render(e, resolve=res).replace('this.', '')
                        if e['fq'].endswith('::failure'):
                            fs = sorted(set('%s %s %s' % f[:3] for f in dom.facts_at(fn, e['i'])
                                            if 'graphite2::vm::Machine::Code::decoder::fetch_opcode' not in f[0]))
                            # keep only the innermost guard facts that are specific to this failure call
                            txt = txt + ' if ' + ' & '.join(fs[-3:]) if fs else txt
                        if txt not in sp:
                            sp.append(txt)
                    if sp not in checks:
                        checks.append(sp)
            if (blk.get('term') or {}).get('k') == 'BreakStmt':
                continue
            for x in fn.succs(b):
                if x != fn.exit:
                    # do not run past the end of the switch: stop at the block that holds the final return
                    if any(el['k'] == 'ReturnStmt' for el in fn.blocks[x]['el']):
                        continue
                    st.append(x)
        for nm in names:
            if nm != 'TEMP_COPY':
                out[nm] = checks
    return fn, out


def check(run, vm, rule='OPERANDCHECK'):
    if not os.path.exists(TABLE):
        raise AnalysisBroken('tables/opcode_checks.json missing')
    with open(TABLE) as fh:
        table = json.load(fh)['opcodes']
    fn, cur = case_checks(vm.fx, vm.opnum)
    n = 0
    for op, checks in sorted(table.items()):
        have = cur.get(op)
        if have is None:
            run.violated(rule, 'opcode %s' % op, fn.where(), 'fetch_opcode has no case for %s any more: its operands are not validated (falls to default?)' % op)
            continue
        have_all = set(x for h in have for x in h)
        for c in checks:
            n += 1
            spell = c if isinstance(c, list) else [c]
            c = spell[0]
            inst = '%s: %s' % (op, c[:70])
            why = [v for k, v in LOAD_BEARING.items() if k in c]
            if any(x in have_all for x in spell):
                run.held(rule, inst, fn.where(), why[0] if why else 'validation present', bool(why))
                continue
            # a validation of the same kind with the same operand but another limit = weakened; otherwise dropped
            head = c.split('(')[0]
            same = [h[0] for h in have if h[0].split('(')[0] == head]
            run.violated(rule, inst, fn.where(), 'the bytecode loader no longer performs `%s` for opcode %s (now: %s)%s'
                         % (c, op, same or 'no %s at all' % head, ': ' + why[0] if why else ''))
    return n


if __name__ == '__main__':
    from rules import facts as F
    from rules.cfg import Facts
    from rules.vm import VM
    fx = Facts(F.extract_ast('Q0', use_cache=False))
    vm = VM(fx)
    fn, cur = case_checks(fx, vm.opnum)
    cur = {k: v for k, v in cur.items() if v}
    os.makedirs(os.path.dirname(TABLE), exist_ok=True)
    with open(TABLE, 'w') as fh:
        json.dump({'_comment': 'Validation calls per opcode case of decoder::fetch_opcode confirmed on the pinned tree (rules/opchecks.py).',
                   'opcodes': cur}, fh, indent=1, sort_keys=True)
    print('wrote %s: %d opcodes, %d checks' % (TABLE, len(cur), sum(len(v) for v in cur.values())))
