"""C02 -- shaping any accepted font with any text is safe, terminating and bounded.

Necessary conditions decided (DESIGN.md section 6, C02):
  VMSTACK / STACKMODEL / PARAMSZ / DIVGUARD / NOSIGNEDOVF  -- interpreter rules (rules/vmrules.py)
  SLOTREF    slot references taken from bytecode operands go through slotat(), whose window test keeps both
             comparisons; every dereference of a slotat() result is dominated by a non-null test; Code::run
             keeps the _max_ref precheck
  USERATTR   Slot::setAttr/getAttr index m_userAttr only under the guard that makes the index valid
  GROWTH     who may call Segment::newSlot / extendLength; INSERT is dominated by decMax() > 0; newSlot keeps
             its growth refusal before allocating; Silf::runGraphite keeps the post-pass size test
  CONST      array extents equal the limits used to index them
  RECURSION  depth cut-offs dominate the recursive calls, which pass depth + 1
  CMAPBOUND  (shared with C13) the cached cmap indexes its block table only under the bounds matching its allocation
  LOOPLIMIT  the per-pass loop counter is consulted on the advance path and forced >= 1 at load
"""
import re
from . import vmrules as R
from . import dom
from .util import callers_of, calls_in, find_decl, field_writes
from .facts import AnalysisBroken

LEVEL = 'other'
EXPLANATION = ('Static path/dominance/who-may-call rules over the CFG facts of the interpreter, Segment, Slot, Pass, Silf and '
               'Rule.h: stack excursion of every opcode handler within the guard cells, decoder stack model vs handler needs, '
               'operand-size agreement, slot-window and null discipline for operand-derived slot references, user-attribute '
               'index guards, growth accounting (newSlot/extendLength callers, decMax, growth refusal, post-pass size test), '
               'constant coherence between limits and array extents, recursion depth cut-offs, loop-limit consultation.  '
               'Each is a necessary condition of memory safety / bounded work for every accepted font and text; absence of '
               'out-of-bounds access in float-derived collision indexing and the numeric work bound are NOT decided.')
FLOORS = {'VMSTACK': 60, 'STACKMODEL': 30, 'PARAMSZ': 55, 'DIVGUARD': 1, 'NOSIGNEDOVF': 50, 'SLOTREF': 20,
          'USERATTR': 3, 'GROWTH': 9, 'CONST': 7, 'RECURSION': 5, 'LOOPLIMIT': 4, 'CMAPBOUND': 4, 'ADVIDX': 2, 'FREEDSLOT': 3, 'OWNLOCAL': 12, 'DERIVED': 1}


# ------------------------------------------------------------------------------------------ SLOTREF
def slotref(run, vm):
    fx = vm.fx
    total = 0
    for h, fn in sorted(vm.handlers.items()):
        # slotat() macro instances: ConditionalOperator whose false arm assigns slot_offset_out_bounds
        sites = []
        for _, e in fn.elements():
            if e['k'] == 'ConditionalOperator':
                txt = fn.render(e)
                if 'slot_offset_out_bounds' in txt:
                    sites.append(e)
        for e in sites:
            total += 1
            inst = '%s slotat@%s:%s' % (h, e['ln'], e['col'])
            # the window test: find the && terminator feeding this conditional
            cond = fn.N(e['c'][0])
            cmps = [x for x in fn.walk(cond) if x['k'] == 'BinaryOperator' and x['op'] in ('<', '<=', '>', '>=')]
            ops = sorted(fn.render(x) for x in cmps)
            lower = [x for x in cmps if x['op'] == '>=' and 'SlotMap::operator[]' in fn.render(x['c'][1]) and '-1)' in fn.render(x['c'][1]).replace(' ', '')]
            upper = [x for x in cmps if x['op'] == '<' and 'end()' in fn.render(x['c'][1])]
            truearm = fn.render(fn.N(e['c'][1]))
            if not lower or not upper:
                run.violated('SLOTREF', inst, fn.loc(e), 'slotat() no longer tests both ends of the slot-map window (map+x >= &smap[-1] '
                             '&& map+x < smap.end()): found %s' % ops)
            else:
                # the indexed read uses the same offset expression as the test
                lo_off = fn.render(fn.N(lower[0]['c'][0]))
                hi_off = fn.render(fn.N(upper[0]['c'][0]))
                if lo_off != hi_off:
                    run.violated('SLOTREF', inst, fn.loc(e), 'slotat() tests %s and %s: different expressions' % (lo_off, hi_off))
                else:
                    run.held('SLOTREF', inst, fn.loc(e), 'window test %s' % ops)
            # variable bound to the result and its dereferences
            var = None
            for _, d in fn.elements():
                if d['k'] == 'DeclStmt':
                    for dd in d['decls']:
                        if dd.get('init') is not None and any(x is e or x.get('i') == e['i'] for x in fn.walk(dd['init'])):
                            var = dd
            if var is None:
                run.broken('SLOTREF', inst + ' binding', 'slotat() result is not bound to a local (unknown shape)', fn.loc(e))
                continue
            derefs = []
            for _, u in fn.elements():
                if u['k'] == 'MemberExpr' and u.get('arrow') and u.get('c'):
                    b = fn.strip_all_casts(u['c'][0])
                    if b['k'] == 'DeclRefExpr' and b.get('vid') == var['vid']:
                        derefs.append(u)
                if u['k'] == 'CXXMemberCallExpr' and u.get('obj') is not None:
                    b = fn.strip_all_casts(u['obj'])
                    if b['k'] == 'DeclRefExpr' and b.get('vid') == var['vid']:
                        derefs.append(u)
            for u in derefs:
                dinst = '%s %s-> @%s:%s' % (h, var['n'], u['ln'], u['col'])
                got = dom.holds(fn, u['i'], (var['n'], '!=', '0'))
                if got:
                    run.held('SLOTREF', dinst, fn.loc(u), 'dominated by %s != 0' % var['n'])
                else:
                    run.violated('SLOTREF', dinst, fn.loc(u), 'slot reference `%s` obtained from slotat() is dereferenced without a dominating '
                                 'non-null test: an out-of-window operand yields NULL' % var['n'])
    if total < 14:
        run.broken('SLOTREF', '*', 'only %d slotat() sites found (14 confirmed by hand)' % total)
    # operand-derived slot references are used only through slotat(): map[...] with a non-constant index only inside it
    # Code::run precheck
    cr = fx.one('graphite2::vm::Machine::Code::run')
    mr = calls_in(cr, 'graphite2::vm::Machine::run')
    if not mr:
        raise AnalysisBroken('Code::run: call of Machine::run not found')
    fs = dom.facts_at(cr, mr[0]['i'])
    size_ok = [f for f in fs if f[1] in ('>',) and 'size()' in f[0] and '_max_ref' in f[2]]
    nz_ok = [f for f in fs if f[1] == '!=' and '_max_ref' in f[0] and f[2] == '0']
    if size_ok and nz_ok:
        run.held('SLOTREF', 'Code::run max_ref precheck', cr.loc(mr[0]), '%s ; %s' % (size_ok[0][:3], nz_ok[0][:3]))
    else:
        run.violated('SLOTREF', 'Code::run max_ref precheck', cr.loc(mr[0]),
                     'Machine::run is no longer dominated by `size() > _max_ref + context && map[_max_ref + context] != 0`: '
                     'a program whose deepest slot reference lies beyond the matched slots would run', {'facts': [f[:3] for f in fs]})


# ----------------------------------------------------------------------------------------- USERATTR
def mapindex(run, fx):
    """the slot map is indexed from a bytecode-supplied attach.to value in Slot::setAttr: the index must be non-negative (an unsigned
    value, or a dominating `>= 0`) and below map.size() at every map[...] there"""
    from .cfg import int_type
    sa = fx.one('graphite2::Slot::setAttr')
    sites = [e for e in calls_in(sa, 'graphite2::SlotMap::operator[]') if e.get('args')]
    if not sites:
        run.broken('USERATTR', 'attach.to slot-map index', 'Slot::setAttr no longer indexes the slot map', sa.where())
        return
    for e in sites:
        a = sa.N(e['args'][-1])
        n = sa.strip(a)
        while n['k'] == 'ImplicitCastExpr' and n.get('c'):
            n = sa.strip(n['c'][0])
        src = sa.deref(n)              # a const local stands for its initialiser
        it = int_type((n.get('t') or '').replace('const ', ''))
        txt = sa.render(n)
        fs = [f[:3] for f in dom.facts_at(sa, e['i'])]
        nonneg = (it is not None and it[1] is False) or any(dom.implies(f, (txt, '>=', '0')) for f in fs)
        upper = any(f[0] == txt and f[1] == '<' and 'size()' in f[2] for f in fs)
        inst = 'attach.to slot-map index @%s' % e['ln']
        if nonneg and upper:
            run.held('USERATTR', inst, sa.loc(e), 'map[%s]: %s, and %s < map.size()' % (txt, 'unsigned' if it and it[1] is False else 'dominated by >= 0', txt))
        else:
            run.violated('USERATTR', inst, sa.loc(e), 'Slot::setAttr indexes the slot map with `%s` (%s) %s: a negative attach.to value taken from the bytecode indexes '
                         'below the start of the slot map' % (txt, n.get('t'), 'without a lower bound' if not nonneg else 'without the `< map.size()` test'),
                         {'facts': fs})


def mapwindow(run, fx):
    """a pointer into the slot map formed as begin() + <signed offset> (the window of a rule: context - preContext): the offset is
    known to be >= 0 where the pointer is formed -- by a dominating test of that very difference, in any arrangement of its terms;
    a test made after a conversion to unsigned says nothing about the sign -- and a dominating test relates it to size()"""
    from . import linear
    n_ = 0
    for fn in fx.all_fns():
        if not fn.file.endswith(('Pass.cpp', 'Silf.cpp', 'Segment.cpp', 'Slot.cpp')) or not fn.blocks:
            continue
        begins = {fn.render(c_, resolve=True) for c_ in calls_in(fn, 'graphite2::SlotMap::begin')}
        if not begins:
            continue
        for _, e in fn.elements():
            if e['k'] != 'BinaryOperator' or e['op'] not in ('+', '-') or '*' not in (e.get('t') or ''):
                continue
            if any(p_['k'] == 'BinaryOperator' and p_['op'] in ('+', '-') and '*' in (p_.get('t') or '') for p_ in (fn.nodes[i] for i in fn.parents().get(e['i'], []))):
                continue            # not the outermost pointer sum
            terms, c0 = linear.lin(fn, e)
            base = [t for t in terms if t in begins]
            if len(base) != 1 or terms[base[0]] != 1:
                continue
            off = (linear.Counter({t: c for t, c in terms.items() if t != base[0]}), c0)
            if not off[0]:
                continue
            n_ += 1
            inst = '%s window @%s' % (fn.q.split('::')[-1], e.get('ln'))
            lows, ups = [], []
            for cond, pol in dom.edge_guards(fn, fn.block_of[e['i']]):
                for a, p in dom.atoms(fn, cond, pol):
                    for t, c in linear.lower_bounds(fn, a, p):
                        if t == off[0] and c <= off[1]:
                            lows.append(fn.render(fn.strip(a)))
                    txt = fn.render(fn.strip(a), resolve=True)
                    if 'size()' in txt and all(x in txt for x in off[0]):
                        ups.append(txt)
            if lows and ups:
                run.held('USERATTR', inst, fn.loc(e), 'offset %s: lower bound by `%s`, related to size() by `%s`' % (dict(off[0]), lows[0], ups[0][:80]))
            else:
                run.violated('USERATTR', inst, fn.loc(e), '%s forms a pointer into the slot map as begin() + (%s) %s: a rule whose pre-context reaches before the start '
                             'of the map reads and runs constraint code on memory in front of it' %
                             (fn.q, ' '.join('%+d*%s' % (c, t) for t, c in sorted(off[0].items())),
                              'without a dominating test that this signed difference is >= 0 (a comparison made after converting to unsigned does not bound the sign)'
                              if not lows else 'without relating it to the map size'))
    if n_ == 0:
        run.broken('USERATTR', 'slot-map window', 'no begin() + offset pointer into the slot map found (expected Pass::testConstraint)', '')


def userattr(run, fx):
    mapindex(run, fx)
    mapwindow(run, fx)
    sa = fx.one('graphite2::Slot::setAttr')
    stores = []
    for _, e in sa.elements():
        if e['k'] == 'BinaryOperator' and e['op'] == '=':
            l = sa.strip(e['c'][0])
            ea = sa.elem_access(l)
            if ea:
                b = sa.strip_all_casts(ea[0])
                if b['k'] == 'MemberExpr' and b['d'] == 'graphite2::Slot::m_userAttr':
                    stores.append((e, l))
    if not stores:
        raise AnalysisBroken('Slot::setAttr: store into m_userAttr not found')
    sub = [p for p in sa.f['params'] if p['n'] == 'subindex']
    ind = [p for p in sa.f['params'] if p['n'] == 'ind']
    if not sub or not ind:
        raise AnalysisBroken('Slot::setAttr: parameters ind/subindex not found')
    remaps = []
    for _, e in sa.elements():
        if e['k'] == 'BinaryOperator' and e['op'] == '=':
            l = sa.strip(e['c'][0])
            if l['k'] == 'DeclRefExpr' and l.get('vid') in (sub[0]['vid'], ind[0]['vid']):
                remaps.append(e)
    # the guarding edge: numAttrs() == 0 -> return ; we need its "non-zero" edge
    guard_edges = []
    for b in sa.blocks:
        c = sa.term_cond(b)
        if c is None:
            continue
        for a, p in dom.atoms(sa, c, True):
            t = dom.norm(sa, a, p)
            if 'numAttrs()' in t[0] and t[2] == '0' and t[1] in ('==', '!='):
                # true edge means t holds; the edge on which numAttrs() != 0:
                nz_idx = 1 if t[1] == '==' else 0
                guard_edges.append((b, nz_idx))
    for e, l in stores:
        sb = sa.block_of[e['i']]
        for r in remaps:
            rb = sa.block_of[r['i']]
            inst = 'setAttr store@%s after remap@%s' % (e['ln'], r['ln'])
            if sb not in sa.reachable_from(rb):
                continue
            # every path entry -> remap -> store must take a guard edge (before or after the remap)
            def _reach(src, dst):
                seen, st = set(), [src]
                while st:
                    b = st.pop()
                    if b in seen:
                        continue
                    seen.add(b)
                    if b == dst:
                        return True
                    for idx, s in enumerate(sa.blocks[b]['succ']):
                        if s is None or (b, idx) in guard_edges:
                            continue
                        st.append(s)
                return False

            def reach_without():
                return _reach(sa.entry, rb) and _reach(rb, sb)
            if guard_edges and not reach_without():
                run.held('USERATTR', inst, sa.loc(e), 'legacy user-attribute code reaches m_userAttr[] only when numAttrs() != 0')
            else:
                run.violated('USERATTR', inst, sa.loc(e),
                             'Slot::setAttr remaps the attribute code/index (%s) and then stores into m_userAttr[subindex] without '
                             'the numAttrs() != 0 test: the bytecode loader validates only the indexed IATTR_* forms, so a font '
                             'with zero user attributes and ATTR_SET user1 writes past the per-slot attribute block' % sa.render(r))
        if not remaps:
            run.held('USERATTR', 'setAttr store@%s' % e['ln'], sa.loc(e), 'index comes straight from the validated operand')
    ga = fx.one('graphite2::Slot::getAttr')
    reads = []
    for _, e in ga.elements():
        ea = ga.elem_access(e) if e['k'] in ('ArraySubscriptExpr', 'UnaryOperator') else None
        if ea:
            b = ga.strip_all_casts(ea[0])
            if b['k'] == 'MemberExpr' and b['d'] == 'graphite2::Slot::m_userAttr':
                reads.append(e)
    if not reads:
        raise AnalysisBroken('Slot::getAttr: read of m_userAttr not found')
    for e in reads:
        idx = ga.render(ga.strip_all_casts(ga.elem_access(e)[1]))
        fs = dom.facts_at(ga, e['i'])
        ok = [f for f in fs if f[0] == idx and f[1] == '<' and 'numAttrs()' in f[2]]
        inst = 'getAttr read@%s' % e['ln']
        if ok:
            run.held('USERATTR', inst, ga.loc(e), '%s < numAttrs()' % idx)
        else:
            run.violated('USERATTR', inst, ga.loc(e), 'm_userAttr[%s] is read without the dominating `%s < seg->numAttrs()` test' % (idx, idx),
                         {'facts': [f[:3] for f in fs]})


# ------------------------------------------------------------------------------------------- GROWTH
NEWSLOT_CALLERS = {
    'graphite2::Segment::Segment': 'primes the free list: freeSlot(newSlot())',
    'graphite2::Segment::appendSlot': 'one slot per input character',
    '(anonymous namespace)::insert': 'INSERT opcode, bounded by SlotMap::decMax()',
    '(anonymous namespace)::temp_copy': 'TEMP_COPY private opcode (loader-inserted, freed by collectGarbage)',
    '(anonymous namespace)::direct_run': 'the same two opcodes in the direct-threaded driver',
    'graphite2::Segment::addLineEnd': 'justification sentinel, removed by delLineEnd',
    'graphite2::ShiftCollider::mergeSlot': 'temporary exclusion slot, freed in the same call',
}
EXTEND_CALLERS = {'(anonymous namespace)::insert', '(anonymous namespace)::delete_', '(anonymous namespace)::direct_run'}


def growth(run, vm):
    fx = vm.fx
    for fn, e in callers_of(fx, 'graphite2::Segment::newSlot'):
        inst = 'newSlot caller %s' % fn.q
        if fn.q in NEWSLOT_CALLERS:
            run.held('GROWTH', inst, fn.loc(e), NEWSLOT_CALLERS[fn.q], False)
        else:
            run.violated('GROWTH', inst, fn.loc(e), '%s allocates slots through Segment::newSlot but is not one of the %d tabled, '
                         'bounded allocation sites: the "<= 64 slots per character" accounting does not cover it' % (fn.q, len(NEWSLOT_CALLERS)))
    seen_ext = {}
    for fn, e in callers_of(fx, 'graphite2::Segment::extendLength'):
        inst = 'extendLength caller %s' % fn.q
        if fn.q not in EXTEND_CALLERS:
            run.violated('GROWTH', inst, fn.loc(e), '%s changes the slot count through extendLength; only INSERT (+1) and DELETE (-1) may' % fn.q)
        else:
            v = fn.strip_all_casts(e['args'][0]).get('v')
            seen_ext.setdefault(fn.q, []).append(v)
            run.held('GROWTH', inst + ' %s' % v, fn.loc(e), 'extendLength(%s)' % v, False)
    # INSERT: newSlot dominated by decMax() > 0 ; extendLength(+1) exactly once on every non-DIE path
    ins = vm.handlers.get('insert')
    dele = vm.handlers.get('delete_')
    if not ins or not dele:
        raise AnalysisBroken('insert/delete_ handlers not found')
    ns = calls_in(ins, 'graphite2::Segment::newSlot')
    if not ns:
        run.broken('GROWTH', 'INSERT decMax', 'newSlot call not found in insert')
    else:
        fs = dom.facts_at(ins, ns[0]['i'])
        ok = [f for f in fs if 'decMax()' in f[0] and f[1] == '>' and f[2] == '0']
        if ok:
            run.held('GROWTH', 'INSERT decMax', ins.loc(ns[0]), 'newSlot dominated by %s' % (ok[0][:3],))
        else:
            run.violated('GROWTH', 'INSERT decMax', ins.loc(ns[0]), 'INSERT allocates a slot without the dominating `smap.decMax() > 0` budget test: '
                         'a rule that keeps inserting grows the segment without bound within one pass', {'facts': [f[:3] for f in fs]})
    for h, want in (('insert', 1), ('delete_', -1)):
        leaves = vm.sym(h)
        bad = []
        for l in leaves:
            n = [c for c in l.calls if c[0] == 'graphite2::Segment::extendLength']
            if l.exit == 'ENDOP' and len(n) != 1:
                bad.append((len(n), l.loc_exit))
            if l.exit == 'EXIT' and len(n) != 0:
                bad.append((len(n), 'DIE path'))
        vals = seen_ext.get('(anonymous namespace)::' + h, [])
        if bad or vals != [want]:
            run.violated('GROWTH', '%s accounting' % h, vm.handlers[h].where(), '%s must call extendLength(%+d) exactly once on every completing path '
                         'and never on a DIE path: %s, argument(s) %s' % (h, want, bad[:3], vals))
        else:
            run.held('GROWTH', '%s accounting' % h, vm.handlers[h].where(), 'extendLength(%+d) exactly once on each of %d completing paths'
                     % (want, sum(1 for l in leaves if l.exit == 'ENDOP')))
    # newSlot: growth refusal dominates both allocations
    nsf = fx.one('graphite2::Segment::newSlot')
    allocs = [e for e in calls_in(nsf) if (e.get('fq') or '').startswith('graphite2::grzeroalloc') or (e.get('fq') or '').startswith('graphite2::gralloc')]
    if len(allocs) < 2:
        raise AnalysisBroken('Segment::newSlot: allocation calls not found')
    for a in allocs:
        fs = dom.facts_at(nsf, a['i'])
        ok = [f for f in fs if f[0] == 'this->m_numGlyphs' and f[1] == '<=' and 'm_numCharinfo' in f[2] and '64' in f[2]]
        inst = 'newSlot refusal before %s@%s' % (a['fq'].split('::')[-1], a['ln'])
        if ok:
            run.held('GROWTH', inst, nsf.loc(a), 'allocation dominated by m_numGlyphs <= m_numCharinfo * 64')
        else:
            run.violated('GROWTH', inst, nsf.loc(a), 'Segment::newSlot allocates a new block without the dominating refusal '
                         '`m_numGlyphs > m_numCharinfo * MAX_SEG_GROWTH_FACTOR`', {'facts': [f[:3] for f in fs]})
    # Silf::runGraphite: post-pass failure on slotCount() > maxSize with maxSize = slotCount()*64
    sr = fx.one('graphite2::Silf::runGraphite')
    _, md = find_decl(sr, 'maxSize')
    if md is None:
        raise AnalysisBroken('Silf::runGraphite: maxSize not found')
    mtxt = sr.render(md['init'])
    if 'slotCount()' in mtxt and '* 64' in mtxt:
        run.held('GROWTH', 'Silf::runGraphite maxSize', sr.where(), mtxt, False)
    else:
        run.violated('GROWTH', 'Silf::runGraphite maxSize', sr.where(), 'maxSize is %s, expected slotCount() * MAX_SEG_GROWTH_FACTOR(64)' % mtxt)
    # the loop back edge (the for-increment block) is reachable only with slotCount() <= maxSize (or 0) and status finished
    inc = [e for _, e in sr.elements() if e['k'] == 'UnaryOperator' and e['op'] == 'pre++' and sr.render(sr.N(e['c'][0])) == 'i']
    if not inc:
        raise AnalysisBroken('Silf::runGraphite: pass loop increment not found')
    pcall = calls_in(sr, 'graphite2::Pass::runGraphite')
    if not pcall:
        raise AnalysisBroken('Silf::runGraphite: call of Pass::runGraphite not found')
    cb, ib = sr.block_of[pcall[0]['i']], sr.block_of[inc[0]['i']]
    okst = dom.must_pass(sr, cb, ib, lambda f: 'status()' in f[0] and f[1] == '==' and f[2] in ('0', 'graphite2::vm::Machine::finished'))
    oksz = dom.must_pass(sr, cb, ib, lambda f: ('slotCount()' in f[0] and f[1] == '==' and f[2] == '0') or
                         ('slotCount()' in f[0] and f[1] == '<=' and f[2] == 'maxSize'))
    if okst and oksz:
        run.held('GROWTH', 'Silf::runGraphite post-pass test', sr.loc(inc[0]), 'next pass only when status finished and slot count within maxSize')
    else:
        run.violated('GROWTH', 'Silf::runGraphite post-pass test', sr.loc(pcall[0]), 'a pass can be followed by the next one without the '
                     '`m.status() == finished` (%s) / `slotCount() <= maxSize` (%s) post-pass test' % (okst, oksz))


# -------------------------------------------------------------------------------------------- CONST
def const_(run, vm):
    fx = vm.fx

    def enumv(q):
        return fx.enum_value(q)

    def field(rec, name):
        r = fx.record(rec)
        f = [x for x in r['fields'] if x['n'] == name]
        if not f:
            raise AnalysisBroken('%s::%s not found' % (rec, name))
        return f[0], r

    ms = enumv('graphite2::SlotMap::MAX_SLOTS')
    f, r = field('graphite2::SlotMap', 'm_slot_map')
    if f.get('extent') == ms + 1:
        run.held('CONST', 'SlotMap::m_slot_map extent', r['file'], '%d == MAX_SLOTS+1' % f['extent'], False)
    else:
        run.violated('CONST', 'SlotMap::m_slot_map extent', r['file'], 'm_slot_map[%s] but MAX_SLOTS+1 = %d' % (f.get('extent'), ms + 1))
    mr = enumv('graphite2::FiniteStateMachine::MAX_RULES')
    f, r = field('graphite2::FiniteStateMachine::Rules', 'm_rules')
    if f.get('extent') == 2 * mr:
        run.held('CONST', 'Rules::m_rules extent', r['file'], '%d == 2*MAX_RULES' % f['extent'], False)
    else:
        run.violated('CONST', 'Rules::m_rules extent', r['file'], 'm_rules[%s] but 2*MAX_RULES = %d' % (f.get('extent'), 2 * mr))
    # runFSM: free_slots initialised from MAX_SLOTS, pushSlot in the loop only after `--free_slots != 0`
    rf = fx.one('graphite2::Pass::runFSM')
    # the number of pushSlot calls on any path through runFSM, computed from the constant-initialised counter (rules/constloop.py):
    # SlotMap::pushSlot stores at m_slot_map[++m_size], m_size is 0 after reset, the array has MAX_SLOTS + 1 cells
    from .constloop import max_calls
    n = max_calls(rf, 'graphite2::SlotMap::pushSlot')
    if n is not None and 1 <= n <= ms:
        run.held('CONST', 'runFSM slot budget', rf.where(), 'at most %d pushSlot calls on any path (MAX_SLOTS = %d, extent %d)' % (n, ms, ms + 1))
    elif n is None:
        run.violated('CONST', 'runFSM slot budget', rf.where(), 'the number of pushSlot calls in Pass::runFSM is no longer bounded by the free_slots counter: a cyclic FSM and a '
                     'long text overflow SlotMap::m_slot_map[%d]' % (ms + 1))
    else:
        run.violated('CONST', 'runFSM slot budget', rf.where(), 'Pass::runFSM can call pushSlot %d times on one path; m_slot_map has MAX_SLOTS + 1 = %d cells and pushSlot '
                     'writes m_slot_map[++m_size], so at most %d pushes fit: the last push overwrites the members that follow the array' % (n, ms + 1, ms))
    # accumulate_rules: every store through the output cursor is dominated by cursor != (its start + MAX_RULES); the cursor starts in the half
    # of m_rules that is not in use.  Roles, not names: the output cursor is the non-const RuleEntry* local that is stored through.
    ar = fx.one('graphite2::FiniteStateMachine::Rules::accumulate_rules')
    stores = []
    for _, e in ar.elements():
        if (e['k'] == 'CXXOperatorCallExpr' and (e.get('fq') or '').endswith('RuleEntry::operator=')) or (e['k'] == 'BinaryOperator' and e['op'] == '='):
            l = ar.strip_all_casts((e.get('args') or e.get('c'))[0])
            if l['k'] == 'UnaryOperator' and l['op'] == '*':
                x = ar.strip_all_casts(l['c'][0])
                if x['k'] == 'UnaryOperator' and x['op'] in ('post++', 'pre++'):
                    x = ar.strip_all_casts(x['c'][0])
                if x['k'] == 'DeclRefExpr' and x.get('vid') is not None and 'RuleEntry *' in (x.get('t') or ''):
                    stores.append((e, x))
    ovs = {x['vid'] for _, x in stores}
    if len(stores) < 4 or len(ovs) != 1:
        run.broken('CONST', 'accumulate_rules stores', 'expected at least 4 stores through one output cursor, found %d through %d variables' % (len(stores), len(ovs)), ar.where())
    else:
        ov = next(iter(ovs))
        on = stores[0][1]['d'].split('::')[-1]
        od = bound = None
        for _, e in ar.elements():
            if e['k'] == 'DeclStmt':
                for d_ in e.get('decls', []):
                    if d_.get('vid') == ov:
                        od = d_
                    elif d_.get('init') is not None:
                        i_ = ar.strip_all_casts(d_['init'])
                        if i_['k'] == 'BinaryOperator' and i_['op'] == '+' and ar.strip_all_casts(i_['c'][0]).get('vid') == ov and dom._cval(ar, i_['c'][1]) == mr:
                            bound = d_
        otxt = ar.render(od['init'], resolve=True) if od and od.get('init') is not None else ''
        if bound is None:
            run.violated('CONST', 'accumulate_rules lrend', ar.where(), 'no bound `%s + MAX_RULES` (%d) is computed for the output cursor of accumulate_rules' % (on, mr))
        else:
            run.held('CONST', 'accumulate_rules lrend', ar.where(), '%s = %s + MAX_RULES' % (bound['n'], on), False)
        if 'm_rules' in otxt and ('MAX_RULES' in otxt or str(mr) in otxt) and 'm_begin' in otxt:
            run.held('CONST', 'accumulate_rules out', ar.where(), otxt, False)
        else:
            run.violated('CONST', 'accumulate_rules out', ar.where(), 'the output cursor starts at %s, expected the half of m_rules (m_rules / m_rules + MAX_RULES) that m_begin does not use' % otxt)
        for e, _x in stores:
            fs = dom.facts_at(ar, e['i'])
            ok = bound is not None and [f for f in fs if f[0] == on and f[1] == '!=' and f[2] == bound['n']]
            inst = 'accumulate_rules store@%s:%s' % (e['ln'], e['col'])
            if ok:
                run.held('CONST', inst, ar.loc(e), 'dominated by %s != %s' % (on, bound['n']))
            else:
                run.violated('CONST', inst, ar.loc(e), 'store through `%s` without the dominating `%s != <start + MAX_RULES>` bound: more than MAX_RULES entries '
                             'overflow Rules::m_rules' % (on, on), {'facts': [f[:3] for f in fs]})
    # readRules: sort <= 63 (== MAX_SLOTS-1)
    rr = fx.one('graphite2::Pass::readRules')
    found = None
    for b in rr.blocks:
        c = rr.term_cond(b)
        if c is None:
            continue
        for a, p in dom.atoms(rr, c, False):
            t = dom.norm(rr, a, p)
            if t[0].endswith('->sort') and t[1] in ('<=', '<') and t[2].isdigit():
                found = t
    if found and ((found[1] == '<=' and int(found[2]) <= ms - 1) or (found[1] == '<' and int(found[2]) <= ms)):
        run.held('CONST', 'readRules sort limit', rr.where(), 'rule length %s %s (MAX_SLOTS-1 = %d)' % (found[1], found[2], ms - 1))
    else:
        run.violated('CONST', 'readRules sort limit', rr.where(), 'Pass::readRules accepts rules longer than MAX_SLOTS-1 = %d slots (%s): '
                     'testConstraint/runFSM index the 65-entry slot map with the rule length' % (ms - 1, found))
    # readStates: rules_end clamp uses MAX_RULES
    rs = fx.one('graphite2::Pass::readStates')
    clamp = [e for _, e in rs.elements() if e['k'] == 'BinaryOperator' and e['op'] == '=' and rs.render(rs.N(e['c'][0])).endswith('rules_end')]
    txt = ' '.join(rs.render(e) for e in clamp)
    if 'MAX_RULES' in txt:
        run.held('CONST', 'readStates rules_end clamp', rs.where(), 'clamped with FiniteStateMachine::MAX_RULES')
    else:
        run.violated('CONST', 'readStates rules_end clamp', rs.where(), 'State::rules_end is no longer clamped to begin + MAX_RULES: %s' % txt)


# ---------------------------------------------------------------------------------------- RECURSION
def recursion(run, fx):
    for q in ('graphite2::Slot::finalise', 'graphite2::Slot::floodShift'):
        fn = fx.one(q)
        rec = [e for e in calls_in(fn, q)]
        if len(rec) < 2:
            run.broken('RECURSION', q, 'expected two recursive calls, found %d' % len(rec), fn.where())
            continue
        for e in rec:
            inst = '%s call@%s' % (q.split('::')[-1], e['ln'])
            fs = dom.facts_at(fn, e['i'])
            ok = [f for f in fs if f[0] == 'depth' and f[1] == '<=' and f[2].isdigit() and int(f[2]) <= 100]
            arg = fn.render(e['args'][-1]).replace(' ', '')
            if not ok:
                run.violated('RECURSION', inst, fn.loc(e), 'recursive call not dominated by the `depth > 100` cut-off: attachment chains '
                             'built by font rules recurse without bound', {'facts': [f[:3] for f in fs]})
            elif arg != '(depth+1)':
                run.violated('RECURSION', inst, fn.loc(e), 'recursive call passes `%s` as depth instead of depth + 1' % arg)
            else:
                run.held('RECURSION', inst, fn.loc(e), 'dominated by depth <= 100, passes depth + 1')
    ms = fx.one('graphite2::ShiftCollider::mergeSlot')
    rec = calls_in(ms, 'graphite2::ShiftCollider::mergeSlot')
    if len(rec) != 1:
        run.broken('RECURSION', 'mergeSlot', 'expected one recursive call, found %d' % len(rec), ms.where())
    else:
        e = rec[0]
        fs = dom.facts_at(ms, e['i'])
        ok = [f for f in fs if f[0] == 'isExclusion' and ((f[1] == '==' and f[2] == '0'))]
        pn = [p['n'] for p in ms.f['params']]
        ai = pn.index('isExclusion') if 'isExclusion' in pn else None
        arg = ms.strip_all_casts(e['args'][ai]).get('v') if ai is not None else None
        if ok and arg == 1:
            run.held('RECURSION', 'mergeSlot exclusion recursion', ms.loc(e), 'recurses only under !isExclusion with isExclusion = true (depth <= 2)')
        else:
            run.violated('RECURSION', 'mergeSlot exclusion recursion', ms.loc(e), 'ShiftCollider::mergeSlot recursion is no longer cut: guard %s, '
                         'argument %s' % ([f[:3] for f in fs if 'isExclusion' in f[0]], arg))


# ---------------------------------------------------------------------------------------- LOOPLIMIT
def adjustexec(run, fx, maxn=3):
    """LOOPLIMIT, the flag the loop limit hangs on: Pass::runGraphite re-arms its loop counter whenever SlotMap::highpassed() is set, so
    the flag may be set only while the cursor is really beyond the high-water slot.  Pass::adjustSlot, with the SlotMap / Slot / Segment
    accessors inlined from their own CFGs, is interpreted on every stream of 1..maxn slots x high-water mark (a slot or none) x cursor
    (a slot or null) x flag x advance -maxn-1..maxn+1, from every state that satisfies the invariant; afterwards it holds again:
    highpassed() implies the cursor is null or lies after the high-water slot."""
    from . import ordint as O
    fn = fx.one('graphite2::Pass::adjustSlot')
    PS, PM, PG = 'graphite2::Slot::', 'graphite2::SlotMap::', 'graphite2::Segment::'
    cases = 0
    for n in range(1, maxn + 1):
        for h in [None] + list(range(n)):
            for c in [None] + list(range(n)):
                for hp in (False, True):
                    if hp and h is not None and c is not None and not c > h:
                        continue            # not a state the invariant admits
                    if c is None and not hp and h is not None:
                        pass                # null cursor, flag clear, mark set: adjustSlot reads this as 'before the first slot'
                    for delta in range(-n - 1, n + 2):
                        slots = [O.Rec() for _ in range(n)]
                        for k, sl in enumerate(slots):
                            sl[PS + 'm_next'] = O.Ptr(slots[k + 1]) if k + 1 < n else O.Ptr(None)
                            sl[PS + 'm_prev'] = O.Ptr(slots[k - 1]) if k else O.Ptr(None)
                            sl['#'] = k
                        seg = O.Rec({PG + 'm_first': O.Ptr(slots[0]), PG + 'm_last': O.Ptr(slots[-1])})
                        smap = O.Rec({PM + 'segment': seg, PM + 'm_highwater': O.Ptr(slots[h]) if h is not None else O.Ptr(None), PM + 'm_highpassed': hp})
                        box = [O.Ptr(slots[c]) if c is not None else O.Ptr(None)]
                        it = O.Interp(fx)
                        it.MAX_STEPS = 4000
                        cases += 1
                        desc = '%d slot(s), high-water mark %s, cursor %s, highpassed %s, advance %d' % (n, 'none' if h is None else 'slot %d' % h, 'null' if c is None else 'slot %d' % c, hp, delta)
                        try:
                            it.call(fn, O.Rec(), [delta, O.LV(box, 0), smap])
                        except O.Violation as v:
                            return cases, '%s: %s (%s)' % (desc, v.what, v.loc)
                        out = box[0]
                        hp2 = smap[PM + 'm_highpassed']
                        pos = out.rec['#'] if isinstance(out, O.Ptr) and out.rec is not None else None
                        if hp2 and h is not None and pos is not None and not pos > h:
                            return cases, ('%s: Pass::adjustSlot leaves the cursor on slot %d with highpassed() still set although the high-water mark is slot %d: Pass::runGraphite takes this as '
                                           '"the rule went past the mark", resets its loop counter and puts the mark back at the same slot, so a rule that keeps returning there is never '
                                           'stopped by the font\'s loop limit' % (desc, pos, h))
    return cases, None


def looplimit(run, fx):
    rg = fx.one('graphite2::Pass::runGraphite')
    # the counter: the integer local initialised from m_iMaxLoop
    d = None
    for _, e in rg.elements():
        if e['k'] == 'DeclStmt':
            for x in e.get('decls', []):
                if x.get('init') is not None and rg.render(rg.strip_all_casts(x['init'])) == 'this->m_iMaxLoop':
                    d = x
    if d is None:
        run.violated('LOOPLIMIT', 'counter init', rg.where(), 'Pass::runGraphite has no loop counter initialised from m_iMaxLoop')
        return
    cv, cn = d['vid'], d['n']
    run.held('LOOPLIMIT', 'counter init', rg.where(), '%s = m_iMaxLoop' % cn, False)
    dec = [e for _, e in rg.elements() if ((e['k'] == 'UnaryOperator' and e['op'] in ('pre--', 'post--')) or (e['k'] == 'CompoundAssignOperator' and e['op'] == '-='))
           and rg.strip_all_casts(e['c'][0]).get('vid') == cv]
    fnd = calls_in(rg, 'graphite2::Pass::findNDoRule')
    if not dec or not fnd:
        run.violated('LOOPLIMIT', 'counter consulted', rg.where(), 'the rule loop no longer decrements/consults the per-pass loop counter '
                     'between two rule applications')
    else:
        # the decrement lies on the path where neither high-water test fired; a zero counter forces the cursor to the high-water mark
        decb = rg.block_of[dec[0]['i']]
        fs = dom.facts_at_block(rg, decb)
        ok1 = any('highwater()' in f[2] and f[1] == '!=' for f in fs) or any('highwater()' in f[0] and f[1] == '!=' for f in fs)
        ok2 = any('highpassed()' in f[0] and f[1] == '==' and f[2] == '0' for f in fs)
        forced = [e for _, e in rg.elements() if e['k'] == 'BinaryOperator' and e['op'] == '=' and rg.strip_all_casts(e['c'][0])['k'] == 'DeclRefExpr'
                  and 'highwater()' in rg.render(rg.N(e['c'][1])) and not rg.N(e['c'][1]).get('args')]
        okf = False
        for e in forced:
            ff = dom.facts_at(rg, e['i'])
            if any(f[0] == cn and f[1] == '==' and f[2] == '0' for f in ff):
                okf = True
        if ok1 and ok2 and okf:
            run.held('LOOPLIMIT', 'counter consulted', rg.loc(dec[0]), '--%s evaluated whenever the cursor did not pass the high-water mark; '
                     '%s == 0 forces s = highwater()' % (cn, cn))
        else:
            run.violated('LOOPLIMIT', 'counter consulted', rg.loc(dec[0]), 'loop limit not enforced: decrement reached only under %s; forced advance %s'
                         % ([f[:3] for f in fs], okf))
    # reset of lc only in the advance branch
    # m_iMaxLoop forced >= 1 at load
    rp = fx.one('graphite2::Pass::readPass')
    st = [e for _, e in rp.elements() if e['k'] == 'BinaryOperator' and e['op'] == '=' and rp.render(rp.N(e['c'][0])) == 'this->m_iMaxLoop']
    ok = False
    for e in st:
        if rp.strip_all_casts(e['c'][1]).get('v') == 1:
            ff = dom.facts_at(rp, e['i'])
            if any(f[0] == 'this->m_iMaxLoop' and f[1] == '<' and f[2] == '1' for f in ff):
                ok = True
    if ok:
        run.held('LOOPLIMIT', 'm_iMaxLoop >= 1', rp.where(), 'if (m_iMaxLoop < 1) m_iMaxLoop = 1')
    else:
        run.violated('LOOPLIMIT', 'm_iMaxLoop >= 1', rp.where(), 'Pass::readPass no longer forces m_iMaxLoop >= 1: a font with maxLoop 0 makes '
                     '`--lc == 0` unreachable for 2^32 iterations')
    # collisionShift: phase loop bounded by m_numCollRuns (a 3-bit field)
    cs = fx.one('graphite2::Pass::collisionShift')
    loops = []
    for b in cs.blocks:
        t = cs.blocks[b].get('term') or {}
        if t.get('k') == 'ForStmt':
            c = cs.term_cond(b)
            if c is not None and 'm_numCollRuns' in cs.render(c):
                loops.append(cs.render(c))
    if loops:
        run.held('LOOPLIMIT', 'collisionShift runs', cs.where(), 'loop bounded by %s' % loops[0])
    else:
        run.violated('LOOPLIMIT', 'collisionShift runs', cs.where(), 'collision fixing loop is no longer bounded by m_numCollRuns')
    st = [e for _, e in rp.elements() if e['k'] == 'BinaryOperator' and e['op'] == '=' and rp.render(rp.N(e['c'][0])) == 'this->m_numCollRuns']
    if st and '& 7' in rp.render(st[0]):
        run.held('LOOPLIMIT', 'm_numCollRuns 3 bits', rp.loc(st[0]), rp.render(st[0]))
    else:
        run.violated('LOOPLIMIT', 'm_numCollRuns 3 bits', rp.where(), 'm_numCollRuns is no longer masked to 3 bits: %s' % [rp.render(e) for e in st])


def derived(run, fx, rule='DERIVED'):
    """a member pointer computed from a buffer (`_data = f(_code)`) is stale once the buffer is handed to realloc, which may move it: after
    every `B = realloc(B, ..)` of a member buffer, each member that was derived from B before is derived again on every path to the
    function's exit.  (Machine::Code packs its operand bytes behind the instructions and shrinks the block: the operands of every
    push / BITSET are read through _data.)"""
    from .util import reaches_avoiding
    n = 0
    for fn in fx.all_fns():
        if not fn.file.startswith('src/') or fn.f.get('implicit') or not fn.f.get('cls'):
            continue
        stores = [e for _, e in fn.elements() if e['k'] == 'BinaryOperator' and e['op'] == '=' and fn.strip(e['c'][0])['k'] == 'MemberExpr' and fn.render(fn.N(fn.strip(e['c'][0])['c'][0])) == 'this']
        rs = [e for e in stores if any((x.get('fq') or '') == 'realloc' for x in fn.walk(e['c'][1]))]
        for r in rs:
            B = fn.strip(r['c'][0])['d']
            # locals derived from B (const locals are looked through by render(resolve=True))
            for d in stores:
                D = fn.strip(d['c'][0])['d']
                if D == B or d is r:
                    continue
                txt = fn.render(fn.N(d['c'][1]), resolve=True)
                if ('this->' + B.split('::')[-1]) not in txt:
                    continue
                if not reaches_avoiding(fn, d, r, avoid=()):
                    continue                  # derived after the realloc (or unrelated path): fine
                n += 1
                again = [x for x in stores if fn.strip(x['c'][0])['d'] == D and x is not d]
                # is the exit reachable from the realloc without re-deriving D?
                rets = [e for _, e in fn.elements() if e['k'] == 'ReturnStmt'] or []
                esc = None
                last_el = None
                for b_ in fn.blocks:
                    if fn.exit in fn.succs(b_) and fn.blocks[b_]['el']:
                        last_el = fn.blocks[b_]['el'][-1]
                        if reaches_avoiding(fn, r, last_el, avoid=again) and not (last_el['k'] == 'ReturnStmt' and any(f[0] == 'this->' + B.split('::')[-1] and f[1] == '==' and f[2] == '0' for f in dom.facts_at(fn, last_el['i']))):
                            esc = last_el
                inst = '%s is derived again after %s is reallocated (%s)' % (D.split('::')[-1], B.split('::')[-1], fn.q.split('graphite2::')[-1])
                if esc is not None and not (fn.block_of[esc['i']] == fn.block_of[r['i']] and False):
                    run.violated(rule, inst, fn.loc(r), '%s was computed from %s (%s) before `%s`; realloc may move the block, and a path reaches the end of %s without computing %s again: it keeps pointing '
                                 'into the old, freed block' % (D.split('::')[-1], B.split('::')[-1], fn.render(d), fn.render(r)[:60], fn.q, D.split('::')[-1]))
                else:
                    run.held(rule, inst, fn.loc(r), 're-derived on every path from the realloc to the exit')
    # ... and every OTHER function that derives the same member from the buffer uses the layout the reallocating function ends with
    # (Machine::Code: the operands start one cell behind the instructions, `_code + (_instr_count + 1)`: the cell in between is the
    # RET_ZERO sentinel; a second derivation `_code + _instr_count` reads every operand 8 bytes too low)
    from . import linear
    last = {}
    sites = []
    for fn in fx.all_fns():
        if not fn.file.startswith('src/') or fn.f.get('implicit') or not fn.f.get('cls'):
            continue
        for _, e in fn.elements():
            if e['k'] == 'BinaryOperator' and e['op'] == '=' and fn.strip(e['c'][0])['k'] == 'MemberExpr' and fn.render(fn.N(fn.strip(e['c'][0])['c'][0])) == 'this':
                D = fn.strip(e['c'][0])['d']
                if not D.startswith('graphite2::vm::Machine::Code::'):
                    continue
                form = linear.lin(fn, fn.strip_all_casts(fn.N(e['c'][1])), through_unsigned=True)
                if 'this->_code' in form[0]:
                    sites.append((fn, e, D, form))
    realloc_fns = {fn.q for fn, e, D, form in sites if any((x.get('fq') or '') == 'realloc' for _, x in fn.elements())}
    for fn, e, D, form in sites:
        if fn.q in realloc_fns:
            last[D] = (fn, e, form) if D not in last or e['ln'] > last[D][1]['ln'] else last[D]
    for fn, e, D, form in sites:
        if fn.q in realloc_fns or D not in last:
            continue
        n += 1
        inst = '%s derives %s with the layout of %s' % (fn.q.split('graphite2::')[-1], D.split('::')[-1], last[D][0].q.split('::')[-1])
        if (dict(form[0]), form[1]) == (dict(last[D][2][0]), last[D][2][1]):
            run.held(rule, inst, fn.loc(e), fn.render(e))
        else:
            run.violated(rule, inst, fn.loc(e), '%s computes %s as `%s`, but %s lays the block out with `%s`: the two disagree by %d cell(s), so after this function has run every operand '
                         'is read from the wrong place' % (fn.q.split('graphite2::')[-1], D.split('::')[-1], fn.render(fn.N(e['c'][1])), last[D][0].q.split('graphite2::')[-1],
                                                             last[D][0].render(last[D][0].N(last[D][1]['c'][1])), abs(form[1] - last[D][2][1])))
    if n < 1:
        run.broken(rule, 'derived pointers', 'no member derived from a reallocated member buffer was found (Machine::Code::Code: _data from _code confirmed)')


def advidx(run, fx):
    """ADVIDX: Font::advance(g) indexes the per-glyph cache m_advances[numGlyphs] unchecked.  Every call site must establish
    g < numGlyphs first: a dominating comparison of that very value with GlyphCache::numGlyphs(), or a dominating non-null test of
    a pointer obtained from GlyphCache::glyphSafe(g) for the same g (glyphSafe returns null exactly for g >= numGlyphs)."""
    adv = fx.one('graphite2::Font::advance')
    # m_advances[g] or *(m_advances + g): an access of the cache at the function's own parameter
    pv = {p_['vid'] for p_ in adv.f['params']}
    body = []
    for _, e in adv.elements():
        if e['k'] == 'ArraySubscriptExpr' or (e['k'] == 'UnaryOperator' and e.get('op') == '*'):
            sub = list(adv.walk(e))
            if any(x['k'] == 'MemberExpr' and (x.get('d') or '').endswith('Font::m_advances') for x in sub) and any(x['k'] == 'DeclRefExpr' and x.get('vid') in pv for x in sub):
                body.append('m_advances')
    if not any('m_advances' in b for b in body):
        run.broken('ADVIDX', 'Font::advance', 'Font::advance no longer indexes m_advances directly (shape changed; re-confirm)', adv.where())
        return
    guarded_inside = any(f for _, e in adv.elements() if e['k'] == 'ArraySubscriptExpr' or (e['k'] == 'UnaryOperator' and e.get('op') == '*')
                         for f in dom.facts_at(adv, e['i']) if f[1] in ('<', '<=') and any(p_['n'] in f[0] for p_ in adv.f['params']))
    sites = callers_of(fx, 'graphite2::Font::advance')
    if len(sites) < 2:
        raise AnalysisBroken('expected at least 2 call sites of Font::advance, found %d' % len(sites))
    for fn, e in sites:
        inst = 'Font::advance index in %s' % fn.q
        if guarded_inside:
            run.held('ADVIDX', inst, fn.loc(e), 'Font::advance bounds its own index')
            continue
        arg = fn.strip_all_casts(e['args'][0])
        atxt = fn.render(arg)
        atxt_res = fn.render(fn.deref(e['args'][0]), resolve=True)
        fs = dom.facts_at(fn, e['i'])
        ok = None
        for f in fs:
            if f[1] == '<' and f[0] in (atxt, atxt_res) and 'numGlyphs()' in f[2]:
                ok = 'dominated by %s < %s' % (f[0], f[2])
            if f[1] == '>' and f[2] in (atxt, atxt_res) and 'numGlyphs()' in f[0]:
                ok = 'dominated by %s > %s' % (f[0], f[2])
        if not ok:
            # pointer locals defined as glyphSafe(<same expression>) and tested non-null
            for _, d in fn.elements():
                if d['k'] != 'DeclStmt':
                    continue
                for dd in d['decls']:
                    if dd.get('init') is None:
                        continue
                    init = fn.strip_all_casts(dd['init'])
                    if init.get('fq') == 'graphite2::GlyphCache::glyphSafe' and init.get('args'):
                        g = fn.render(fn.strip_all_casts(init['args'][0]))
                        g2 = fn.render(fn.deref(init['args'][0]), resolve=True)
                        if g in (atxt, atxt_res) or g2 in (atxt, atxt_res):
                            if any(f[0] == dd['n'] and f[1] == '!=' and f[2] == '0' for f in fs):
                                ok = 'dominated by %s != 0 with %s = glyphSafe(%s)' % (dd['n'], dd['n'], g)
        if ok:
            run.held('ADVIDX', inst, fn.loc(e), ok)
        else:
            run.violated('ADVIDX', inst, fn.loc(e), 'Font::advance(%s) indexes m_advances[] (one cell per glyph of the face) but nothing on the way here establishes '
                         '%s < numGlyphs: a slot whose glyph id the font does not contain reads and may write beyond the cache' % (atxt, atxt),
                         {'facts': [f[:3] for f in fs][:12]})


def attrstride(run, rule='GROWTH'):
    """GROWTH: Segment::newSlot carves one block of user attributes into per-slot pieces: the distance between the pieces of consecutive
    slots is the per-slot size the block was allocated with -- the same expression, in the plain build and in the build with tracing
    compiled in (where a logged segment keeps one more cell per slot).  A stride taken from another source agrees only as long as
    nobody is logging: then the last cell of each slot is the first cell of the next."""
    for cfg in ('Q0', 'traceseg'):
        fx = run.facts(cfg)
        fn = fx.one('graphite2::Segment::newSlot')
        inst = '[%s] the attribute blocks of consecutive slots are one per-slot size apart' % cfg

        def norm(x, depth=0):
            # a local that only ever holds its initialiser, and a getter that only returns one expression, stand for that expression
            x = fn.strip_all_casts(fn.N(x))
            if depth < 4 and x['k'] == 'DeclRefExpr' and x.get('vid') in fn.const_init:
                return norm(fn.const_init[x['vid']], depth + 1)
            if depth < 4 and x['k'] == 'CXXMemberCallExpr' and not x.get('args') and fn.render(fn.N(x['obj'])) in ('this', '*this') if x.get('obj') is not None else False:
                cs = fx.fns_named(x.get('fq') or '')
                if len(cs) >= 1:
                    rets = [r_ for _, r_ in cs[0].elements() if r_['k'] == 'ReturnStmt' and r_.get('c')]
                    if len(rets) == 1 and len(list(cs[0].elements())) < 12:
                        return cs[0].render(cs[0].strip_all_casts(cs[0].N(rets[0]['c'][0]))).replace(' ', '')
            return fn.render(x).replace(' ', '')
        allocs = []
        for _, e in fn.elements():
            if e['k'] == 'DeclStmt':
                for d in e.get('decls', []):
                    if d.get('init') is None:
                        continue
                    r = fn.strip_all_casts(fn.N(d['init']))
                    if r['k'] == 'CallExpr' and (r.get('fq') or '').split('<')[0] in ('graphite2::grzeroalloc', 'graphite2::gralloc') and 'short' in (d.get('t') or '') and r.get('args'):
                        a = fn.strip_all_casts(fn.N(r['args'][0]))
                        if a['k'] == 'BinaryOperator' and a['op'] == '*':
                            allocs.append((d, [norm(x) for x in a['c']]))
        strides = []
        for _, e in fn.elements():
            if e['k'] in ('CXXConstructExpr', 'CXXTemporaryObjectExpr') and (e.get('fq') or '').endswith('Slot::Slot'):
                args = e.get('args') if e.get('args') is not None else (e.get('c') or [])
                for a in args:
                    if a is None:
                        continue
                    x = fn.strip_all_casts(fn.N(a))
                    if x['k'] == 'BinaryOperator' and x['op'] == '+':
                        for side in x['c']:
                            m = fn.strip_all_casts(fn.N(side))
                            if m['k'] == 'BinaryOperator' and m['op'] == '*':
                                strides.append((e, [norm(y) for y in m['c']]))
        if len(allocs) != 1 or len(strides) != 1:
            run.broken(rule, inst, 'the attribute block allocation (count * size) / the per-slot placement (block + i * size) of newSlot were not recognised (%d, %d)' % (len(allocs), len(strides)), fn.where())
            continue
        # with tracing compiled in, Segment::freeSlot bumps a generation counter in the cell BEHIND the user attributes of a logged
        # segment: `++userAttrs()[numUser]` under `logger()`.  newSlot then makes room for it under the same test
        if cfg != 'Q0':
            fs = fx.one('graphite2::Segment::freeSlot')
            bump = [e_ for _, e_ in fs.elements() if e_['k'] == 'UnaryOperator' and e_.get('op') in ('pre++', 'post++') and 'userAttrs()' in fs.render(e_) and 'numUser()' in fs.render(e_)]
            if bump:
                room = [e_ for _, e_ in fn.elements() if e_['k'] in ('UnaryOperator', 'CompoundAssignOperator') and e_.get('op') in ('pre++', 'post++', '+=')
                        and any(f_[0].endswith('logger()') and f_[1] == '!=' for f_ in dom.facts_at(fn, e_['i']))
                        and fn.render(fn.strip(e_['c'][0])).replace(' ', '') in [x_ for x_ in allocs[0][1]]]
                if not room:
                    run.violated(rule, inst, fn.loc(allocs[0][0]) if isinstance(allocs[0][0], dict) and 'ln' in allocs[0][0] else fn.where(), 'with tracing compiled in, Segment::freeSlot increments `%s` when the face has a logger, '
                                 'one cell behind the user attributes; newSlot no longer allocates that cell (no `++size` under logger() on the per-slot size %s): every freeSlot of a logged segment '
                                 'writes into user attribute 0 of the next slot' % (fs.render(bump[0]), allocs[0][1]))
                    continue
        common = set(allocs[0][1]) & set(strides[0][1])
        if common:
            run.held(rule, inst, fn.loc(strides[0][0]), 'allocated as %s, placed at i * %s' % (' * '.join(allocs[0][1]), sorted(common)[0]))
        else:
            run.violated(rule, inst, fn.loc(strides[0][0]), 'the block is allocated as %s cells, but slot i gets the piece at %s: the two sizes are different expressions%s' %
                         (' * '.join(allocs[0][1]), ' * '.join(strides[0][1]), ' -- with tracing compiled in and a logger attached the block holds one more cell per slot than the stride steps over, so the '
                          'last cell of every slot (the debug counter freeSlot increments) is the first user attribute of the next slot' if cfg != 'Q0' else ''))


def segctor_exec(run, fx):
    """GROWTH: Segment::newSlot carves a block of m_bufSize slots and indexes newSlots[m_bufSize - 1]: it must never run with
    m_bufSize == 0.  The constructor of Segment is interpreted (rules/ordint.py; member initialisers and body from its own CFG, the
    bit helpers from bits.h) for texts of 0, 1, 2, 5 and 64 characters: at the moment of its own newSlot() call m_bufSize is at least
    1.  (The block size of LATER blocks, log2(n) + 1, wraps to 0 for an empty text; that value may only be stored after the first block
    exists -- an empty segment never needs a second one.)"""
    from . import ordint as O
    PG = 'graphite2::Segment::'
    ctors = [f for f in fx.fns_named('graphite2::Segment::Segment') if not f.f.get('implicit') and len(f.f.get('params') or []) == 4]
    inst = 'the constructor\'s own newSlot() call sees a block size of at least one (interpreted)'
    if len(ctors) != 1:
        run.broken('GROWTH', inst, 'Segment::Segment(numchars, face, script, dir) not found')
        return
    fn = ctors[0]
    grec = fx.record('graphite2::Segment')
    cases = 0
    try:
        for n in (0, 1, 2, 5, 64):
            seg = O.Rec()
            for f in grec['fields']:
                seg[PG + f['n']] = None
            seen = []

            def newslot(I, f, e, obj, a, seen=seen):
                seen.append(obj[PG + 'm_bufSize'])
                return O.Ptr(O.Rec({'#slot': 1}))
            nat = {'graphite2::Segment::newSlot': newslot, 'graphite2::Segment::freeSlot': lambda I, f, e, obj, a: None,
                   'graphite2::Face::chooseSilf': lambda I, f, e, obj, a: O.Ptr(O.Rec({'#silf': 1})),
                   'graphite2::Silf::flags': lambda I, f, e, obj, a: 0, 'graphite2::Silf::aPassBits': lambda I, f, e, obj, a: 0,
                   'graphite2::CharInfo::CharInfo': lambda I, f, e, obj, a: O.Rec(),
                   '__builtin_popcount': lambda I, f, e, obj, a: bin(I.rv(a[0]) & 0xFFFFFFFF).count('1'),
                   '__builtin_popcountl': lambda I, f, e, obj, a: bin(I.rv(a[0]) & 0xFFFFFFFFFFFFFFFF).count('1'),
                   '__builtin_popcountll': lambda I, f, e, obj, a: bin(I.rv(a[0]) & 0xFFFFFFFFFFFFFFFF).count('1'),
                   'graphite2::Vector<graphite2::Slot *>::Vector': lambda I, f, e, obj, a: O.Vec(),
                   'graphite2::Vector<short *>::Vector': lambda I, f, e, obj, a: O.Vec(),
                   'graphite2::Vector<graphite2::SlotJustify *>::Vector': lambda I, f, e, obj, a: O.Vec(),
                   'graphite2::Vector<graphite2::FeatureVal>::Vector': lambda I, f, e, obj, a: O.Vec()}
            it = O.Interp(fx, natives=nat)
            it.MAX_STEPS = 6000
            cases += 1
            it.call(fn, seg, [n, O.Ptr(O.Rec({'#face': 1})), 0, 0])
            if len(seen) != 1:
                run.broken('GROWTH', inst, 'the constructor calls newSlot() %d times for a text of %d characters' % (len(seen), n), fn.where())
                return
            if not isinstance(seen[0], int) or seen[0] < 1:
                run.violated('GROWTH', inst, fn.where(), 'for a text of %d character(s) Segment::Segment calls newSlot() while m_bufSize is %r: newSlot allocates zero slots and writes newSlots[m_bufSize - 1], '
                             'in front of a zero-byte block (gr_make_seg with nChars = 0)' % (n, seen[0]))
                return
    except O.Violation as v:
        run.violated('GROWTH', inst, fn.where(), '%s (%s)' % (v.what, v.loc))
        return
    except AnalysisBroken as ex:
        run.broken('GROWTH', inst, str(ex), fn.where())
        return
    run.held('GROWTH', inst, fn.where(), '%d abstract executions' % cases)


def kerninit_exec(run, fx):
    """GROWTH / "no undefined behaviour or crash for any slot attributes": KernCollider::initSlot cuts the height of the glyph into
    horizontal slices whose width it derives from the collision margin -- a slot attribute any rule can set, zero and negative values
    included.  The function is interpreted (rules/ordint.py, floats as exact constants) on a fresh collider for margins of -50, 0, 1,
    10 and 100 units and glyph heights of 0, 100 and 2000 units: no float is divided by zero, no quotient outside the int range is
    converted, and the number of slices asked of the edge vector stays proportionate (at most (height + 2*max(margin,10) + 2) / 4 + 2:
    a slice is never thinner than 10/1.5/1.5 units)."""
    from . import ordint as O
    fn = fx.one('graphite2::KernCollider::initSlot')
    PK, PP = 'graphite2::KernCollider::', 'graphite2::Position::'
    rec = fx.record('graphite2::KernCollider')
    inst = 'KernCollider::initSlot slices the glyph with a positive slice width whatever the margin (interpreted)'
    P = O.Poly.of
    cases = 0
    try:
        for margin in (-50, 0, 1, 10, 100):
            for height in (0, 100, 2000):
                kc = O.Rec()
                for f in rec['fields']:
                    kc[PK + f['n']] = O.Ptr(None) if f.get('ptr') else 0
                kc[PK + '_miny'], kc[PK + '_maxy'] = P(-10 ** 38), P(10 ** 38)
                kc[PK + '_sliceWidth'] = P(0)
                kc[PK + '_xbound'] = P(0)
                kc[PK + '_mingap'] = P(0)
                kc[PK + '_margin'] = P(0)
                for nm in ('_limit',):
                    kc[PK + nm] = O.Rec({'graphite2::Rect::bl': O.Rec({PP + 'x': P(0), PP + 'y': P(0)}), 'graphite2::Rect::tr': O.Rec({PP + 'x': P(0), PP + 'y': P(0)})})
                for nm in ('_offsetPrev', '_currShift'):
                    kc[PK + nm] = O.Rec({PP + 'x': P(0), PP + 'y': P(0)})
                edges = O.Vec([])
                kc[PK + '_edges'] = edges
                for nm in ('_slotNear', '_nearEdges'):
                    if PK + nm in kc:
                        kc[PK + nm] = O.Vec([])
                slot = O.Rec({'#slot': 1})
                zero = lambda: O.Rec({PP + 'x': P(0), PP + 'y': P(0)})
                nat = {'graphite2::Segment::getFace': lambda I, f, e, obj, a: O.Ptr(O.Rec({'#face': 1})),
                       'graphite2::Face::glyphs': lambda I, f, e, obj, a: O.Rec({'#gc': 1}),
                       'graphite2::GlyphCache::check': lambda I, f, e, obj, a: True,
                       'graphite2::GlyphCache::getBoundingBBox': lambda I, f, e, obj, a, h=height: O.Rec({'graphite2::BBox::xi': P(0), 'graphite2::BBox::xa': P(500), 'graphite2::BBox::yi': P(0), 'graphite2::BBox::ya': P(h)}),
                       'graphite2::Slot::attachedTo': lambda I, f, e, obj, a: O.Ptr(None),
                       'graphite2::Slot::nextInCluster': lambda I, f, e, obj, a: O.Ptr(None),
                       'graphite2::Slot::gid': lambda I, f, e, obj, a: 5,
                       'graphite2::Slot::origin': lambda I, f, e, obj, a: zero(),
                       'graphite2::Segment::collisionInfo': lambda I, f, e, obj, a: O.Ptr(O.Rec({'#coll': 1})),
                       'graphite2::SlotCollision::shift': lambda I, f, e, obj, a: zero(),
                       'get_edge': lambda I, f, e, obj, a: P(0), 'graphite2::get_edge': lambda I, f, e, obj, a: P(0), '(anonymous namespace)::get_edge': lambda I, f, e, obj, a: P(0)}
                it = O.Interp(fx, natives=nat)
                it.MAX_STEPS = 400000
                it.max_fill = 4000
                it.exact_floats = True
                it.poly_sign = {}
                cases += 1
                desc = 'collision margin %d, glyph height %d' % (margin, height)
                it.call(fn, kc, [O.Ptr(O.Rec({'#seg': 1})), O.Ptr(slot), O.LV([kc[PK + '_limit']], 0), P(margin), O.LV([zero()], 0), O.LV([zero()], 0), 0, P(0), P(height), O.Ptr(None)])
                bound = (height + 2 * max(margin, 10) + 2) // 4 + 2
                if len(edges.items) > bound:
                    run.violated('GROWTH', inst, fn.where(), '%s: %d slices are allocated, more than %d (a slice %s units high)' % (desc, len(edges.items), bound, kc[PK + '_sliceWidth']))
                    return
                sw = O.Poly.of(kc[PK + '_sliceWidth']).const()
                if sw is None or sw <= 0:
                    run.violated('GROWTH', inst, fn.where(), '%s: the slice width is %s afterwards: KernCollider::mergeSlot divides by it' % (desc, kc[PK + '_sliceWidth']))
                    return
    except O.Violation as v:
        run.violated('GROWTH', inst, fn.where(), 'collision margin %d, glyph height %d: %s (%s) -- a rule sets the margin attribute to any value; the int conversion of an infinite quotient is undefined and the '
                     'edge vector is asked for an absurd size' % (margin, height, v.what, v.loc))
        return
    except AnalysisBroken as ex:
        run.broken('GROWTH', inst, str(ex), fn.where())
        return
    run.held('GROWTH', inst, fn.where(), '%d margin / height combinations' % cases)


def traceslotidx(run):
    """SLOTREF in the build with tracing compiled in (configuration tracepass): the logging helpers of Pass address the slot map relative
    to the context cell -- `input_slot(slots, -n)` is `slots[slots.context() - n]`.  Every such call with a non-zero offset -n is
    dominated by the test n <= slots.context() on the same map (what Pass::testConstraint guarantees on the shaping path has to be
    re-tested here: the trace lists rules that were *considered*, including those whose pre-context does not fit at the start of the
    text)."""
    fx = run.facts('tracepass')
    inst = '[tracepass] input_slot / output_slot are called with an offset that stays inside the slot map'
    n = nz = 0
    for fn in fx.all_fns():
        for _, e in fn.elements():
            if e['k'] != 'CallExpr' or (e.get('fq') or '').split('::')[-1] not in ('input_slot', 'output_slot') or len(e.get('args') or []) != 2:
                continue
            n += 1
            off = fn.strip_all_casts(fn.N(e['args'][1]))
            if off.get('v') is not None and off['v'] >= 0:
                continue
            nz += 1
            neg = off if not (off['k'] == 'UnaryOperator' and off.get('op') == '-') else fn.strip_all_casts(fn.N(off['c'][0]))
            if neg is off:
                run.violated('SLOTREF', inst, fn.loc(e), '%s calls %s with the offset `%s`, which is not of the form -n with a tested n' % (fn.q, e['fq'].split('::')[-1], fn.render(off)))
                return
            want_l = fn.render(neg)
            mp = fn.render(fn.strip_all_casts(fn.N(e['args'][0])))
            ok = False
            for f in dom.facts_at(fn, e['i']):
                if f[0] == want_l and f[1] in ('<=', '<') and f[2].replace(' ', '') in ((mp + '.context()').replace(' ', ''), (mp + '->context()').replace(' ', '')):
                    ok = True
                if f[2] == want_l and f[1] in ('>=', '>') and f[0].replace(' ', '') in ((mp + '.context()').replace(' ', ''), (mp + '->context()').replace(' ', '')):
                    ok = True
            if not ok:
                run.violated('SLOTREF', inst, fn.loc(e), '%s calls %s(%s, -%s) without a dominating test %s <= %s.context(): for a considered rule that needs more pre-context than the text has in '
                             'front of the current slot the index is negative -- the trace reads a cell in front of the slot map (a null slot at the start of the text) while gr_make_seg runs with '
                             'logging on' % (fn.q, e['fq'].split('::')[-1], mp, want_l, want_l, mp))
                return
    if n < 3 or nz < 1:
        run.broken('SLOTREF', inst, 'expected the input_slot / output_slot calls of the tracing helpers in Pass.cpp (found %d, %d with a negative offset)' % (n, nz), '')
        return
    run.held('SLOTREF', inst, '', '%d calls, %d with a negative offset, each under its test' % (n, nz))


def indexfacts(run, fx, rule='CONST'):
    """two subscripts that every shaping and justification call goes through, each dominated by its own bound (dom.facts_at):
      * GlyphCache::glyph(gid): every `_glyphs[gid]` / `_boxes[gid]` with the parameter as index is under gid < numGlyphs() -- callers such
        as Segment::theGlyphBBoxTemporary (justify's trailing-whitespace loop) hand over raw glyph ids;
      * Silf::runGraphite(seg, first, last): every `m_passes[i]` is under i < lastPass (an ordering, not `!=`: Segment::justify calls it
        with the range (justification pass, positioning pass), which the loader only accepts inverted or empty -- with `!=` the loop
        runs on past m_passes[numPasses])."""
    import re
    for q, arrs, want, why in (('graphite2::GlyphCache::glyph', ('_glyphs', '_boxes'), 'numGlyphs',
                                'a glyph id at or beyond the glyph count (a cmap or pseudo-glyph entry can produce one) indexes behind the cache'),
                               ('graphite2::Silf::runGraphite', ('m_passes',), 'lastPass',
                                'for an inverted pass range (Segment::justify: justification pass above the positioning pass) the loop runs past the last pass')):
        fn = fx.one(q)
        inst = '%s: every %s[..] subscript is under its bound' % (q.split('graphite2::')[-1], ' / '.join(arrs))
        n, bad = 0, None
        for _, e in fn.elements():
            if e['k'] != 'ArraySubscriptExpr':
                continue
            base = fn.render(fn.strip_all_casts(fn.N(e['c'][0])))
            if not any(base.endswith(a) for a in arrs):
                continue
            ix = fn.strip_all_casts(fn.N(e['c'][1]))
            if ix.get('v') is not None:
                continue
            n += 1
            it_ = fn.render(ix)
            wants = (want, '_num_glyphs') if want == 'numGlyphs' else (want,)          # the getter, or the member it returns
            ok = any(f[0] == it_ and f[1] == '<' and any(w_ in f[2] for w_ in wants) for f in dom.facts_at(fn, e['i']))
            if not ok:
                bad = bad or (e, it_, base)
        if n < 1:
            run.broken(rule, inst, 'no variable subscript of %s found in %s' % (arrs, q), fn.where())
        elif bad:
            e, it_, base = bad
            run.violated(rule, inst, fn.loc(e), '%s[%s] is not dominated by %s < %s: %s' % (base, it_, it_, want + ('()' if want == 'numGlyphs' else ''), why))
        else:
            run.held(rule, inst, fn.where(), '%d subscript(s)' % n)


def _counts_up(fn, vid, K):
    """the local is initialised with a constant in 0..K and otherwise only written by ++ / += 1"""
    init_ok, other = False, False
    for _, e in fn.elements():
        if e['k'] == 'DeclStmt':
            for d in e.get('decls', []):
                if d.get('vid') == vid:
                    v = fn.strip_all_casts(fn.N(d['init'])).get('v') if d.get('init') is not None else None
                    init_ok = isinstance(v, int) and 0 <= v <= K
        elif e['k'] == 'UnaryOperator' and e.get('op') in ('++', 'pre++', 'post++', '++pre', '++post') and fn.strip_all_casts(fn.N(e['c'][0])).get('vid') == vid:
            continue
        elif e['k'] in ('BinaryOperator', 'CompoundAssignOperator', 'UnaryOperator') and e.get('c') and fn.strip_all_casts(fn.N(e['c'][0])).get('vid') == vid:
            if e['k'] == 'CompoundAssignOperator' and e.get('op') == '+=' and fn.strip_all_casts(fn.N(e['c'][1])).get('v') == 1:
                continue
            if e['k'] == 'UnaryOperator' and '++' in (e.get('op') or ''):
                continue
            if e['k'] == 'BinaryOperator' and e.get('op') != '=':
                continue
            if e['k'] == 'UnaryOperator' and '--' not in (e.get('op') or '') and e.get('op') != '&':
                continue
            other = True
    return init_ok and not other


def localarrays(run, fx, rule='CONST'):
    """no fixed-size LOCAL array is indexed by a value the font controls: every subscript of a local `T a[N]` with a non-constant index
    is dominated by a comparison of that index with a constant <= N (expected number of such subscripts on the pinned tree: none -- the
    per-level totals of Segment::justify live in a Vector sized by the font's level count; a `JustifyTotal stats[4]` indexed by the
    level loop overflows the stack for a font that declares more levels)."""
    import re
    n, bad = 0, None
    for fn in fx.all_fns():
        if not fn.file.startswith('src/') or fn.f.get('implicit'):
            continue
        for _, e in fn.elements():
            if e['k'] != 'ArraySubscriptExpr':
                continue
            b = fn.strip_all_casts(fn.N(e['c'][0]))
            if b['k'] != 'DeclRefExpr' or b.get('dk') != 'Var' or b.get('vid') is None or b.get('pi') is not None:
                continue
            m = re.search(r'\[(\d+)\]$', (b.get('t') or '').strip())
            if not m:
                continue
            ix = fn.strip_all_casts(fn.N(e['c'][1]))
            if ix.get('v') is not None:
                continue
            n += 1
            N = int(m.group(1))
            it_ = fn.render(ix)
            ok = False
            for f in dom.facts_at(fn, e['i']):
                if f[0] == it_ and f[2].lstrip('-').isdigit():
                    k_ = int(f[2])
                    if (f[1] == '<' and k_ <= N) or (f[1] == '<=' and k_ < N) or (f[1] == '==' and 0 <= k_ < N):
                        ok = True
                    if f[1] == '!=' and 0 <= k_ <= N and ix.get('k') == 'DeclRefExpr' and ix.get('vid') is not None and _counts_up(fn, ix['vid'], k_):
                        ok = True           # `for (i = c0; i != K; ++i)`: a counter that starts at or below K and only ever goes up by one
            if not ok:
                bad = bad or (fn, e, b, N, it_)
    inst = 'no fixed-size local array is indexed without a constant bound'
    if bad:
        fn, e, b, N, it_ = bad
        run.violated(rule, inst, fn.loc(e), '%s indexes the local array `%s` (%d elements) with `%s`, and no dominating comparison bounds that index by a constant <= %d: a count the font controls '
                     'walks off the end of a stack array' % (fn.q.split('graphite2::')[-1], fn.render(b), N, it_, N))
    else:
        run.held(rule, inst, '', '%d variable subscript(s) of fixed-size local arrays, all bounded' % n, n > 0)


def run(run):
    vm = R.get_vm(run)
    fx = vm.fx
    R.vmstack(run, vm)
    R.stackmodel(run, vm)
    R.paramsz(run, vm)
    R.divguard(run, vm)
    R.nosignedovf(run, vm)
    slotref(run, vm)
    userattr(run, fx)
    growth(run, vm)
    segctor_exec(run, fx)
    if not run.cfg_tag:
        attrstride(run)
        try:
            traceslotidx(run)
        except AnalysisBroken as ex:
            run.broken('SLOTREF', '[tracepass] input_slot / output_slot offsets', str(ex), '')
    from . import c18 as c18_
    c18_.applyval_exec(run, fx, 'GROWTH')        # SET_FEAT grows the segment's feature words through applyValToFeature: no store behind the block (shared with C18)
    const_(run, vm)
    localarrays(run, fx)
    indexfacts(run, fx)
    from . import c01 as c01g_
    from .util import OnlyRules as _OnlyG
    c01g_.glatend(_OnlyG(run, ['VALIDATOR'], {'VALIDATOR': 'CONST'}, soft=True), fx)        # a lazily loaded glyph's attribute runs are read inside the Glat table, during gr_make_seg (shared with C01)
    from . import validators as validators_
    validators_.check(run, fx, 'CONST')            # 'whatever ... state tables, classes or glyph attributes the accepted font contains': the loader's tabled rejections are what the run-time indexing relies on (shared with C01)
    try:
        from . import c04 as c04_
        cases_, bad_ = c04_.listops_exec(run, fx)          # a sibling chain that becomes cyclic makes setAttr / finalise walk for ever (shared with C04)
        if bad_:
            run.violated('RECURSION', 'child / removeChild on every small chain (interpreted)', fx.one('graphite2::Slot::child').where(), bad_)
        else:
            run.held('RECURSION', 'child / removeChild on every small chain (interpreted)', fx.one('graphite2::Slot::child').where(), '%d abstract executions' % cases_)
    except AnalysisBroken as ex:
        run.broken('RECURSION', 'child / removeChild on every small chain (interpreted)', str(ex), '')
    from .util import share as _share
    if not getattr(run, '_sharing', False):
        run._sharing = True
        try:
            _share(run, 'c04', ['DETACH'], 'FREEDSLOT')        # a deleted slot that is never collected is later walked through its parent's child chain (shared with C04)
            _share(run, 'c12', ['NULSTOP', 'ADVANCEBOUND'], 'CONST')      # reading the text stays inside the caller's buffer (shared with C12)
            _share(run, 'c17', ['ZONESET'], 'CONST')         # the exclusion vector is walked with iterators that survive its own insertions (shared with C17)
            _share(run, 'c19', ['REVERSEPAIR'], 'LOOPLIMIT')   # the slot chain stays a NULL-terminated list: every loop over next() ends (shared with C19)
            _share(run, 'c19', ['UNDO'], 'CONST')            # justification records and their pool (shared with C19)
        finally:
            run._sharing = False
    recursion(run, fx)
    looplimit(run, fx)
    kerninit_exec(run, fx)
    from . import ordint as O_
    try:
        cases, bad = adjustexec(run, fx)
        aj = fx.one('graphite2::Pass::adjustSlot')
        if bad:
            run.violated('LOOPLIMIT', 'highpassed() only beyond the high-water slot (adjustSlot interpreted)', aj.where(), bad)
        else:
            run.held('LOOPLIMIT', 'highpassed() only beyond the high-water slot (adjustSlot interpreted)', aj.where(), '%d abstract executions' % cases)
    except O_.AnalysisBroken as ex:
        run.broken('LOOPLIMIT', 'highpassed() only beyond the high-water slot (adjustSlot interpreted)', str(ex), '')
    advidx(run, fx)
    derived(run, fx)
    from . import c19 as c19_
    c19_.poolsize(run, fx)           # gr_slot_attr / rule code reading or writing a justification value stays inside the slot's record (shared with C19)
    inst_ = 'newSlot: the free list is exactly the rest of the new block (interpreted)'
    ns_ = fx.one('graphite2::Segment::newSlot')
    try:
        cases, bad = newslot_exec(run, fx)
        if bad:
            run.violated('GROWTH', inst_, ns_.where(), bad)
        else:
            run.held('GROWTH', inst_, ns_.where(), '%d abstract executions' % cases)
    except O_.AnalysisBroken as ex:
        run.broken('GROWTH', inst_, str(ex), ns_.where())
    from . import c03, c16, c10
    try:
        c10.boxcount(run, fx)
        c10.boxsize(run, fx)                     # the collision-box records are written within what was allocated for them (shared with C10)
    except AnalysisBroken as ex:
        run.broken('LOADERSIB', 'box records', str(ex))
    c03.freedslot(run, fx, 'FREEDSLOT')          # "never causes ... undefined behaviour": no use of a slot after it went back to the pool (shared with C03)
    c16.ownlocal(run, fx, None)                  # "or a leak": a failed gr_make_seg frees what it allocated (shared with C16)
    from . import c13
    c13.cmapbound(run, fx)
    run.assume('allocation failure is outside the quantifier (inputs, programs): null returns of the allocators are exempt exits')


def newslot_exec(run, fx, maxb=4):
    """GROWTH by bounded execution: Segment::newSlot with an empty free list is interpreted for every block size 1..maxb (one-character
    texts get blocks of ONE slot) and 0..2 user attributes per slot; the allocators are natives handing out exactly the requested number
    of cells.  The slot handed out is the first of the block with a null next; the free list is the REST of the block, every member
    inside the block, ending in null (a block of one slot leaves the list empty); each slot owns its own stretch of the attribute
    block.  With a non-empty free list the head is handed out, unlinked, and the list advances."""
    from . import ordint as O
    fn = fx.one('graphite2::Segment::newSlot')
    PS, PG, PF = 'graphite2::Slot::', 'graphite2::Segment::', 'graphite2::Silf::'
    cases = 0
    for bsz in range(1, maxb + 1):
        for nuser in range(0, 3):
            blocks = []

            def alloc(I, f, e, obj, a, blocks=blocks):
                n = I.rv(a[0])
                if not isinstance(n, int) or n < 0 or n > 64:
                    raise O.Violation('an allocation of %r cells is requested' % (n,), f.loc(e))
                t = e.get('t') or ''
                v = O.Vec([O.Rec({'#': len(blocks) * 100 + i}) for i in range(n)]) if 'Slot' in t else O.Vec([0] * n)
                blocks.append((t, v))
                return O.It(v, 0)
            silf = O.Rec({PF + 'm_aUser': nuser})
            seg = O.Rec({PG + 'm_freeSlots': O.Ptr(None), PG + 'm_numGlyphs': 1, PG + 'm_numCharinfo': 1, PG + 'm_silf': O.Ptr(silf), PG + 'm_bufSize': bsz,
                         PG + 'm_slots': O.Vec(), PG + 'm_userAttrs': O.Vec(), PG + 'm_face': O.Ptr(O.Rec())})
            nat = {'graphite2::Silf::numUser': lambda I, f, e, obj, a: nuser, 'free': lambda I, f, e, obj, a: None,
                   'graphite2::Face::logger': lambda I, f, e, obj, a: O.Ptr(None)}        # tracing builds ask for the logger: none is active
            for k_ in [k for k in fx.raw['fn_by_q'] if k.startswith('graphite2::grzeroalloc')]:
                nat[k_] = alloc
            it = O.Interp(fx, natives=nat)
            it.MAX_STEPS = 6000
            desc = 'newSlot on an empty free list, block size %d, %d user attribute(s)' % (bsz, nuser)
            cases += 1
            try:
                r = it.call(fn, seg, [])
            except O.Violation as v:
                return cases, '%s: %s (%s)' % (desc, v.what, v.loc)
            sv = [v for t, v in blocks if 'Slot' in t]
            if len(sv) != 1 or not isinstance(r, O.It) or r.vec is not sv[0] or r.idx != 0:
                return cases, '%s: the slot handed out is not the first slot of the one new block' % desc
            vec = sv[0]
            nx = vec.items[0].get(PS + 'm_next')
            if not (isinstance(nx, O.Ptr) and nx.rec is None):
                return cases, '%s: the slot handed out still has a next link into the block' % desc
            seen, cur = [], seg[PG + 'm_freeSlots']
            while not (isinstance(cur, O.Ptr) and cur.rec is None):
                if not isinstance(cur, O.It) or cur.vec is not vec or not (0 <= cur.idx < len(vec.items)):
                    return cases, '%s: the free list reaches %s, which is not a slot of the block of %d slot(s) just allocated (the next newSlot hands out memory behind the block)' % (
                        desc, ('slot index %d' % cur.idx) if isinstance(cur, O.It) else type(cur).__name__, bsz)
                if cur.idx in seen or len(seen) > bsz:
                    return cases, '%s: the free list is cyclic' % desc
                seen.append(cur.idx)
                cur = vec.items[cur.idx].get(PS + 'm_next')
            if seen != list(range(1, bsz)):
                return cases, '%s: the free list holds the slots %s of the block, expected %s' % (desc, seen, list(range(1, bsz)))
            if nuser:
                av = [v for t, v in blocks if 'Slot' not in t]
                ua = [s_.get(PS + 'm_userAttr') for s_ in vec.items]
                if len(av) != 1 or any(not (isinstance(u, O.It) and u.vec is av[0] and u.idx == i * nuser) for i, u in enumerate(ua)):
                    return cases, '%s: the slots do not each own their stretch of the attribute block' % desc
    return cases, None
