"""CONSTLOOP: how many times can a call be executed on one run through a function whose loop is guarded by a constant-initialised
local counter?  Bounded abstract execution over the CFG: integer locals initialised from constants are tracked exactly (with
their C type's wrap-around), everything else is unknown; a branch whose condition is decided by tracked values is followed, any
other branch forks.  The result is the maximum number of executions of the callee over all abstract paths, or None when some path
exceeds `limit` (the counter does not bound the loop).  Nothing is run: every path is an abstract one."""
from .cfg import int_type


def max_calls(fn, callee_q, limit=200):
    width = {}
    for _, e in fn.elements():
        if e['k'] == 'DeclStmt':
            for d in e.get('decls', []):
                it = int_type((d.get('t') or '').replace('const ', ''))
                if it and d.get('vid') is not None:
                    width[d['vid']] = it

    def wrap(vid, v):
        it = width.get(vid)
        if not it or v is None:
            return v
        bits, signed = it
        v &= (1 << bits) - 1
        if signed and v >= 1 << (bits - 1):
            v -= 1 << bits
        return v

    def ev_block(b, env):
        """returns (val map, number of callee calls in the block)"""
        val, calls = {}, 0
        for e in fn.blocks[b]['el']:
            k, i = e['k'], e['i']
            c = e.get('c') or []
            g = lambda j: val.get(c[j]) if len(c) > j and isinstance(c[j], int) else None
            if k == 'DeclRefExpr':
                val[i] = ('k', e['v']) if e.get('v') is not None else ('lv', e.get('vid'))
            elif e.get('v') is not None:
                val[i] = ('k', e['v'])
            elif k.endswith('CastExpr') or k in ('ParenExpr', 'ExprWithCleanups', 'ConstantExpr'):
                v = g(0)
                if v and v[0] == 'lv' and e.get('ck') == 'LValueToRValue':
                    x = env.get(v[1])
                    v = ('k', x) if x is not None else None
                val[i] = v
            elif k == 'UnaryOperator' and e['op'] in ('pre++', 'post++', 'pre--', 'post--'):
                v = g(0)
                if v and v[0] == 'lv' and env.get(v[1]) is not None:
                    d = 1 if '++' in e['op'] else -1
                    old = env[v[1]]
                    env[v[1]] = wrap(v[1], old + d)
                    val[i] = ('k', old if e['op'].startswith('post') else env[v[1]])
                elif v and v[0] == 'lv':
                    env[v[1]] = None
            elif k == 'UnaryOperator' and e['op'] == '!':
                v = g(0)
                val[i] = ('k', int(not v[1])) if v and v[0] == 'k' else None
            elif k in ('BinaryOperator', 'CompoundAssignOperator'):
                a, b_ = g(0), g(1)
                op = e['op']
                if op == '=' or k == 'CompoundAssignOperator':
                    if a and a[0] == 'lv':
                        if op == '=' and b_ and b_[0] == 'k':
                            env[a[1]] = wrap(a[1], b_[1])
                        elif k == 'CompoundAssignOperator' and b_ and b_[0] == 'k' and env.get(a[1]) is not None and op in ('+=', '-='):
                            env[a[1]] = wrap(a[1], env[a[1]] + (b_[1] if op == '+=' else -b_[1]))
                        else:
                            env[a[1]] = None
                    val[i] = a
                elif a and b_ and a[0] == 'k' and b_[0] == 'k' and op in ('==', '!=', '<', '>', '<=', '>=', '+', '-', '*', '&&', '||'):
                    x, y = a[1], b_[1]
                    val[i] = ('k', {'==': int(x == y), '!=': int(x != y), '<': int(x < y), '>': int(x > y), '<=': int(x <= y), '>=': int(x >= y),
                                    '+': x + y, '-': x - y, '*': x * y, '&&': int(bool(x) and bool(y)), '||': int(bool(x) or bool(y))}[op])
            elif k == 'DeclStmt':
                for d in e.get('decls', []):
                    if d.get('vid') is not None:
                        iv = d.get('init')
                        v = val.get(iv) if isinstance(iv, int) else None
                        if v is None and isinstance(iv, dict) and iv.get('v') is not None:
                            v = ('k', iv['v'])
                        env[d['vid']] = wrap(d['vid'], v[1]) if v and v[0] == 'k' else None
            elif k in ('CallExpr', 'CXXMemberCallExpr') and (e.get('fq') or '') == callee_q:
                calls += 1
        return val, calls

    best = {}
    worst = [0]
    over = [False]
    stack = [(fn.entry, {}, 0)]
    steps = 0
    while stack:
        b, env, n = stack.pop()
        steps += 1
        if steps > 200000:
            return None
        env = dict(env)
        val, calls = ev_block(b, env)
        n += calls
        if n > limit:
            over[0] = True
            continue
        key = (b, tuple(sorted((k_, v_) for k_, v_ in env.items() if v_ is not None)))
        if best.get(key, -1) >= n:
            continue
        best[key] = n
        worst[0] = max(worst[0], n)
        succ = fn.blocks[b]['succ']
        if b == fn.exit or not succ:
            continue
        if len(succ) == 1:
            if succ[0] is not None:
                stack.append((succ[0], env, n))
            continue
        cond = (fn.blocks[b].get('term') or {}).get('cond')
        cv = val.get(cond) if cond is not None else None
        if cv and cv[0] == 'lv':
            x = env.get(cv[1])
            cv = ('k', x) if x is not None else None
        if cv and cv[0] == 'k' and len(succ) == 2:
            s_ = succ[0] if cv[1] else succ[1]
            if s_ is not None:
                stack.append((s_, env, n))
        else:
            for s_ in succ:
                if s_ is not None:
                    stack.append((s_, env, n))
    return None if over[0] else worst[0]
