"""Shared facts about the bytecode VM: the opcode enum, both opcode tables (call-threaded:
function references; direct-threaded: label addresses), the handler functions and their
symbolic effects (vmsym)."""
from .facts import AnalysisBroken
from .vmsym import HandlerSym


class VM:
    def __init__(self, fx):
        self.fx = fx
        self.enum = fx.enum('graphite2::vm::opcode')
        self.opnum = {c['n']: c['v'] for c in self.enum['consts']}
        self.max_opcode = self.opnum.get('MAX_OPCODE')
        if self.max_opcode is None:
            raise AnalysisBroken('enum opcode: MAX_OPCODE not found')
        self.tables = {}
        for v in fx.raw['vars']:
            if v['n'] == 'opcode_table' and v['unit'] in ('call_machine.cpp', 'direct_machine.cpp'):
                self.tables[v['unit'].split('_')[0]] = self._rows(v)
        if 'call' not in self.tables or 'direct' not in self.tables:
            raise AnalysisBroken('opcode_table initialiser not found in both VM drivers: %s' % sorted(self.tables))
        self.handlers = {}
        for f in fx.all_fns():
            if f.f['unit'] == 'call_machine.cpp' and f.q.startswith('(anonymous namespace)::') \
                    and len(f.f['params']) == 4 and f.f['ret'] == 'bool' and f.file.endswith('opcodes.h'):
                self.handlers[f.q.split('::')[-1]] = f
        if len(self.handlers) < 50:
            raise AnalysisBroken('only %d opcode handlers found in call_machine.cpp' % len(self.handlers))
        self._sym = {}

    def _rows(self, v):
        init = v.get('init')
        if not init or init.get('k') != 'InitListExpr':
            raise AnalysisBroken('opcode_table in %s has no initialiser list' % v['unit'])
        rows = []
        for r in init['c']:
            if r.get('k') != 'InitListExpr' or len(r['c']) != 3:
                raise AnalysisBroken('opcode_table row of unknown shape in %s' % v['unit'])
            impl, psz, name = r['c']
            hs = []
            for x in impl['c']:
                hs.append(self._handler_ref(x))
            pv = psz.get('v')
            nm = name.get('s')
            if nm is None:
                for y in self._walk(name):
                    if y.get('s') is not None:
                        nm = y['s']
            rows.append({'impl': hs, 'param_sz': pv, 'name': nm})
        return rows

    def _walk(self, n):
        st = [n]
        while st:
            x = st.pop()
            if isinstance(x, dict):
                yield x
                st.extend(x.get('c') or [])

    def _handler_ref(self, x):
        for y in self._walk(x):
            if y.get('k') == 'AddrLabelExpr':
                return y['label']
            if y.get('k') == 'DeclRefExpr' and y.get('dk') == 'Function':
                return y['d'].split('::')[-1]
        for y in self._walk(x):
            if y.get('v') == 0:
                return None
        if x.get('k') in ('ImplicitValueInitExpr',):
            return None
        raise AnalysisBroken('opcode_table handler entry of unknown shape: %r' % (x.get('k'),))

    def sym(self, name):
        if name not in self._sym:
            self._sym[name] = HandlerSym(self.handlers[name]).run()
        return self._sym[name]

    def row(self, n, variant='call'):
        return self.tables[variant][n]
