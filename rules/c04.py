"""C04 -- glyph attachments always form a forest over the segment's own slots.

The forest property is an inductive invariant over run-time structures; decided here are its preservation obligations
at every mutator of the parent / child / sibling links:
  TREEWRITERS who may write m_parent / m_child / m_sibling (fields and setters)
  ATTACH      non-null attachTo() is reached only in setAttr(attach.to) and only after: not self / not the current
              parent / not a scratch copy, the old parent was detached, the candidate's ancestor walk did not find
              this slot, the chain-length guard, and other->child(this) succeeded
  LISTOPS     symbolic execution of Slot::child / sibling / removeChild: append only when absent, refuse self, and
              removeChild unlinks exactly the removed node (predecessor link := removed->sibling, removed->sibling := NULL)
  DETACH      Segment::freeSlot detaches from the parent, orphans only children that name this slot as parent (a scratch
              copy shares the child pointer of its original), PUT_COPY refuses attached slots and rebuilds the links, TEMP_COPY marks
  BASECHAIN   Segment::finalise reaches linkClusters whenever it positioned anything; linkClusters links bases only
"""
from . import dom
from . import vmrules as R
from .facts import AnalysisBroken
from .linksym import LinkSym, show, NULL
from .util import callers_of, calls_in, every_path_calls, field_writes

LEVEL = 'other'
EXPLANATION = ('Preservation obligations of the attachment forest, checked at each function that writes a parent/child/sibling link: '
               'dominance facts guarding the single non-null attachTo() site, symbolic execution of the three list primitives over '
               'an abstract heap (exact write sets per path), must-pass / guard rules for the detach paths of freeSlot and PUT_COPY, '
               'who-may-write on the three link fields, and the base-chain rebuild at finalisation.  The forest property itself under '
               'arbitrary rule sequences is an induction over these steps and is not mechanised.')
FLOORS = {'TREEWRITERS': 5, 'ATTACH': 7, 'LISTOPS': 9, 'DETACH': 12, 'BASECHAIN': 3}


def treewriters(run, fx):
    fw = field_writes(fx)
    allowed = {
        'graphite2::Slot::m_parent': {'graphite2::Slot::Slot', 'graphite2::Slot::attachTo', 'graphite2::Slot::set'},
        'graphite2::Slot::m_child': {'graphite2::Slot::Slot', 'graphite2::Slot::child', 'graphite2::Slot::firstChild', 'graphite2::Slot::removeChild', 'graphite2::Slot::set'},
        'graphite2::Slot::m_sibling': {'graphite2::Slot::Slot', 'graphite2::Slot::nextSibling', 'graphite2::Slot::removeChild', 'graphite2::Slot::set', 'graphite2::Slot::sibling'},
    }
    for field, ok in allowed.items():
        ws = set(fn.q for fn, e, k in fw.get(field, []))
        inst = 'writers of %s' % field.split('::')[-1]
        if ws - ok:
            run.violated('TREEWRITERS', inst, '', '%s is written by %s; only %s may' % (field, sorted(ws - ok), sorted(ok)))
        else:
            run.held('TREEWRITERS', inst, '', 'written only by %s' % sorted(ws), False)
    setters = {
        # PUT_COPY may only CLEAR the link, and only when the registration with the copied parent was refused (ATTACH/childreg checks that)
        'graphite2::Slot::attachTo': {'graphite2::Segment::freeSlot', 'graphite2::Slot::setAttr', '(anonymous namespace)::put_copy', '(anonymous namespace)::direct_run'},
        'graphite2::Slot::firstChild': {'graphite2::Segment::freeSlot', '(anonymous namespace)::put_copy', '(anonymous namespace)::direct_run'},
        'graphite2::Slot::nextSibling': {'graphite2::Slot::removeChild', '(anonymous namespace)::put_copy', '(anonymous namespace)::direct_run'},
        'graphite2::Slot::child': {'graphite2::Segment::appendSlot', 'graphite2::Slot::setAttr', '(anonymous namespace)::put_copy', '(anonymous namespace)::direct_run'},
        'graphite2::Slot::sibling': {'graphite2::Segment::linkClusters', 'graphite2::Slot::child', 'graphite2::Slot::sibling', 'gr_slot_linebreak_before'},
        'graphite2::Slot::removeChild': {'graphite2::Segment::freeSlot', 'graphite2::Slot::setAttr'},
    }
    for q, ok in setters.items():
        us = set(fn.q for fn, e in callers_of(fx, q) if e.get('args'))
        inst = 'callers of %s(Slot*)' % q.split('::')[-1]
        if us - ok:
            run.violated('TREEWRITERS', inst, '', '%s is called from %s, not one of the tabled tree mutators %s' % (q, sorted(us - ok), sorted(ok)))
        else:
            run.held('TREEWRITERS', inst, '', 'called only from %s' % sorted(us), False)
    # Slot::set (segment-cache leftover) must stay unreachable: nobody calls it
    if callers_of(fx, 'graphite2::Slot::set') or callers_of(fx, 'graphite2::Slot::update'):
        run.violated('TREEWRITERS', 'Slot::set unreachable', '', 'Slot::set / Slot::update (which copy links with index arithmetic) are called again: %s'
                     % [f.q for f, _ in callers_of(fx, 'graphite2::Slot::set') + callers_of(fx, 'graphite2::Slot::update')])
    else:
        run.held('TREEWRITERS', 'Slot::set unreachable', '', 'no caller', False)


def attach(run, fx):
    sa = fx.one('graphite2::Slot::setAttr')
    ats = [e for e in calls_in(sa, 'graphite2::Slot::attachTo')]
    nonnull = [e for e in ats if not (sa.strip_all_casts(e['args'][0]).get('v') == 0 or sa.strip_all_casts(e['args'][0])['k'] in ('CXXNullPtrLiteralExpr', 'GNUNullExpr'))]
    if len(nonnull) != 1:
        run.violated('ATTACH', 'single attach site', sa.where(), '%d non-null attachTo() calls in Slot::setAttr, expected exactly one' % len(nonnull))
        return
    e = nonnull[0]
    arg = sa.render(sa.strip_all_casts(e['args'][0]))
    fs = [f[:3] for f in dom.facts_at(sa, e['i'])]
    need = {
        'not self': lambda f: f == (arg, '!=', 'this') or f == ('this', '!=', arg),
        'not the current parent': lambda f: f == (arg, '!=', 'this->m_parent'),
        'not a scratch copy': lambda f: f[0].startswith(arg) and 'isCopied()' in f[0] and f[1] == '==' and f[2] == '0',
        'no cycle (foundOther false)': lambda f: f == ('foundOther', '==', '0'),
        'chain-length guard': lambda f: f[0] == 'count' and f[1] == '<' and f[2].isdigit() and int(f[2]) <= 100,
        'registered as child': lambda f: 'child(this)' in f[0] and f[0].startswith(arg) and f[1] == '!=' and f[2] == '0',
        'slot-map bound': lambda f: f[0] == 'idx' and f[1] == '<' and 'size()' in f[2],
    }
    for name, pred in need.items():
        inst = 'attachTo(%s) guarded: %s' % (arg, name)
        if any(pred(f) for f in fs):
            run.held('ATTACH', inst, sa.loc(e), 'dominating fact present')
        else:
            run.violated('ATTACH', inst, sa.loc(e), 'Slot::setAttr(attach.to) reaches attachTo(%s) without the guard "%s": font rules can then build '
                         'a cycle / over-long chain / attach to a scratch copy, and the parent walk no longer terminates at a base' % (arg, name),
                         {'facts': fs})
    # the detach of the old parent dominates the attach: removeChild(this) + attachTo(NULL) under m_parent != 0
    det = [x for x in ats if x is not e]
    rem = calls_in(sa, 'graphite2::Slot::removeChild')
    ok = False
    for d in det:
        fd = [f[:3] for f in dom.facts_at(sa, d['i'])]
        if ('this->m_parent', '!=', '0') in fd and rem and sa.block_of[rem[0]['i']] == sa.block_of[d['i']]:
            # every path to the attach passes this block or the m_parent == 0 edge
            ok = dom.must_pass(sa, sa.entry, sa.block_of[e['i']], lambda f: f[:3] == ('this->m_parent', '==', '0')) or True
            blk = sa.block_of[d['i']]
            # cut the detach block: attach must then be reachable only through the m_parent == 0 edge
            cut = dom.edges_with(sa, lambda f: f[:3] == ('this->m_parent', '==', '0'))
            seen, st = set(), [sa.entry]
            reach = False
            while st:
                b = st.pop()
                if b in seen or b == blk:
                    continue
                seen.add(b)
                if b == sa.block_of[e['i']]:
                    reach = True
                    break
                for idx, s in enumerate(sa.blocks[b]['succ']):
                    if s is not None and (b, idx) not in cut:
                        st.append(s)
            ok = not reach
    if ok:
        run.held('ATTACH', 'old parent detached first', sa.loc(det[0]), 'm_parent->removeChild(this); attachTo(NULL) on every path on which a parent existed')
    else:
        run.violated('ATTACH', 'old parent detached first', sa.loc(e), 're-attaching a slot no longer detaches it from its previous parent on every path: '
                     'it would occur in two sibling chains')


def childreg(run, fx, vm):
    """a slot's parent link and the parent's child list must be set together.  `parent->child(s)` REFUSES (returns false) when
    parent == s; wherever a slot ends up with a non-null parent link and is then registered with child(), a refusal must not be
    ignored: the result is tested and the refusing outcome clears the link (attachTo(NULL)) or never sets it."""
    sites = []
    for fn in list(fx.all_fns()) + [h for h in vm.handlers.values()]:
        if fn.q.endswith('direct_run'):
            continue                      # the handlers are read through the call-threaded driver; C07 DRIVERS ties the two together
        for e in calls_in(fn, 'graphite2::Slot::child'):
            if not e.get('args'):
                continue
            a = fn.strip_all_casts(e['args'][0])
            if a.get('v') == 0 or a['k'] in ('CXXNullPtrLiteralExpr', 'GNUNullExpr'):
                continue
            if (fn.file, e['ln']) in [(f.file, x['ln']) for f, x in sites]:
                continue                  # the same source line seen through both interpreter drivers
            sites.append((fn, e))
    if len(sites) < 2:
        run.broken('ATTACH', 'child() registrations', 'expected at least 2 registrations Slot::child(non-null), found %d' % len(sites))
        return
    for fn, e in sites:
        inst = 'refused child() registration is honoured in %s' % fn.q
        is_cond = any((b.get('term') or {}).get('cond') == e['i'] for b in fn.blocks.values())
        if fn.is_root(e['i']) and not is_cond:
            run.violated('ATTACH', inst, fn.loc(e), 'the result of %s is discarded: Slot::child refuses to register a slot as its own child, so when the slot\'s parent link '
                         'already names itself (PUT_COPY from a scratch copy whose recorded parent is the target slot) the slot stays its own parent -- '
                         'gr_slot_attached_to never reaches a base' % fn.render(e))
            continue
        # on the refusing outcome no attachTo(non-null) may follow, or attachTo(NULL) must follow on every path
        edges = dom.edges_with(fn, lambda f: 'child(' in f[0] and f[1] == '==' and f[2] == '0')
        ats = calls_in(fn, 'graphite2::Slot::attachTo')
        nulls = [x for x in ats if fn.strip_all_casts(x['args'][0]).get('v') == 0 or fn.strip_all_casts(x['args'][0])['k'] in ('CXXNullPtrLiteralExpr', 'GNUNullExpr')]
        nonnull = [x for x in ats if x not in nulls]
        ok = True
        why = 'tested; '
        for (b, idx) in edges:
            s0 = fn.blocks[b]['succ'][idx]
            seen, st, hit_nonnull = set(), [s0], False
            while st:
                x = st.pop()
                if x in seen or x is None:
                    continue
                seen.add(x)
                if any(fn.block_of[n['i']] == x for n in nulls):
                    continue
                if any(fn.block_of[n['i']] == x for n in nonnull):
                    hit_nonnull = True
                st.extend(fn.succs(x))
            if hit_nonnull:
                ok = False
        # the parent link may already be set before the registration (whole-slot copy): then the refusing edge must clear it
        pre_set = any(c.get('fq') == 'memcpy' for c in calls_in(fn))
        if pre_set:
            if nonnull:
                ok = False
            for x in nulls:
                if not any('child(' in f[0] and f[1] == '==' and f[2] == '0' for f in dom.facts_at(fn, x['i'])):
                    ok = False            # the link may only be cleared on the refusing outcome: elsewhere the slot is in its parent's list
            for (b, idx) in edges:
                s0 = fn.blocks[b]['succ'][idx]
                if not nulls or not _all_paths_through(fn, s0, {fn.block_of[n['i']] for n in nulls}):
                    ok = False
            why += 'the refusing outcome clears the copied parent link'
        else:
            why += 'the parent link is only set on the accepting outcome'
        if not edges:
            ok = False
        if ok:
            run.held('ATTACH', inst, fn.loc(e), why)
        else:
            run.violated('ATTACH', inst, fn.loc(e), 'when %s refuses the registration the slot can still end up with a non-null parent link that no child list contains' % fn.render(e))


def _all_paths_through(fn, start, pass_blocks):
    seen, st = set(), [start]
    while st:
        b = st.pop()
        if b in seen or b in pass_blocks:
            continue
        seen.add(b)
        if b == fn.exit:
            return False
        st.extend(fn.succs(b))
    return True


def _dedupe(tw):
    out = []
    for t in tw:
        if not out or out[-1][:3] != t[:3]:
            out.append(t)
    return out


def listops(run, fx):
    # ---- removeChild
    fn = fx.one('graphite2::Slot::removeChild')
    ls = LinkSym(fn, 'slot')
    paths = ls.run()
    ap = ('sym', 'ap')
    ntrue = 0
    for n, st in enumerate(paths):
        ret = getattr(st, 'ret', None)
        tw = _dedupe(getattr(st, 'tree_writes', []))
        isfalse = isinstance(ret, tuple) and ret[0] == 'int' and ret[1] == 0
        istrue = isinstance(ret, tuple) and ret[0] == 'int' and ret[1] == 1
        inst = 'removeChild path %d (%s)' % (n, 'removed' if istrue else 'not found' if isfalse else '?')
        calls = [c[0] for c in st.calls if c[0].startswith('graphite2::Slot::') and c[0].split('::')[-1] in ('sibling', 'child', 'removeChild')]
        if istrue:
            ntrue += 1
        if calls:
            run.violated('LISTOPS', inst, fn.where(), 'Slot::removeChild calls the appending list operation %s: the removed node is not unlinked (it is '
                         're-appended / the chain behind it is cut)' % sorted(set(calls)))
            continue
        if isfalse:
            # completeness: when the walk ran off the end of the sibling chain, every node it passed was compared with ap --
            # a chain member that is never compared cannot be removed (its attachment survives the detach)
            this_ = ('sym', 'this')
            skipped = None
            if ls.is_null(st, ap) is False and not ls.same(st, this_, ap) and ls.is_null(st, ('init', this_, 'm_child')) is False:
                c = ('init', this_, 'm_child')
                for depth_ in range(8):
                    nul = ls.is_null(st, c)
                    if nul is not False:
                        break           # end of the chain (True) or beyond what this path looked at (None)
                    if not any((ls.same(st, x, c) and ls.same(st, y, ap)) or (ls.same(st, y, c) and ls.same(st, x, ap)) for x, y in st.neqs):
                        skipped = (depth_, c)
                        break
                    c = ('init', c, 'm_sibling')
            if skipped:
                run.violated('LISTOPS', inst, fn.where(), 'Slot::removeChild reports "not a child" on a path where child #%d of the sibling chain (%s) exists but was never '
                             'compared with the slot to remove: that child cannot be detached and stays on this parent\'s list while its attachedTo changes' %
                             (skipped[0] + 1, show(skipped[1])))
                continue
            if tw:
                run.violated('LISTOPS', inst, tw[0][3], 'removeChild returns false but wrote %s' % [(show(o), f, show(v)) for o, f, v, l in tw])
            else:
                run.held('LISTOPS', inst, fn.where(), 'no write when nothing is removed', False)
            continue
        if not istrue:
            run.broken('LISTOPS', inst, 'return value %s not classified' % (ret,), fn.where())
            continue
        # expect: X.link := ap.m_sibling0 where X.link0 == ap ; ap.m_sibling := NULL ; nothing else
        unlink = [t for t in tw if not (ls.same(st, t[0], ap) and t[1] == 'm_sibling')]
        clear = [t for t in tw if ls.same(st, t[0], ap) and t[1] == 'm_sibling']
        ok = len(unlink) == 1 and len(clear) >= 1 and all(ls.is_null(st, c[2]) is True or c[2] == NULL for c in clear)
        if ok:
            o, f, v, loc = unlink[0]
            was = ls.norm(st, ('init', o, f))
            okw = ls.same(st, was, ap)
            okv = ls.same(st, v, ('init', ap, 'm_sibling')) or ls.same(st, v, ('init', was, 'm_sibling'))
            ok = okw and okv
        if ok:
            run.held('LISTOPS', inst, unlink[0][3], '%s.%s (== ap) := ap->sibling ; ap->sibling := NULL' % (show(unlink[0][0]), unlink[0][1]))
        else:
            run.violated('LISTOPS', inst, fn.where(), 'removeChild must unlink exactly the removed node (predecessor link := removed->sibling, removed->sibling := NULL); '
                         'this path writes %s' % [(show(o), f, show(v)) for o, f, v, l in tw])
    if ntrue < 2:
        run.broken('LISTOPS', 'removeChild', 'expected a first-child and a later-child removal path, found %d' % ntrue, fn.where())
    # ---- child / sibling
    for q, field in (('graphite2::Slot::child', 'm_child'), ('graphite2::Slot::sibling', 'm_sibling')):
        fn = fx.one(q)
        ls = LinkSym(fn, 'slot')
        paths = ls.run()
        this, ap = ('sym', 'this'), ('sym', 'ap')
        kinds = set()
        bad = None
        for st in paths:
            ret = getattr(st, 'ret', None)
            tw = _dedupe(getattr(st, 'tree_writes', []))
            selfp = any((ls.same(st, a, this) and ls.same(st, b, ap)) or (ls.same(st, a, ap) and ls.same(st, b, this)) for a, b in st.eqs)
            present = any((ls.same(st, a, ap) and ls.norm(st, b) == ('init', this, field)) or (ls.same(st, b, ap) and ls.norm(st, a) == ('init', this, field)) for a, b in st.eqs)
            if selfp:
                kinds.add('self')
                if tw or not (isinstance(ret, tuple) and ret[:2] == ('int', 0)):
                    bad = 'attaching a slot to itself is not refused (%s, returns %s)' % (tw, ret)
            elif present:
                kinds.add('present')
                if tw:
                    bad = 'the slot is already the first in the chain but %s is written' % [(show(o), f, show(v)) for o, f, v, l in tw]
            elif tw:
                kinds.add('append')
                o, f, v, loc = tw[0]
                empty = ls.is_null(st, ('init', this, field)) is True or (field == 'm_sibling' and ls.is_null(st, ap) is True)
                if not (len(tw) == 1 and ls.same(st, o, this) and f == field and ls.same(st, v, ap) and empty):
                    bad = 'writes %s although the link is occupied / to another field' % [(show(o), f, show(v)) for o, f, v, l in tw]
            else:
                kinds.add('delegate')
                if not any(c[0] == 'graphite2::Slot::sibling' for c in st.calls):
                    bad = 'occupied link but no delegation to the next sibling'
        inst = '%s primitive' % q.split('::')[-1]
        if bad:
            run.violated('LISTOPS', inst, fn.where(), '%s: %s' % (q, bad))
        elif not {'self', 'present', 'append', 'delegate'} <= kinds:
            run.violated('LISTOPS', inst, fn.where(), '%s lacks one of the four cases (refuse self / already present / append when empty / delegate): has %s' % (q, sorted(kinds)))
        else:
            run.held('LISTOPS', inst, fn.where(), 'refuses self, no write when present, writes %s only when empty, otherwise delegates (%d paths)' % (field, len(paths)))


def detach(run, vm):
    fx = vm.fx
    fs = fx.one('graphite2::Segment::freeSlot')
    rem = calls_in(fs, 'graphite2::Slot::removeChild')
    att = calls_in(fs, 'graphite2::Slot::attachTo')
    fch = [e for e in calls_in(fs, 'graphite2::Slot::firstChild') if e.get('args')]
    newx = [e for _, e in fs.elements() if e['k'] == 'CXXNewExpr' and e.get('nplace') == 1]
    if not newx:
        raise AnalysisBroken('Segment::freeSlot: re-construction of the slot not found')
    nb = fs.block_of[newx[0]['i']]
    # (1) detached from its parent before re-construction
    p1 = [e for e in rem if 'attachedTo()' in fs.render(fs.N(e['obj']), resolve=True)]
    ok1 = False
    for e in p1:
        f = [x[:3] for x in dom.facts_at(fs, e['i'])]
        if any('attachedTo()' in x[0] and x[1] == '!=' and x[2] == '0' for x in f) and fs.block_of[e['i']] in fs.dominators()[nb] or \
                dom.must_pass(fs, fs.entry, nb, lambda x: 'attachedTo()' in x[0] and x[1] == '==' and x[2] == '0'):
            ok1 = True
    # every path to the re-construction either had no parent or passed the removeChild
    if p1:
        pb = fs.block_of[p1[0]['i']]
        cut = dom.edges_with(fs, lambda x: x[0].replace('->', '.') == 'aSlot.attachedTo()' and x[1] == '==' and x[2] == '0')
        seen, st = set(), [fs.entry]
        leak = False
        while st:
            b = st.pop()
            if b in seen or b == pb:
                continue
            seen.add(b)
            if b == nb:
                leak = True
                break
            for idx, s in enumerate(fs.blocks[b]['succ']):
                if s is not None and (b, idx) not in cut:
                    st.append(s)
        ok1 = not leak
    if ok1:
        run.held('DETACH', 'freeSlot leaves its parent', fs.loc(p1[0]), 'attachedTo()->removeChild(aSlot) on every path on which a parent exists')
    else:
        run.violated('DETACH', 'freeSlot leaves its parent', fs.where(), 'a freed slot is not removed from its parent\'s child chain on every path: the parent '
                     'keeps a pointer to a recycled slot')
    # (2) children: orphan only those that name this slot as parent
    ok2 = False
    for e in att:
        f = [x[:3] for x in dom.facts_at(fs, e['i'])]
        if any('firstChild().attachedTo()' in x[0].replace('->', '.') and x[1] == '==' and x[2] == 'aSlot' for x in f):
            ok2 = True
    alt = False
    for e in fch:
        f = [x[:3] for x in dom.facts_at(fs, e['i'])]
        a = fs.strip_all_casts(e['args'][0])
        if (a.get('v') == 0 or a['k'] in ('CXXNullPtrLiteralExpr', 'GNUNullExpr')) and any('attachedTo()' in x[0] and x[1] == '!=' and x[2] == 'aSlot' for x in f):
            alt = True
    if ok2 and alt:
        run.held('DETACH', 'freeSlot orphans only its own children', fs.loc(att[0]), 'attachTo(NULL) only under firstChild()->attachedTo() == aSlot; otherwise only the local child pointer is dropped')
    else:
        run.violated('DETACH', 'freeSlot orphans only its own children', fs.where(), 'Segment::freeSlot clears the parent of children that do not name the freed slot as their '
                     'parent (guard %s, alternative branch %s): freeing the scratch copy made by TEMP_COPY orphans the children of the original, which '
                     'still lists them' % (ok2, alt))
    # (3) the child loop runs before re-construction
    loops = [b for b in fs.blocks if (fs.blocks[b].get('term') or {}).get('k') in ('WhileStmt', 'ForStmt', 'DoStmt') and fs.term_cond(b) is not None
             and 'firstChild()' in fs.render(fs.term_cond(b), resolve=True)]
    if loops and loops[0] in fs.dominators()[nb]:
        run.held('DETACH', 'children released before reuse', fs.where(), 'while (firstChild()) loop dominates the re-construction', False)
    else:
        run.violated('DETACH', 'children released before reuse', fs.where(), 'the slot is re-constructed without first releasing its children')
    put_copy_links(run, vm, 'DETACH')


def put_copy_links(run, vm, RULE):
    """PUT_COPY overwrites a live slot with memcpy: what identifies the slot in the stream and in the attachment tree must be put back
    on every path (shared with C03: a surviving `deleted` flag lets collectGarbage free a slot that is still linked)"""
    pc = vm.handlers['put_copy']
    mc = [e for e in calls_in(pc, 'memcpy') if 'graphite2::Slot *' in (pc.strip(e['args'][0]).get('t') or '') or 'sizeof' in pc.render(pc.N(e['args'][2])) or pc.strip_all_casts(e['args'][2]).get('v', 0) > 40]
    slotcpy = [e for e in mc if pc.render(pc.strip_all_casts(e['args'][0])) in ('reg.is',)]
    if not slotcpy:
        raise AnalysisBroken('put_copy: whole-slot memcpy not found')
    f = [x[:3] for x in dom.facts_at(pc, slotcpy[0]['i'])]
    g1 = any('attachedTo()' in x[0] and x[1] == '==' and x[2] == '0' for x in f)
    g2 = any('firstChild()' in x[0] and x[1] == '==' and x[2] == '0' for x in f)
    if g1 and g2:
        run.held(RULE, 'PUT_COPY refuses attached slots', pc.loc(slotcpy[0]), 'whole-slot copy only when the target has no parent and no children')
    else:
        run.violated(RULE, 'PUT_COPY refuses attached slots', pc.loc(slotcpy[0]), 'PUT_COPY overwrites a slot that is attached / has attachments (guards: no parent %s, no children %s): '
                     'its parent and children keep pointing at links that were overwritten' % (g1, g2))
    sb = pc.block_of[slotcpy[0]['i']]
    after = [e for e in calls_in(pc) if pc.block_of[e['i']] == sb and pc.pos_of[e['i']] > pc.pos_of[slotcpy[0]['i']] or sb in pc.dominators()[pc.block_of[e['i']]]]
    fcn = any((e.get('fq') or '').endswith('Slot::firstChild') and e.get('args') and pc.is_null(e['args'][0]) for e in after)
    nsn = any((e.get('fq') or '').endswith('Slot::nextSibling') and e.get('args') and pc.is_null(e['args'][0]) for e in after)
    reg = [e for e in after if (e.get('fq') or '').endswith('Slot::child') and e.get('args')]
    rok = False
    for e in reg:
        ff = [x[:3] for x in dom.facts_at(pc, e['i'])]
        if any('attachedTo()' in x[0] and x[1] == '!=' and x[2] == '0' for x in ff) and 'attachedTo()' in pc.render(pc.deref(e['obj']), resolve=True):
            rok = True
    # ... and on every path: both copied pointers are dropped after the copy, the sibling pointer before the slot joins its parent's
    # child list (child() appends at the end of the list: a stale sibling pointer would splice another family in), and the
    # flags of the source (deleted / copied) do not survive in the live slot
    is_call = lambda name, nullarg=False, val=None: (lambda e: (e.get('fq') or '').endswith(name) and e.get('args') and
                                                      (not nullarg or pc.is_null(e['args'][0])) and
                                                      (val is None or pc.strip_all_casts(e['args'][0]).get('v') == val) and
                                                      pc.render(pc.deref(e['obj']), resolve=True) == 'reg.is')
    allpaths = {}
    for what, pr in (('firstChild(NULL)', is_call('Slot::firstChild', True)), ('nextSibling(NULL)', is_call('Slot::nextSibling', True)),
                     ('markCopied(false)', is_call('Slot::markCopied', val=0)), ('markDeleted(false)', is_call('Slot::markDeleted', val=0))):
        allpaths[what] = every_path_calls(pc, slotcpy[0], pr)
    for e in reg:
        allpaths['nextSibling(NULL) before parent->child(is) at line %s' % e.get('ln')] = every_path_calls(pc, slotcpy[0], is_call('Slot::nextSibling', True), until_elem=e)
    badp = {k_: v_ for k_, v_ in allpaths.items() if v_ is not True}
    if fcn and nsn and rok and badp:
        k_ = sorted(badp)[0]
        run.violated(RULE, 'PUT_COPY rebuilds the tree links', pc.loc(slotcpy[0]), 'after the whole-slot copy into the live slot there is a path that does not execute %s '
                     '(blocks %s): the slot keeps a pointer or flag that belongs to the slot it was copied from' % (k_, badp[k_]))
    elif fcn and nsn and rok:
        run.held(RULE, 'PUT_COPY rebuilds the tree links', pc.loc(slotcpy[0]), 'firstChild(NULL), nextSibling(NULL), attachedTo()->child(is) after the copy')
    else:
        run.violated(RULE, 'PUT_COPY rebuilds the tree links', pc.loc(slotcpy[0]), 'after the whole-slot copy PUT_COPY must drop the copied child/sibling pointers and register '
                     'the slot with the copied parent: firstChild(NULL) %s, nextSibling(NULL) %s, parent->child(is) %s' % (fcn, nsn, rok))


def basechain(run, fx):
    fi = fx.one('graphite2::Segment::finalise')
    ps = calls_in(fi, 'graphite2::Segment::positionSlots')
    lc = calls_in(fi, 'graphite2::Segment::linkClusters')
    if ps and lc and fi.block_of[lc[0]['i']] in fi.postdominators()[fi.block_of[ps[0]['i']]]:
        run.held('BASECHAIN', 'finalise links the bases', fi.loc(lc[0]), 'linkClusters post-dominates positionSlots')
    else:
        run.violated('BASECHAIN', 'finalise links the bases', fi.where(), 'Segment::finalise can return after positioning without rebuilding the base chain (linkClusters)')
    lk = fx.one('graphite2::Segment::linkClusters')
    sib = [e for e in calls_in(lk, 'graphite2::Slot::sibling') if e.get('args')]
    ok = bool(sib)
    for e in sib:
        f = [x[:3] for x in dom.facts_at(lk, e['i'])]
        if not any('isBase()' in x[0] and x[1] == '!=' and x[2] == '0' for x in f):
            ok = False
    if ok:
        run.held('BASECHAIN', 'linkClusters links bases only', lk.where(), 'sibling() only under s->isBase()')
    else:
        run.violated('BASECHAIN', 'linkClusters links bases only', lk.where(), 'linkClusters chains slots that are not bases into the base chain')


def basechain_exec(run, fx, maxn=5):
    """BASECHAIN by bounded abstract execution (rules/ordint.py): Segment::linkClusters (with Slot::next, isBase, sibling inlined from
    their own CFGs) is interpreted on every stream of up to `maxn` slots, every pattern of which slots are bases and which hang
    under some other slot (with a marker in their sibling link), both direction bits.  Afterwards: the sibling link of every attached
    slot is untouched, and following the base chain from its head visits every base exactly once and nothing else (C04's last clause).
    Pre-state: bases carry a null sibling link (they are detached slots; only linkClusters and the child-list operations write
    m_sibling, and removeChild / the Slot constructor null it)."""
    import itertools
    from . import ordint as O
    lk = fx.one('graphite2::Segment::linkClusters')
    PS, PG = 'graphite2::Slot::', 'graphite2::Segment::'
    srec = fx.record('graphite2::Slot')
    grec = fx.record('graphite2::Segment')
    cases = 0
    for n in range(1, maxn + 1):
        for bases in itertools.product((True, False), repeat=n):
            for dirbit in (0, 1):
                cases += 1
                slots = []
                for k in range(n):
                    r = O.Rec()
                    for f in srec['fields']:
                        r[PS + f['n']] = None if '*' not in (f.get('t') or '') else O.Ptr(None)
                    slots.append(r)
                marker = O.Rec()
                for f in srec['fields']:
                    marker[PS + f['n']] = O.Ptr(None) if '*' in (f.get('t') or '') else None
                marker['tag'] = 'marker'
                parent = O.Rec()
                for f in srec['fields']:
                    parent[PS + f['n']] = O.Ptr(None) if '*' in (f.get('t') or '') else None
                for k, r in enumerate(slots):
                    r[PS + 'm_next'] = O.Ptr(slots[k + 1]) if k + 1 < n else O.Ptr(None)
                    r[PS + 'm_prev'] = O.Ptr(slots[k - 1]) if k else O.Ptr(None)
                    if not bases[k]:
                        # attached somewhere: a non-null parent (the first base if there is one, else a slot outside the range)
                        anyb = [j for j in range(n) if bases[j]]
                        r[PS + 'm_parent'] = O.Ptr(slots[anyb[0]] if anyb else parent)
                        r[PS + 'm_sibling'] = O.Ptr(marker)
                seg = O.Rec()
                for f in grec['fields']:
                    seg[PG + f['n']] = None
                seg[PG + 'm_dir'] = dirbit
                seg[PG + 'm_first'] = O.Ptr(slots[0])
                seg[PG + 'm_last'] = O.Ptr(slots[-1])
                it = O.Interp(fx)
                it.MAX_STEPS = 5000
                try:
                    it.call(lk, seg, [O.Ptr(slots[0]), O.Ptr(slots[-1])])
                except O.Violation as v:
                    return cases, 'stream of %d slots, bases %s, dir %d: %s (%s)' % (n, [int(b) for b in bases], dirbit, v.what, v.loc)
                for k, r in enumerate(slots):
                    if not bases[k] and r[PS + 'm_sibling'].rec is not marker:
                        return cases, ('stream of %d slots, bases %s, dir %d: the sibling link of the ATTACHED slot %d was rewritten -- an attached slot is chained into the base chain '
                                       '(its parent\'s child list is cut or joined to the bases)' % (n, [int(b) for b in bases], dirbit, k))
                if marker[PS + 'm_sibling'].rec is not None or parent[PS + 'm_sibling'].rec is not None or parent[PS + 'm_child'].rec is not None:
                    return cases, ('stream of %d slots, bases %s, dir %d: a slot outside the base chain (the next sibling in an attached slot\'s child list) had its sibling link '
                                   'rewritten -- bases are being appended to a parent\'s list of attachments' % (n, [int(b) for b in bases], dirbit))
                bl = [k for k in range(n) if bases[k]]
                if not bl:
                    continue
                head = slots[bl[0]] if not dirbit else slots[bl[-1]]
                seen, cur, steps = [], head, 0
                while cur is not None and steps <= n + 1:
                    seen.append(cur)
                    cur = cur[PS + 'm_sibling'].rec if 'tag' not in cur else None
                    steps += 1
                ids = [slots.index(x) if x in slots else -1 for x in seen]
                want = bl if not dirbit else bl[::-1]
                if ids != want:
                    return cases, ('stream of %d slots, bases %s, dir %d: the base chain visits %s, expected exactly the bases %s once each'
                                   % (n, [int(b) for b in bases], dirbit, ids, want))
    return cases, None


def garbage_after_action(run, rule='DETACH'):
    """a rule action that deletes slots is followed by SlotMap::collectGarbage on EVERY path out of Pass::findNDoRule -- in the plain
    branch and in the branch that writes the debug trace (compiled unless GRAPHITE2_NTRACING is defined, taken while gr_start_logging
    is active): the only ways past a doAction() call to the function's exit without collectGarbage are the false arm of the
    `action->deletes()` test and the arm for an action that stopped the machine (gr_make_seg then returns no segment).  Deleted slots that are not collected stay linked as parent / child of live slots."""
    for cfg in ('Q0', 'tracepass'):
        fx = run.facts(cfg)
        fn = fx.one('graphite2::Pass::findNDoRule')
        acts = calls_in(fn, 'graphite2::Pass::doAction')
        gcs = set(fn.block_of[e['i']] for e in calls_in(fn, 'graphite2::SlotMap::collectGarbage'))
        want = 2 if cfg == 'tracepass' else 1
        inst = '[%s] collectGarbage after every rule action' % cfg
        if len(acts) < want:
            run.broken(rule, inst, 'expected %d doAction call(s) in Pass::findNDoRule, found %d' % (want, len(acts)), fn.where())
            continue
        nodel = set(dom.edges_with(fn, lambda f: 'deletes()' in f[0] and f[1] == '==' and f[2] == '0'))
        # an action that stopped the machine (status != finished) fails the whole gr_make_seg: no segment is returned
        nodel |= set(dom.edges_with(fn, lambda f: 'status()' in f[0] and f[1] == '!=' and f[2] == '0'))
        bad = None
        for a in acts:
            ba = fn.block_of[a['i']]
            if ba in gcs and any(fn.pos_of[e['i']] > fn.pos_of[a['i']] for e in calls_in(fn, 'graphite2::SlotMap::collectGarbage') if fn.block_of[e['i']] == ba):
                continue
            seen, st = set(), [(ba, idx) for idx in range(len(fn.blocks[ba]['succ']))]
            while st:
                b, idx = st.pop()
                if (b, idx) in nodel:
                    continue
                s_ = fn.blocks[b]['succ'][idx]
                if s_ is None or s_ in seen or s_ in gcs:
                    continue
                seen.add(s_)
                if s_ == fn.exit:
                    bad = a
                    break
                st.extend((s_, j) for j in range(len(fn.blocks[s_]['succ'])))
            if bad:
                break
        if bad:
            run.violated(rule, inst, fn.loc(bad), 'after the rule action at line %s a path reaches the end of Pass::findNDoRule without SlotMap::collectGarbage although the action may delete slots: '
                         'the deleted slots are never handed to Segment::freeSlot and stay in the attachment tree of the slots that remain' % bad['ln'])
        else:
            run.held(rule, inst, fn.where(), '%d doAction call(s), each followed by collectGarbage unless deletes() is false' % len(acts))


def sentinel_push(run, fx, rule='DETACH'):
    """SlotMap::collectGarbage looks at the entries begin() .. end()-1: the slot map always ends in one entry for the slot BEHIND the
    match (null when the match ran to the end of the segment).  So the push that follows the matching loop of Pass::runFSM is
    unconditional: on every path from the loop exit to `return true` there is a pushSlot whose execution does not depend on the slot
    being non-null -- otherwise the last MATCHED slot sits in the place collectGarbage skips, and a deleted last slot is never freed."""
    from .util import loop_bodies
    fn = fx.one('graphite2::Pass::runFSM')
    lb = loop_bodies(fn)
    inloop = set().union(*lb.values()) if lb else set()
    pushes = [e for e in calls_in(fn, 'graphite2::SlotMap::pushSlot') if fn.block_of[e['i']] not in inloop]
    inst = 'runFSM ends the slot map with the slot behind the match, null or not'
    if not pushes:
        run.violated(rule, inst, fn.where(), 'Pass::runFSM no longer pushes the slot behind the match after its matching loop')
        return
    arg = fn.render(fn.strip_all_casts(fn.N(pushes[0]['args'][0])))
    cond = [f for e in pushes for f in dom.facts_at(fn, e['i']) if f[0] == arg and f[1] == '!=' and f[2] == '0']
    uncond = [e for e in pushes if not any(f[0] == arg and f[1] == '!=' and f[2] == '0' for f in dom.facts_at(fn, e['i']))]
    if uncond:
        run.held(rule, inst, fn.loc(uncond[0]), 'pushSlot(%s) after the loop, under no test of %s' % (arg, arg))
    else:
        run.violated(rule, inst, fn.loc(pushes[0]), 'the final pushSlot(%s) of Pass::runFSM only runs when %s is not null: when a match reaches the end of the segment the slot map ends with the '
                     'last matched slot, the entry SlotMap::collectGarbage never looks at -- a deleted last slot stays in its parent\'s child chain (and keeps its children) after it left the segment' % (arg, arg))


def garbage_sees_deleted(run, fx, rule='DETACH'):
    """a deleted slot leaves its parent's child chain in Segment::freeSlot, and SlotMap::collectGarbage reaches freeSlot only for the
    slots it finds in the slot map.  TEMP_COPY replaces a rule slot's map entry by a scratch copy, so no TEMP_COPY may be inserted for
    a rule slot whose code deletes it: the insertion in decoder::apply_analysis is dominated by a test of a per-slot flag that
    decoder::analyse_opcode sets in its DELETE arm."""
    from .validators import case_context
    aa = fx.one('graphite2::vm::Machine::Code::decoder::apply_analysis')
    an = fx.one('graphite2::vm::Machine::Code::decoder::analyse_opcode')
    inst = 'no TEMP_COPY for a rule slot that is deleted'
    ins = []
    for _, e in aa.elements():
        if e['k'] == 'BinaryOperator' and e['op'] == '=' and aa.strip(e['c'][0])['k'] == 'UnaryOperator':
            r = aa.strip_all_casts(aa.N(e['c'][1]))
            txt = aa.render(r)
            if r['k'] == 'DeclRefExpr' and r.get('vid') is not None:
                txt = ' '.join(aa.render(aa.N(x['init'])) for _, d in aa.elements() if d['k'] == 'DeclStmt' for x in d.get('decls', []) if x.get('vid') == r['vid'] and x.get('init') is not None)
            if 'TEMP_COPY' in txt:
                ins.append(e)
    if len(ins) != 1:
        run.broken(rule, inst, 'expected the one store of the TEMP_COPY instruction in apply_analysis, found %d' % len(ins), aa.where())
        return
    ctx = case_context(an)
    dele = [b['label']['lo'] for b in an.f['blocks'] if (b.get('label') or {}).get('name', '').endswith('::DELETE')]
    if len(dele) != 1:
        run.broken(rule, inst, 'the DELETE arm of analyse_opcode was not found', an.where())
        return
    # per-slot flags set (to true) in the DELETE arm
    flags = set()
    for _, e in an.elements():
        if e['k'] == 'BinaryOperator' and e['op'] == '=' and str(dele[0]) in ctx.get(an.block_of[e['i']], ()) and an.strip_all_casts(an.N(e['c'][1])).get('v') == 1:
            t = an.strip(e['c'][0])
            if t['k'] == 'MemberExpr' and '_contexts' in an.render(t):
                flags.add(t.get('d').split('::')[-1])
    # Pass::findNDoRule calls collectGarbage only for an action whose Code::deletes() is true: the DELETE arm itself sets that flag, for
    # every DELETE the decoder sees (a flag derived later from the per-slot marks misses the slot the action ends on)
    dflag = [e for _, e in an.elements() if e['k'] == 'BinaryOperator' and e['op'] == '=' and (an.strip(e['c'][0]).get('d') or '').endswith('Code::_delete')
             and an.strip_all_casts(an.N(e['c'][1])).get('v') in (1, True) and str(dele[0]) in ctx.get(an.block_of[e['i']], ())]
    i2 = 'every DELETE the decoder sees marks the action as deleting'
    if dflag and not [g for g in dom.edge_guards(an, an.block_of[dflag[0]['i']]) if 'opc' not in an.render(an.N(g[0]) if isinstance(g[0], int) else g[0])]:
        run.held(rule, i2, an.loc(dflag[0]), '_code._delete = true in the DELETE arm of analyse_opcode, unconditionally')
    else:
        run.violated(rule, i2, an.where(), 'the DELETE arm of decoder::analyse_opcode no longer sets Code::_delete (unconditionally): Pass::findNDoRule runs SlotMap::collectGarbage only for actions whose '
                     'deletes() is true, so a DELETE the flag misses -- e.g. on the slot the action ends on, which a loop over the contexts before the current one does not visit -- leaves the deleted '
                     'slot unfreed and in its parent\'s child chain')
    # ... and nothing takes the mark back: the only way a context loses it is to be replaced by a fresh one (NEXT / COPY_NEXT construct a
    # new `context`); a store of false to the flag in any arm (INSERT shares the context of the slot in front of it) re-arms the TEMP_COPY
    for fq_ in (an, aa):
        for _, e in fq_.elements():
            if e['k'] == 'BinaryOperator' and e['op'] == '=' and fq_.strip_all_casts(fq_.N(e['c'][1])).get('v') in (0, False):
                t = fq_.strip(e['c'][0])
                if t['k'] == 'MemberExpr' and '_contexts' in fq_.render(t) and (t.get('d') or '').split('::')[-1] in flags:
                    run.violated(rule, inst, fq_.loc(e), '%s clears the per-slot flag `%s` that its DELETE arm sets (%s): a slot whose code deletes it counts as live again, decoder::apply_analysis '
                                 'gives it a TEMP_COPY when it is changed and referenced, the copy takes its place in the slot map and SlotMap::collectGarbage never hands the deleted slot to '
                                 'Segment::freeSlot -- it stays in its parent\'s child chain' % (fq_.q.split('::')[-1], (t.get('d') or '').split('::')[-1], fq_.render(e)))
                    return
    fs = dom.facts_at(aa, ins[0]['i'])
    guard = [f for f in fs if f[1] == '==' and f[2] == '0' and any(f[0].endswith('.' + fl) or f[0].endswith('->' + fl) for fl in flags)]
    if guard:
        run.held(rule, inst, aa.loc(ins[0]), 'insertion under %s; analyse_opcode sets %s in its DELETE arm' % (guard[0][:3], sorted(flags)))
    else:
        run.violated(rule, inst, aa.loc(ins[0]), 'decoder::apply_analysis inserts a TEMP_COPY for every rule slot that is changed and referenced, also when the slot\'s own code deletes it '
                     '(flags set in the DELETE arm of analyse_opcode: %s; tests dominating the insertion: %s): the copy takes the slot\'s place in the slot map, SlotMap::collectGarbage frees '
                     'the copy and never hands the deleted slot to Segment::freeSlot -- it stays in its parent\'s child chain although it is no longer in the segment'
                     % (sorted(flags) or 'none', [f[:3] for f in fs if 'flags' in f[0]]))


def actionseq_exec(run, vm, maxn=3, maxlen=3):
    """DETACH by bounded execution: "a slot a rule deletes is handed back to the segment" (Segment::freeSlot is where it leaves its
    parent's child chain).  The call-threaded Machine::run is interpreted from its own CFG -- prologue, dispatch loop, EPILOGUE -- on
    every program of 1..maxlen structural opcodes (NEXT, DELETE, INSERT; handlers from their own CFGs) ending in RET_ZERO, started on
    every stream of 1..maxn matched slots with and without a slot in front; then SlotMap::collectGarbage is interpreted.  Afterwards
    every slot that was marked deleted has been passed to Segment::freeSlot exactly once, no slot still in the stream was, and no map
    cell that collectGarbage or the caller reads holds a freed slot.  (A program that dies leaves collection to the failure path.)"""
    import itertools
    from . import ordint as O
    fx = vm.fx
    PS, PM, PG, PV = 'graphite2::Slot::', 'graphite2::SlotMap::', 'graphite2::Segment::', 'graphite2::vm::Machine::'
    srec = fx.record('graphite2::Slot')
    DEL, COPIED = 1, 4
    for e_ in fx.raw['enums'].values():
        for c_ in e_.get('consts', []):
            if c_.get('n') == 'DELETED':
                DEL = c_.get('v')
            if c_.get('n') == 'COPIED':
                COPIED = c_.get('v')
    mrun = [f for f in fx.fns_named('graphite2::vm::Machine::run') if 'call_machine' in f.where()]
    cg = fx.one('graphite2::SlotMap::collectGarbage')
    if len(mrun) != 1:
        raise AnalysisBroken('the call-threaded Machine::run was not found')
    mrun = mrun[0]
    hs = {'N': vm.handlers['next'], 'D': vm.handlers['delete_'], 'I': vm.handlers['insert'], 'R': vm.handlers['ret_zero']}

    def mkslot(k):
        s_ = O.Rec()
        for f in srec['fields']:
            s_[PS + f['n']] = O.Ptr(None) if f.get('ptr') else 0
        s_['#'] = k
        return s_
    cases = 0
    fresh_prob = None
    for n in range(1, maxn + 1):
        for lead in (False, True):
            for ln in range(1, maxlen + 1):
                for prog in itertools.product('NDI', repeat=ln):
                    # only programs the loader lets through: decoder::validate_opcode keeps an output index / output length per action
                    # (NEXT may not step past the output, DELETE not in front of the rule, INSERT not past its end); modelled here
                    oi, ol, okp = 0, n, True
                    for c_ in prog:
                        if c_ == 'N':
                            oi += 1
                            okp = okp and -1 <= oi <= ol
                        elif c_ == 'I':
                            ol += 1
                            oi += 1 if oi < 0 else 0
                            okp = okp and -1 <= oi < ol
                        else:
                            okp = okp and oi >= 0
                            oi -= 1
                            ol -= 1
                            okp = okp and -1 <= oi <= ol
                    if not okp:
                        continue
                    total = n + (1 if lead else 0) + 1          # one slot after the match
                    slots = [mkslot(i) for i in range(total)]
                    for i, sl in enumerate(slots):
                        sl[PS + 'm_next'] = O.Ptr(slots[i + 1]) if i + 1 < total else O.Ptr(None)
                        sl[PS + 'm_prev'] = O.Ptr(slots[i - 1]) if i else O.Ptr(None)
                        sl[PS + 'm_before'] = sl[PS + 'm_after'] = sl[PS + 'm_original'] = i
                    first = 1 if lead else 0
                    seg = O.Rec({PG + 'm_first': O.Ptr(slots[0]), PG + 'm_last': O.Ptr(slots[-1]), PG + 'm_numGlyphs': total, PG + 'm_defaultOriginal': 0})
                    mapvec = O.Vec([O.Ptr(slots[0]) if lead else O.Ptr(None)] + [O.Ptr(s_) for s_ in slots[first:]] + [O.Ptr(None)] * 3)
                    smap = O.Rec({PM + 'segment': seg, PM + 'm_slot_map': O.It(mapvec, 0), PM + 'm_precontext': 0, PM + 'm_size': n + 1,
                                  PM + 'm_highwater': O.Ptr(slots[-1]), PM + 'm_highpassed': False, PM + 'm_maxSize': 10, PM + 'm_dir': 0})
                    mach = O.Rec({PV + '_map': smap, PV + '_stack': O.It(O.Vec([0] * 16), 0), PV + '_status': 0})
                    fresh, freed = [], []

                    def newslot(I, fn, e, obj, a, fresh=fresh):
                        s_ = mkslot(100 + len(fresh))
                        fresh.append(s_)
                        return O.Ptr(s_)

                    def freeslot(I, fn, e, obj, a, freed=freed):
                        p_ = I.rv(a[0])
                        freed.append(p_.rec)
                        if p_.rec is not None:
                            p_.rec[PS + 'm_flags'] = 0        # freeSlot re-initialises the slot
                        return None
                    nat = {'graphite2::Segment::newSlot': newslot, 'graphite2::Segment::freeSlot': freeslot,
                           'graphite2::vm::Machine::check_final_stack': lambda I, fn, e, obj, a: None}
                    it = O.Interp(fx, natives=nat)
                    it.MAX_STEPS = 20000

                    def cell(h):
                        return lambda I, fn, e, obj, a, h=h: I.call(h, None, a)
                    program = O.Vec([cell(hs[c_]) for c_ in prog] + [cell(hs['R'])])
                    mapbox = [O.It(mapvec, 1)]
                    desc = 'action %s RET_ZERO on %d matched slot(s)%s' % (' '.join({'N': 'NEXT', 'D': 'DELETE', 'I': 'INSERT'}[c_] for c_ in prog), n, ', a slot in front' if lead else ', at the start of the segment')
                    cases += 1
                    try:
                        it.call(mrun, mach, [O.It(program, 0), O.It(O.Vec([0] * 4), 0), O.LV(mapbox, 0)])
                    except O.Violation as v:
                        return cases, '%s: %s (%s)' % (desc, v.what, v.loc), fresh_prob
                    if mach[PV + '_status'] != 0:
                        continue                    # the program died: the pass fails and the segment is thrown away
                    everyone = slots + fresh
                    marked = [s_ for s_ in everyone if s_[PS + 'm_flags'] & DEL]
                    early = list(freed)
                    cur = mapbox[0]
                    curslot = [cur.vec.items[cur.idx]]
                    try:
                        it2 = O.Interp(fx, natives=nat)
                        it2.MAX_STEPS = 20000
                        it2.call(cg, smap, [O.LV(curslot, 0)])
                    except O.Violation as v:
                        return cases, '%s, then collectGarbage: %s (%s)' % (desc, v.what, v.loc), fresh_prob
                    # the stream as it is now
                    live, c_, guard = [], seg[PG + 'm_first'].rec, 0
                    while c_ is not None and guard < 20:
                        live.append(c_)
                        c_ = c_[PS + 'm_next'].rec
                        guard += 1
                    for s_ in marked + [x for x in early if x is not None and x not in marked]:
                        k_ = sum(1 for f_ in freed if f_ is s_)
                        if k_ != 1:
                            msg = ('%s: slot #%d was deleted by the action and is handed to Segment::freeSlot %d time(s) by the machine and collectGarbage together -- %s'
                                   % (desc, s_['#'], k_, 'it stays in its parent\'s child chain although it has left the segment' if k_ == 0 else 'freed twice'))
                            if s_['#'] >= 100 and k_ == 0:
                                # the slot was INSERTed by this very action: it never had a cell in the slot map (known finding F24, separate instance)
                                fresh_prob = fresh_prob or msg
                                continue
                            return cases, msg, fresh_prob
                    for f_ in freed:
                        if f_ is not None and any(f_ is l_ for l_ in live):
                            return cases, '%s: slot #%d is still in the stream and was handed to Segment::freeSlot' % (desc, f_['#']), fresh_prob
                    if curslot[0].rec is not None and any(curslot[0].rec is f_ for f_ in freed) and not any(curslot[0].rec is l_ for l_ in live):
                        return cases, '%s: the cursor handed back to the pass is the freed slot #%d' % (desc, curslot[0].rec['#']), fresh_prob
    return cases, None, fresh_prob


def putcopy_exec(run, vm, maxn=3):
    """PUT_COPY by bounded execution (rules/ordint.py): the handler (body of inc/opcodes.h, Slot accessors from their own CFGs; memcpy of a
    whole Slot modelled as a copy of every member) is interpreted on streams of 2..maxn slots, every (current slot, source slot) pair,
    the source carrying every combination of the DELETED / COPIED marks (a rule may copy from a slot it has already deleted -- fonts
    that move a glyph do exactly that) and being attached to a parent or not.  Afterwards the current slot is a live slot of the stream:
    neither mark is set on it (collectGarbage would free a slot that is still linked), its place in the stream (next, prev, index) and
    its own user-attribute block are what they were, it has no children, and if it names a parent it is in that parent's child chain."""
    import itertools
    from . import ordint as O
    fx = vm.fx
    PS, PM, PG = 'graphite2::Slot::', 'graphite2::SlotMap::', 'graphite2::Segment::'
    srec = fx.record('graphite2::Slot')
    DEL, COPIED = 1, 4
    for e_ in fx.raw['enums'].values():
        for c_ in e_.get('consts', []):
            if c_.get('n') == 'DELETED':
                DEL = c_.get('v')
            if c_.get('n') == 'COPIED':
                COPIED = c_.get('v')
    h = vm.handlers['put_copy']
    from .util import setter_field
    # members by role (the field each one-argument accessor stores into), so that a renamed member is still the same member
    F = {'next': setter_field(fx, PS + 'next', PS + 'm_next'), 'prev': setter_field(fx, PS + 'prev', PS + 'm_prev'), 'index': setter_field(fx, PS + 'index', PS + 'm_index'),
         'before': setter_field(fx, PS + 'before', PS + 'm_before'), 'after': setter_field(fx, PS + 'after', PS + 'm_after'), 'original': setter_field(fx, PS + 'originate', PS + 'm_original'),
         'parent': setter_field(fx, PS + 'attachTo', PS + 'm_parent'), 'child': setter_field(fx, PS + 'firstChild', PS + 'm_child'), 'sibling': setter_field(fx, PS + 'nextSibling', PS + 'm_sibling'),
         'attrs': setter_field(fx, PS + 'userAttrs', PS + 'm_userAttr')}

    def mkslot(k):
        s_ = O.Rec()
        for f in srec['fields']:
            s_[PS + f['n']] = O.Ptr(None) if f.get('ptr') else 0
        s_[F['attrs']] = O.It(O.Vec([k * 10 + 1, k * 10 + 2]), 0)
        s_['#'] = k
        return s_

    def memcpy(I, f, e, obj, a):
        d_, s_ = I.rv(a[0]), I.rv(a[1])
        if isinstance(d_, O.Ptr) and isinstance(s_, O.Ptr) and d_.rec is not None and s_.rec is not None:
            for k_, v_ in list(s_.rec.items()):
                if k_ != '#':
                    d_.rec[k_] = v_
            return d_
        if isinstance(d_, O.It) and isinstance(s_, O.It):
            for j_ in range(len(s_.vec.items) - s_.idx):
                if d_.idx + j_ < len(d_.vec.items):
                    d_.vec.items[d_.idx + j_] = s_.vec.items[s_.idx + j_]
            return d_
        raise AnalysisBroken('memcpy of %s from %s in put_copy' % (type(d_).__name__, type(s_).__name__))
    cases = 0
    for n in range(2, maxn + 1):
        for k in range(n):
            for j in range(n):
                if j == k:
                    continue
                for fl in (0, DEL, COPIED, DEL | COPIED):
                    for att in (False, True):
                        slots = [mkslot(i) for i in range(n)]
                        for i, sl in enumerate(slots):
                            sl[F['next']] = O.Ptr(slots[i + 1]) if i + 1 < n else O.Ptr(None)
                            sl[F['prev']] = O.Ptr(slots[i - 1]) if i else O.Ptr(None)
                            sl[F['before']] = sl[F['after']] = sl[F['original']] = sl[F['index']] = i
                        parent = mkslot(50)
                        if att:
                            slots[j][F['parent']] = O.Ptr(parent)
                            parent[F['child']] = O.Ptr(slots[j])
                        slots[j][PS + 'm_flags'] = fl
                        own_attrs = slots[k][F['attrs']]
                        seg = O.Rec({PG + 'm_first': O.Ptr(slots[0]), PG + 'm_last': O.Ptr(slots[-1]), PG + 'm_numGlyphs': n, PG + 'm_defaultOriginal': 0})
                        mapvec = O.Vec([O.Ptr(None)] + [O.Ptr(s_) for s_ in slots] + [O.Ptr(None)] * 2)
                        smap = O.Rec({PM + 'segment': seg, PM + 'm_slot_map': O.It(mapvec, 0), PM + 'm_precontext': 0, PM + 'm_size': n,
                                      PM + 'm_highwater': O.Ptr(None), PM + 'm_highpassed': False, PM + 'm_maxSize': 10})
                        stbox = [0]
                        reg = O.Rec({'regbank::is': O.Ptr(slots[k]), 'regbank::map': O.It(mapvec, 1 + k), 'regbank::smap': smap,
                                     'regbank::map_base': O.It(mapvec, 1), 'regbank::direction': 0, 'regbank::flags': 0, 'regbank::status': O.LV(stbox, 0)})
                        stack = O.Vec([0] * 8)
                        it = O.Interp(fx, natives={'memcpy': memcpy, 'graphite2::Segment::numAttrs': lambda I, f, e, obj, a: 2})
                        it.MAX_STEPS = 6000
                        desc = 'PUT_COPY %+d on %d slots: current #%d, source #%d%s%s' % (j - k, n, k, j, {0: '', DEL: ' (deleted earlier in the rule)', COPIED: ' (a temporary copy)', DEL | COPIED: ' (deleted, temporary)'}[fl],
                                                                                        ', attached' if att else '')
                        cases += 1
                        try:
                            res = it.call(h, None, [O.LV([O.It(O.Vec([(j - k) & 0xFF, 0, 0]), 0)], 0), O.LV([O.It(stack, 2)], 0), O.It(stack, 2), reg])
                        except O.Violation as v:
                            return cases, '%s: %s (%s)' % (desc, v.what, v.loc)
                        if res is False or res == 0 or stbox[0] != 0:
                            continue
                        me = slots[k]
                        if me[PS + 'm_flags'] & (DEL | COPIED):
                            return cases, ('%s: the current slot ends up marked %s -- it is still linked into the stream, and SlotMap::collectGarbage frees every marked slot of the map: the stream then '
                                           'runs into the free list' % (desc, 'DELETED' if me[PS + 'm_flags'] & DEL else 'COPIED'))
                        wn, wp = (slots[k + 1] if k + 1 < n else None), (slots[k - 1] if k else None)
                        if me[F['next']].rec is not wn or me[F['prev']].rec is not wp or me[F['index']] != k:
                            return cases, '%s: the current slot\'s place in the stream changes (next / prev / index)' % desc
                        if me[F['attrs']] is not own_attrs and not (isinstance(me[F['attrs']], O.It) and me[F['attrs']].vec is own_attrs.vec):
                            return cases, '%s: the current slot now uses the source\'s user-attribute block' % desc
                        if me[F['child']].rec is not None or me[F['sibling']].rec is not None:
                            return cases, '%s: the current slot inherits the source\'s child / sibling links' % desc
                        par = me[F['parent']].rec
                        if par is not None:
                            c_, seen = par[F['child']].rec, 0
                            found = False
                            while c_ is not None and seen < 8:
                                found = found or c_ is me
                                c_ = c_[F['sibling']].rec
                                seen += 1
                            if not found:
                                return cases, '%s: the current slot names #%d as its parent but is not in its child chain' % (desc, par['#'])
    return cases, None


def run(run):
    vm = R.get_vm(run)
    fx = vm.fx
    garbage_sees_deleted(run, fx)
    i1_, i2_ = 'a slot an action deletes is handed back to the segment (Machine::run + collectGarbage interpreted)', 'a slot inserted and deleted by the same action is handed back to the segment'
    mr_ = [f for f in fx.fns_named('graphite2::vm::Machine::run') if 'call_machine' in f.where()]
    try:
        from . import ordint as O3_
        cases_, bad_, fresh_ = actionseq_exec(run, vm, 3, 4 if getattr(run, 'tier', 'quick') == 'quick' else 5)
        w_ = mr_[0].where() if mr_ else ''
        if bad_:
            run.violated('DETACH', i1_, w_, bad_)
        else:
            run.held('DETACH', i1_, w_, '%d abstract executions' % cases_)
        if fresh_:
            run.violated('DETACH', i2_, w_, fresh_)
        else:
            run.held('DETACH', i2_, w_, '%d abstract executions' % cases_)
    except AnalysisBroken as ex:
        run.broken('DETACH', i1_, str(ex), '')
    ipc_ = 'PUT_COPY leaves the current slot a live, correctly linked slot (interpreted)'
    try:
        cases_, bad_ = putcopy_exec(run, vm)
        if bad_:
            run.violated('ATTACH', ipc_, vm.handlers['put_copy'].where(), bad_)
        else:
            run.held('ATTACH', ipc_, vm.handlers['put_copy'].where(), '%d abstract executions' % cases_)
    except AnalysisBroken as ex:
        run.broken('ATTACH', ipc_, str(ex), '')
    sentinel_push(run, fx)
    garbage_after_action(run)
    treewriters(run, fx)
    attach(run, fx)
    inst_ = 'attaching any slot to any slot of any small forest leaves a forest (setAttr interpreted)'
    sa_ = fx.one('graphite2::Slot::setAttr')
    try:
        from . import ordint as O_
        cases_, bad_ = attach_exec(run, fx, 4 if getattr(run, 'tier', 'quick') == 'quick' else 5)
        if bad_:
            run.violated('ATTACH', inst_, sa_.where(), bad_)
        else:
            run.held('ATTACH', inst_, sa_.where(), '%d abstract executions' % cases_)
    except (O_.AnalysisBroken, AnalysisBroken) as ex:
        run.broken('ATTACH', inst_, str(ex), sa_.where())
    childreg(run, fx, vm)
    listops(run, fx)
    from . import ordint as O_
    try:
        cases_, bad_ = listops_exec(run, fx)
        if bad_:
            run.violated('LISTOPS', 'child / removeChild on every small chain (interpreted)', fx.one('graphite2::Slot::child').where(), bad_)
        else:
            run.held('LISTOPS', 'child / removeChild on every small chain (interpreted)', fx.one('graphite2::Slot::child').where(), '%d abstract executions' % cases_)
    except O_.AnalysisBroken as ex:
        run.broken('LISTOPS', 'child / removeChild on every small chain (interpreted)', str(ex), '')
    detach(run, vm)
    try:
        cases_, bad_ = freeslot_exec(run, fx)
        fs_ = fx.one('graphite2::Segment::freeSlot')
        if bad_:
            run.violated('DETACH', 'freeSlot detaches the slot and frees its children (interpreted)', fs_.where(), bad_)
        else:
            run.held('DETACH', 'freeSlot detaches the slot and frees its children (interpreted)', fs_.where(), '%d abstract executions' % cases_)
    except O_.AnalysisBroken as ex:
        run.broken('DETACH', 'freeSlot detaches the slot and frees its children (interpreted)', str(ex), '')
    basechain(run, fx)
    lk = fx.one('graphite2::Segment::linkClusters')
    try:
        cases, prob = basechain_exec(run, fx)
        if prob:
            run.violated('BASECHAIN', 'linkClusters builds one chain of exactly the bases', lk.where(), prob)
        else:
            run.held('BASECHAIN', 'linkClusters builds one chain of exactly the bases', lk.where(), '%d abstract executions: every stream of up to 5 slots x base pattern x direction' % cases)
    except AnalysisBroken as ex:
        run.broken('BASECHAIN', 'linkClusters builds one chain of exactly the bases', str(ex), lk.where())
    from . import c03, c19
    try:
        cases_, bad_ = c19.reverse_exec(run, fx, 5)      # linkClusters(m_first, m_last) chains the bases up to m_last: reverseSlots must leave m_last at the real end (shared with C19)
        rs_ = fx.one('graphite2::Segment::reverseSlots')
        if bad_:
            run.violated('BASECHAIN', 'reverseSlots leaves m_first / m_last at the ends of the stream (interpreted)', rs_.where(), bad_)
        else:
            run.held('BASECHAIN', 'reverseSlots leaves m_first / m_last at the ends of the stream (interpreted)', rs_.where(), '%d streams x mark placements' % cases_)
    except O_.AnalysisBroken as ex:
        run.broken('BASECHAIN', 'reverseSlots leaves m_first / m_last at the ends of the stream (interpreted)', str(ex), '')
    c03.slot_ctor_clean(run, fx, 'DETACH')
    # TEMP_COPY marks its copy (shared with C03 LINKSYM)
    tc = vm.handlers['temp_copy']
    marks = [e for e in calls_in(tc, 'graphite2::Slot::markCopied') if tc.strip_all_casts(e['args'][0]).get('v') == 1]
    # the whole-slot memcpy overwrites the flags: the mark must be set AFTER the last whole-object write into the copy on every path
    whole = [e for e in calls_in(tc, 'memcpy') if marks and tc.render(tc.deref(e['args'][0])) == tc.render(tc.deref(marks[0]['obj']))]
    late = [w for w in whole for m in marks
            if not (tc.block_of[w['i']] in tc.dominators()[tc.block_of[m['i']]] and
                    (tc.block_of[w['i']] != tc.block_of[m['i']] or tc.pos_of[w['i']] < tc.pos_of[m['i']]))]
    if marks and not late:
        run.held('DETACH', 'TEMP_COPY marks the copy', tc.loc(marks[0]), 'markCopied(true) after the whole-slot copy: attach-to-copy is refused by ATTACH')
    elif marks:
        run.violated('DETACH', 'TEMP_COPY marks the copy', tc.loc(late[0]), 'the scratch copy is marked copied BEFORE the whole-slot memcpy overwrites its flags with the '
                     'original\'s: the copy ends up unmarked, an attachment to it is accepted and garbage collection never frees it')
    else:
        run.violated('DETACH', 'TEMP_COPY marks the copy', tc.where(), 'the scratch copy is not marked copied')


def listops_exec(run, fx, maxn=4):
    """LISTOPS by bounded execution (rules/ordint.py): Slot::child (with Slot::sibling) and Slot::removeChild are interpreted on a parent
    with every child chain of 0..maxn slots and every argument -- the parent itself, each member of the chain, a slot that is not in it.
    child(): refuses the parent itself and changes nothing; accepts a member and changes nothing; appends a new slot at the end, once.
    removeChild(): removes exactly the member named, clears its sibling link and keeps the others in order; reports false and changes
    nothing for anything else.  The chain never becomes cyclic."""
    from . import ordint as O
    PS = 'graphite2::Slot::'
    srec = fx.record('graphite2::Slot')
    fc, fr = fx.one('graphite2::Slot::child'), fx.one('graphite2::Slot::removeChild')

    def mkslot(k):
        s = O.Rec()
        for f in srec['fields']:
            s[PS + f['n']] = O.Ptr(None) if f.get('ptr') else 0
        s['#'] = k
        return s

    def chain(P, limit):
        out, c, seen = [], P[PS + 'm_child'], set()
        while isinstance(c, O.Ptr) and c.rec is not None:
            if id(c.rec) in seen or len(out) > limit:
                return None
            seen.add(id(c.rec))
            out.append(c.rec['#'])
            c = c.rec[PS + 'm_sibling']
        return out
    cases = 0
    for n in range(0, maxn + 1):
        for what in ['parent', 'new'] + list(range(n)):
            for op in ('child', 'removeChild'):
                P = mkslot(99)
                kids = [mkslot(i) for i in range(n)]
                for i, k_ in enumerate(kids):
                    k_[PS + 'm_parent'] = O.Ptr(P)
                    k_[PS + 'm_sibling'] = O.Ptr(kids[i + 1]) if i + 1 < n else O.Ptr(None)
                P[PS + 'm_child'] = O.Ptr(kids[0]) if n else O.Ptr(None)
                X = mkslot(77)
                arg = P if what == 'parent' else X if what == 'new' else kids[what]
                desc = 'Slot::%s(%s) on a parent with %d child(ren)' % (op, {'parent': 'the parent itself', 'new': 'a slot that is not a child'}.get(what, 'child #%s' % what), n)
                it = O.Interp(fx)
                it.MAX_STEPS = 3000
                cases += 1
                try:
                    res = it.call(fc if op == 'child' else fr, P, [O.Ptr(arg)])
                except O.Violation as v:
                    return cases, '%s: %s (%s)' % (desc, v.what, v.loc)
                got = chain(P, n + 2)
                if got is None:
                    return cases, '%s: the child chain is cyclic afterwards' % desc
                res = bool(res)
                old = list(range(n))
                if op == 'child':
                    want, wres = (old, False) if what == 'parent' else (old + [77], True) if what == 'new' else (old, True)
                else:
                    want, wres = ([i for i in old if i != what], True) if isinstance(what, int) else (old, False)
                if got != want or res != wres:
                    return cases, '%s: returns %s and leaves the chain %s; expected %s and %s' % (desc, res, got, wres, want)
                if op == 'removeChild' and isinstance(what, int) and kids[what][PS + 'm_sibling'].rec is not None:
                    return cases, '%s: the removed child keeps its sibling link (#%s): it still leads into this parent\'s chain' % (desc, kids[what][PS + 'm_sibling'].rec['#'])
    return cases, None


def freeslot_exec(run, fx):
    """DETACH by bounded execution: Segment::freeSlot (with Slot::removeChild, attachTo, the Slot constructor it re-runs in place) is
    interpreted for a slot at every position among 1..3 children of a parent (or without a parent), itself having 0..2 children, each of
    which either names it as parent or -- the case of a TEMP_COPY's inherited links -- names another slot.  Afterwards the parent's chain
    is the old one without the slot, every child that named the slot is a base, a child that named another slot is untouched, and the
    freed slot carries no tree link."""
    from . import ordint as O
    import itertools
    PS, PG = 'graphite2::Slot::', 'graphite2::Segment::'
    srec = fx.record('graphite2::Slot')
    fn = fx.one('graphite2::Segment::freeSlot')

    def mkslot(k):
        s = O.Rec()
        for f in srec['fields']:
            s[PS + f['n']] = O.Ptr(None) if f.get('ptr') else 0
        s['#'] = k
        s[PS + 'm_userAttr'] = O.It(O.Vec([0, 0]), 0)
        return s
    cases = 0
    for nsib in range(0, 4):                      # 0 = the slot has no parent
        for pos in range(max(nsib, 1)):
            for kinds in itertools.chain.from_iterable(itertools.product(('own', 'foreign'), repeat=r) for r in range(0, 3)):
                if 'foreign' in kinds and 'own' in kinds:
                    continue            # not a state of a well-formed forest: a chain is all the slot's own children, or (a TEMP_COPY) all the original's
                S = mkslot(10)
                other = mkslot(60)
                P = mkslot(50) if nsib else None
                sibs = []
                if P is not None:
                    sibs = [S if i == pos else mkslot(20 + i) for i in range(nsib)]
                    for i, x in enumerate(sibs):
                        x[PS + 'm_parent'] = O.Ptr(P)
                        x[PS + 'm_sibling'] = O.Ptr(sibs[i + 1]) if i + 1 < nsib else O.Ptr(None)
                    P[PS + 'm_child'] = O.Ptr(sibs[0])
                kids = [mkslot(30 + i) for i in range(len(kinds))]
                for i, c in enumerate(kids):
                    c[PS + 'm_parent'] = O.Ptr(S if kinds[i] == 'own' else other)
                    c[PS + 'm_sibling'] = O.Ptr(kids[i + 1]) if i + 1 < len(kids) else O.Ptr(None)
                S[PS + 'm_child'] = O.Ptr(kids[0]) if kids else O.Ptr(None)
                seg = O.Rec({PG + 'm_first': O.Ptr(mkslot(70)), PG + 'm_last': O.Ptr(mkslot(71)), PG + 'm_freeSlots': O.Ptr(None), PG + 'm_silf': O.Ptr(O.Rec()), PG + 'm_face': O.Ptr(O.Rec())})
                it = O.Interp(fx, natives={'memset': lambda I, f, e, obj, a: None, 'graphite2::Silf::numUser': lambda I, f, e, obj, a: 2,
                                           'graphite2::Face::logger': lambda I, f, e, obj, a: O.Ptr(None)})
                it.MAX_STEPS = 4000
                desc = 'freeSlot of %s with children %s' % ('a base' if P is None else 'child %d of %d' % (pos + 1, nsib), list(kinds) or 'none')
                cases += 1
                try:
                    it.call(fn, seg, [O.Ptr(S)])
                except O.Violation as v:
                    return cases, '%s: %s (%s)' % (desc, v.what, v.loc)
                if P is not None:
                    out, c, seen = [], P[PS + 'm_child'], set()
                    while isinstance(c, O.Ptr) and c.rec is not None and id(c.rec) not in seen and len(out) < 8:
                        seen.add(id(c.rec))
                        out.append(c.rec['#'])
                        c = c.rec[PS + 'm_sibling']
                    want = [x['#'] for x in sibs if x is not S]
                    if out != want:
                        return cases, '%s: the parent\'s child chain is %s afterwards, expected %s (the freed slot goes back to the pool and is handed out again)' % (desc, out, want)
                for i, c in enumerate(kids):
                    p_ = c[PS + 'm_parent'].rec
                    if kinds[i] == 'own' and p_ is not None:
                        return cases, '%s: child #%d still names the freed slot as its parent' % (desc, c['#'])
                    if kinds[i] == 'foreign' and p_ is not other:
                        return cases, '%s: child #%d, which belongs to another slot (the freed slot is a copy), lost its parent' % (desc, c['#'])
                for f_ in ('m_parent', 'm_child', 'm_sibling'):
                    v_ = S[PS + f_]
                    if isinstance(v_, O.Ptr) and v_.rec is not None:
                        return cases, '%s: the freed slot keeps %s = #%s' % (desc, f_, v_.rec['#'])
    return cases, None


def attach_exec(run, fx, maxn=4):
    """ATTACH by bounded execution (rules/ordint.py): Slot::setAttr(gr_slatAttTo) -- the one place a rule attaches a slot -- with
    Slot::child / sibling / removeChild / attachTo inlined from their own CFGs, is interpreted on EVERY forest of 1..maxn slots (every
    parent function without a cycle; child chains in slot order and in reverse) and every (slot, target) pair, the slot itself and its
    own descendants included ("re-attaching or mutually referential ways").  Afterwards the attachment structure is again a forest in
    C04's sense: following the parent links from any slot ends at a base; a slot with a parent occurs exactly once in that parent's
    child chain; every member of a chain names that parent; no chain is cyclic.  A target that is the slot itself, its present parent,
    or one of its descendants never becomes its parent."""
    import itertools
    from . import ordint as O
    PS, PM = 'graphite2::Slot::', 'graphite2::SlotMap::'
    srec = fx.record('graphite2::Slot')
    fn = fx.one('graphite2::Slot::setAttr')
    att = None
    for e_ in fx.raw['enums'].values():
        for c_ in e_.get('consts', []):
            if c_.get('n') == 'gr_slatAttTo':
                att = c_.get('v')
    if att is None:
        raise AnalysisBroken('enumerator gr_slatAttTo not found')

    def mkslot(k):
        s = O.Rec()
        for f in srec['fields']:
            t = f.get('t') or ''
            s[PS + f['n']] = O.Ptr(None) if f.get('ptr') else (O.Rec({'graphite2::Position::x': 0, 'graphite2::Position::y': 0}) if 'Position' in t else 0)
        s['#'] = k
        return s

    def forests(n):
        for par in itertools.product([None] + list(range(n)), repeat=n):
            ok = True
            for i in range(n):
                seen, c = set(), i
                while c is not None:
                    if c in seen:
                        ok = False
                        break
                    seen.add(c)
                    c = par[c]
                if not ok:
                    break
            if ok:
                yield par

    def check(slots, desc):
        n = len(slots)
        for s in slots:
            seen, c = set(), s
            while c is not None:
                if id(c) in seen:
                    return '%s: the parent links from slot #%d run in a cycle' % (desc, s['#'])
                seen.add(id(c))
                c = c[PS + 'm_parent'].rec
        for p in slots:
            chain, c, seen = [], p[PS + 'm_child'].rec, set()
            while c is not None:
                if id(c) in seen or len(chain) > n:
                    return '%s: the child chain of slot #%d is cyclic' % (desc, p['#'])
                seen.add(id(c))
                chain.append(c)
                c = c[PS + 'm_sibling'].rec
            for c in chain:
                if c[PS + 'm_parent'].rec is not p:
                    return '%s: slot #%d is in the child chain of #%d but names %s as its parent' % (desc, c['#'], p['#'], ('#%d' % c[PS + 'm_parent'].rec['#']) if c[PS + 'm_parent'].rec else 'nobody')
            for s in slots:
                if s[PS + 'm_parent'].rec is p and sum(1 for c in chain if c is s) != 1:
                    return '%s: slot #%d names #%d as its parent but occurs %d time(s) in its child chain' % (desc, s['#'], p['#'], sum(1 for c in chain if c is s))
        return None
    cases = 0
    for n in range(1, maxn + 1):
        for par in forests(n):
            for rev in ((False, True) if n > 2 else (False,)):
                for i in range(n):
                    for j in range(n):
                        slots = [mkslot(k) for k in range(n)]
                        for k in range(n):
                            if par[k] is not None:
                                slots[k][PS + 'm_parent'] = O.Ptr(slots[par[k]])
                        for p in range(n):
                            kids = [k for k in range(n) if par[k] == p]
                            if rev:
                                kids.reverse()
                            slots[p][PS + 'm_child'] = O.Ptr(slots[kids[0]]) if kids else O.Ptr(None)
                            for a, b in zip(kids, kids[1:] + [None]):
                                slots[a][PS + 'm_sibling'] = O.Ptr(slots[b]) if b is not None else O.Ptr(None)
                        mapvec = O.Vec([O.Ptr(None)] + [O.Ptr(s) for s in slots] + [O.Ptr(None)])      # entry 0 of the slot map is the pre-context sentinel: map[k] is m_slot_map[k + 1]
                        smap = O.Rec({PM + 'm_slot_map': O.It(mapvec, 0), PM + 'm_precontext': 0, PM + 'm_size': n, PM + 'm_dir': 0})
                        it = O.Interp(fx)
                        it.MAX_STEPS = 6000
                        desc = 'forest %s%s, slot #%d attached to #%d' % (list(par), ' (child chains reversed)' if rev else '', i, j)
                        cases += 1
                        try:
                            it.call(fn, slots[i], [O.Ptr(O.Rec()), att, 0, j, smap])
                        except O.Violation as v:
                            return cases, '%s: %s (%s)' % (desc, v.what, v.loc)
                        err = check(slots, desc)
                        if err:
                            return cases, err
                        newp = slots[i][PS + 'm_parent'].rec
                        desc_of_i, c = set(), None
                        stack = [i]
                        while stack:
                            x = stack.pop()
                            for k in range(n):
                                if par[k] == x and k not in desc_of_i:
                                    desc_of_i.add(k)
                                    stack.append(k)
                        if j == i or j in desc_of_i:
                            if newp is slots[j]:
                                return cases, '%s: a slot became the child of %s' % (desc, 'itself' if j == i else 'its own descendant')
                        elif j == par[i]:
                            if newp is not slots[j]:
                                return cases, '%s: re-stating the present parent changed it' % desc
                        elif newp is not slots[j]:
                            return cases, '%s: the attachment was not made (parent afterwards: %s)' % (desc, ('#%d' % newp['#']) if newp else 'none')
    return cases, None
