"""C17 -- collision fixing respects limits and its 'resolved' verdict is true.

Almost all of C17 is continuous geometry in single precision (octabox overlap, accumulated offsets against a limit
rectangle computed by arithmetic from run-time boxes) and is NOT decided.  What is decided is the one clause whose truth is
in the shape of the code, because the code touches the quantities involved only through comparisons:

  "the cost-ordered set of free intervals it searches always remains sorted, disjoint, inside its bounds, and never offers
   a position that was excluded"

  ZONESET     Zones::remove and Zones::insert, abstractly interpreted (rules/ordint.py) over EVERY order type of their
              inputs against EVERY sorted, disjoint, in-bounds list of up to N intervals (N = 3 quick, 4 thorough): on every
              abstract path the run terminates, no iterator is dereferenced or used for insert/erase outside the vector,
              and the resulting list is again sorted, disjoint and inside [_pos, _posm] (the invariant is inductive: the
              post-states are instances of the pre-states); after remove(x, xm) no interval meets the open range
              (max(x,_pos), min(xm,_posm)); insert never makes a position available that was not available before.
              The interpreter itself polices that interval end points are only compared / min-max'ed / copied (a difference
              may only be compared with 0), which is what makes one representative per order type exhaustive; if the code
              starts doing arithmetic on them the answer is analysis-broken, not a guess.
  ZONEWRITERS the end points (Exclusion::x, xm), the bounds (_pos, _posm) and the vector are written only by the functions
              ZONESET interprets plus the constructor / initialise (who-may-write, from the resolved AST).
  OFFERED     Zones::closest with find_exclusion_under / track_cost / test_position, interpreted over every list of up to
              N intervals and every position of the origin, with costs opaque (every cost comparison explored both ways):
              no iterator outside [begin, end) is dereferenced, and whenever the reported cost is not the -1 "nothing found"
              marker the returned position lies inside one of the intervals of the list (so inside the bounds too).
  RESOLVED    ShiftCollider::resolve clears the collision-remains verdict (isCol = false) and takes a result position only
              under bestCost >= 0 for a cost that Zones::closest produced, and starts from isCol = true.

Assumptions (stated in evidence): finite, non-NaN floats; [_pos, _posm] well-formed (C17's own precondition); lists longer
than N are covered by the inductive shape of the loops only in the sense that each iteration acts on one element and its
neighbours -- this is a bounded exhaustive analysis, not an unbounded proof.  Nothing of Graphite2 is compiled or run.
"""
import itertools
import os

from . import dom, ordint as O
from .facts import AnalysisBroken
from .util import field_writes, calls_in, callers_of

LEVEL = 'other'
EXPLANATION = ('Abstract interpretation of Zones::insert/remove/closest (and their helpers, inlined from their own CFGs) over the finite '
               'set of order types of the interval end points, bounds and arguments, for every well-formed list of up to N intervals; the '
               'interpreter enforces that end points are only compared, so one representative per order type is exhaustive.  Decides that '
               'the free-interval set stays sorted, disjoint, inside its bounds, that removed ranges are never offered again, and that '
               'the collider only reports "resolved" from a position such an interval offered.  The geometric clauses of C17 (octabox '
               'overlap, limit rectangle arithmetic) are run-time single-precision facts and are not decided.')
FLOORS = {'ZONESET': 2, 'ZONEWRITERS': 6, 'OFFERED': 2, 'RESOLVED': 3, 'LIMITARGS': 3}
SKIP_CONFIGS = ()

PX = 'graphite2::Zones::Exclusion::'
PZ = 'graphite2::Zones::'


def lists(n, empties=False):
    """all order types of pos <= a1 (<|<=) b1 <= a2 ... <= posm on a grid of step 4 (room for three free values in a gap)"""
    gaps = 2 * n + 1
    kinds = []
    for g in range(gaps):
        inner = (g % 2 == 1)           # a_k .. b_k
        kinds.append((4,) if (inner and not empties) else (0, 4))
    for combo in itertools.product(*kinds):
        pts = [0]
        for d in combo:
            pts.append(pts[-1] + d)
        pos, posm = pts[0], pts[-1]
        iv = [(pts[1 + 2 * k], pts[2 + 2 * k]) for k in range(n)]
        if pos == posm and n:
            continue
        yield pos, posm, iv


def mk_zone(pos, posm, iv):
    z = O.Rec()
    v = O.Vec()
    for k, (a, b) in enumerate(iv):
        r = O.Rec()
        r[PX + 'x'] = O.Co(a)
        r[PX + 'xm'] = O.Co(b)
        r[PX + 'c'] = O.W(('I%d' % k,))
        r[PX + 'sm'] = O.W(('I%d' % k,))
        r[PX + 'smx'] = O.W(('I%d' % k,))
        r[PX + 'open'] = False
        v.items.append(r)
    z[PZ + '_exclusions'] = v
    z[PZ + '_pos'] = O.Co(pos)
    z[PZ + '_posm'] = O.Co(posm)
    z[PZ + '_margin_len'] = O.Op()
    z[PZ + '_margin_weight'] = O.Op()
    z[PZ + '_dbg'] = O.Ptr(None)         # tracing builds: no debug output attached
    z[PZ + '_dbgs'] = O.Vec()
    return z


def snapshot(z):
    out = []
    for r in z[PZ + '_exclusions'].items:
        a, b = r[PX + 'x'], r[PX + 'xm']
        if not isinstance(a, O.Co) or not isinstance(b, O.Co):
            raise AnalysisBroken('an interval end point is no longer a coordinate after the call')
        out.append((a.v, b.v, r[PX + 'sm'].tags if isinstance(r[PX + 'sm'], O.W) else None))
    return out


def well_formed(pos, posm, iv):
    prev = pos
    for k, (a, b, _) in enumerate(iv):
        if a < prev:
            return 'interval %d starts at %s, before %s' % (k, a, 'the lower bound' if k == 0 else 'the end of interval %d' % (k - 1))
        if b < a:
            return 'interval %d is inverted' % k
        prev = b
    if iv and prev > posm:
        return 'the last interval ends beyond the upper bound'
    return None


def covered(iv, u, v):
    return any(a <= u and v <= b and a < b for a, b, _ in iv)


def cells(points):
    p = sorted(set(points))
    return list(zip(p, p[1:]))


def show(pos, posm, iv):
    return '[%s..%s] %s' % (pos, posm, ' '.join('(%s,%s)' % (a, b) for a, b, *_ in iv))


_JOBS = {}


def _worker(t):
    key, n, empt, part = t
    fx, fn, mk, chk = _JOBS[key]
    return run_all(fx, fn, mk, n, chk, empt, part)


def run_parallel(key, fx, fn, mk, chk, N, empties=(False, True)):
    """all (n, empties) combinations, the larger ones split by list shape over a fork pool; same result as the serial loop"""
    import multiprocessing as mp
    import os
    _JOBS[key] = (fx, fn, mk, chk)
    tasks = []
    for n in range(0, N + 1):
        for empt in empties:
            m = 1 if n < 2 else (4 if n == 2 else 16 * (4 ** (n - 3)))
            tasks += [(key, n, empt, (k, m)) for k in range(m)]
    nproc = max(1, min(16, os.cpu_count() or 1))
    if nproc == 1 or os.environ.get('VERIF_SERIAL'):
        res = [_worker(t) for t in tasks]
    else:
        with mp.get_context('fork').Pool(nproc) as pool:
            res = pool.map(_worker, tasks, chunksize=1)
    tot = [0, 0, 0, 0]
    bad = None
    st = {}
    for t, (c, p, s_, d, prob, stt) in zip(tasks, res):
        tot = [tot[0] + c, tot[1] + p, tot[2] + s_, tot[3] + d]
        for k_, v_ in (stt or {}).items():
            st[k_] = st.get(k_, 0) + v_
        if prob and not bad:
            bad = prob
    if st and hasattr(chk, 'stats'):
        chk.stats.clear()
        chk.stats.update(st)
    return tot, bad


def run_all(fx, fn, mkargs, n, check, empties, part=(0, 1)):
    """interpret fn on every list shape x argument placement x non-deterministic choice; returns (cases, paths, steps, derefs, first problem)"""
    cases = paths = steps = derefs = 0
    if hasattr(check, 'stats'):
        for k_ in check.stats:
            check.stats[k_] = 0
    for idx, (pos, posm, iv) in enumerate(lists(n, empties)):
        if idx % part[1] != part[0]:
            continue
        hi = posm + 3
        for args_spec in mkargs(pos, posm, iv, range(-3, hi + 1)):
            cases += 1
            ch = O.Chooser()
            while True:
                ch.start()
                z = mk_zone(pos, posm, iv)
                it = O.Interp(fx, ch, natives=getattr(check, 'natives', None))
                it.coords_may_feed_costs = getattr(check, 'opaque_costs', False)
                args = args_spec()
                try:
                    ret = it.call(fn, z, args)
                    prob = check(pos, posm, iv, args, z, ret)
                except O.Violation as v:
                    prob = ('%s (%s)' % (v.what, v.loc))
                paths += 1
                steps += it.steps
                derefs += it.derefs
                if prob:
                    return cases, paths, steps, derefs, (prob, pos, posm, iv, [_plain(a) for a in args]), dict(getattr(check, 'stats', {}))
                if not ch.advance():
                    break
    return cases, paths, steps, derefs, None, dict(getattr(check, 'stats', {}))


def _plain(a):
    """argument in a form that survives pickling between the worker and the parent"""
    a = a.load() if isinstance(a, O.LV) else a
    if isinstance(a, O.Co):
        return str(a.v)
    if isinstance(a, O.Rec):
        return 'e(%s,%s)' % (a[PX + 'x'].v, a[PX + 'xm'].v)
    return repr(a)


def describe_args(args):
    out = []
    if all(isinstance(a, str) for a in args):
        return ', '.join(args)
    for a in args:
        a = a.load() if isinstance(a, O.LV) else a
        if isinstance(a, O.Co):
            out.append(str(a.v))
        elif isinstance(a, O.Rec):
            out.append('e(%s,%s)' % (a[PX + 'x'].v, a[PX + 'xm'].v))
        else:
            out.append(repr(a))
    return ', '.join(out)


def zoneset(run, fx, N):
    rem = fx.one('graphite2::Zones::remove')
    ins = fx.one('graphite2::Zones::insert')

    # ---- remove ---------------------------------------------------------------------------------
    def rem_args(pos, posm, iv, rng):
        for x in rng:
            for xm in rng:
                yield (lambda x=x, xm=xm: [O.Co(x), O.Co(xm)])

    def rem_check(pos, posm, iv, args, z, ret):
        x0, xm0 = args[0].v, args[1].v
        post = snapshot(z)
        w = well_formed(pos, posm, post)
        if w:
            return 'after remove the list is not sorted/disjoint/in bounds: %s; result %s' % (w, show(pos, posm, post))
        x, xm = max(x0, pos), min(xm0, posm)
        if x < xm:
            for k, (a, b, _) in enumerate(post):
                if a < b and a < xm and b > x:
                    return 'after remove(%s, %s) interval %d = (%s,%s) still offers positions inside the removed range' % (x0, xm0, k, a, b)
        return None

    # ---- insert ---------------------------------------------------------------------------------
    def ins_args(pos, posm, iv, rng):
        for x in rng:
            for xm in rng:
                def mk(x=x, xm=xm):
                    e = O.Rec()
                    e[PX + 'x'] = O.Co(x)
                    e[PX + 'xm'] = O.Co(xm)
                    e[PX + 'c'] = O.W(('E',))
                    e[PX + 'sm'] = O.W(('E',))
                    e[PX + 'smx'] = O.W(('E',))
                    e[PX + 'open'] = False
                    return [e]
                yield mk

    stats = {'weights_exact': 0, 'weights_other': 0}

    def ins_check(pos, posm, iv, args, z, ret):
        e = args[0]
        post = snapshot(z)
        w = well_formed(pos, posm, post)
        if w:
            return 'after insert the list is not sorted/disjoint/in bounds: %s; result %s' % (w, show(pos, posm, post))
        pre = [(a, b, ('I%d' % k,)) for k, (a, b) in enumerate(iv)]
        pts = [pos, posm] + [p for a, b, _ in pre + post for p in (a, b)]
        for u, v in cells(pts):
            if covered(post, u, v) and not covered(pre, u, v):
                return 'after insert the range (%s,%s) is offered although it was not free before' % (u, v)
        # observation only (not demanded by C17): the weight lands exactly on the overlap
        ex, exm = max(e[PX + 'x'].v, pos), min(e[PX + 'xm'].v, posm)
        exact = True
        for u, v in cells(pts + [ex, exm]):
            want = covered(pre, u, v)
            got = [t for a, b, t in post if a <= u and v <= b and a < b]
            if want != bool(got):
                exact = False
            elif got:
                base = [t for a, b, t in pre if a <= u and v <= b][0]
                exp = tuple(sorted(base + (('E',) if (ex < exm and ex <= u and v <= exm) else ())))
                if got[0] != exp:
                    exact = False
        stats['weights_exact' if exact else 'weights_other'] += 1
        return None

    ins_check.stats = stats
    for name, fn, mk, chk in (('remove', rem, rem_args, rem_check), ('insert', ins, ins_args, ins_check)):
        tot, bad = run_parallel('zoneset-' + name, fx, fn, mk, chk, N)
        inst = 'Zones::%s keeps the free-interval list sorted, disjoint, in bounds%s' % (name, ', and clear of the removed range' if name == 'remove' else ', and adds no free position')
        if bad:
            msg, pos, posm, iv, args = bad
            run.violated('ZONESET', inst, fn.where(), '%s -- list %s, call %s(%s) [coordinates are order-type representatives]'
                         % (msg, show(pos, posm, iv), name, describe_args(args)),
                         detail={'list': iv, 'bounds': [pos, posm], 'args': describe_args(args)})
        else:
            run.held('ZONESET', inst, fn.where(), 'lists of 0..%d intervals (with and without empty ones): %d order types, %d abstract paths, %d interpreted steps, %d element accesses'
                     % (N, tot[0], tot[1], tot[2], tot[3]))
    if stats['weights_other']:
        run.observe('Zones::insert: in %d of %d cases the inserted weight does not land exactly on the overlap with the free intervals (not demanded by C17; recorded only)'
                    % (stats['weights_other'], stats['weights_other'] + stats['weights_exact']))
    else:
        run.observe('Zones::insert: in all %d cases the inserted weight lands exactly on the overlap with the free intervals and the free set is unchanged' % stats['weights_exact'])


def _in_interval(v, a, b):
    """is the value v (a coordinate, or an opaque position with learned bounds) known to lie in [a, b]?"""
    if isinstance(v, O.Co):
        return a <= v.v <= b
    if isinstance(v, O.Op):
        lo = [f[1] for f in v.facts if f[0] == '>=']
        hi = [f[1] for f in v.facts if f[0] == '<=']
        return any(l >= a for l in lo) and any(h <= b for h in hi)
    return False


def trackcost_summary(run, fx):
    """TRACKCOST: Exclusion::track_cost (with test_position and cost inlined from their CFGs), on one interval, for every order
    type of (x, xm, origin), every sign of the accumulated weight and every outcome of every cost comparison: the best position
    is either left alone or set to a position inside [x, xm], and it is set exactly when the best cost is lowered."""
    fn = fx.one('graphite2::Zones::Exclusion::track_cost')
    paths = 0
    for a, b in ((4, 8), (4, 4)):
        for origin in range(1, 12):
            for openflag in (False, True):
                for first in (True, False):
                    ch = O.Chooser()
                    while True:
                        ch.start()
                        r = O.Rec()
                        r[PX + 'x'], r[PX + 'xm'] = O.Co(a), O.Co(b)
                        for f in ('c', 'sm', 'smx'):
                            r[PX + f] = O.W(('I',))
                        r[PX + 'open'] = openflag
                        c0 = O.Op('max' if first else 'any')
                        p0 = O.Op('any')
                        cost, pos = O.LV([c0], 0), O.LV([p0], 0)
                        it = O.Interp(fx, ch)
                        it.coords_may_feed_costs = True
                        try:
                            ret = it.call(fn, r, [cost, pos, O.Co(origin)])
                        except O.Violation as v:
                            return paths, '%s (%s)' % (v.what, v.loc)
                        paths += 1
                        c1, p1 = cost.load(), pos.load()
                        if (r[PX + 'x'].v, r[PX + 'xm'].v) != (a, b):
                            return paths, 'track_cost changes the interval it examines'
                        if not isinstance(ret, bool):
                            return paths, 'track_cost no longer returns a boolean'
                        if (c1 is c0) != (p1 is p0):
                            return paths, 'best cost and best position are not updated together (interval (%d,%d), origin %d)' % (a, b, origin)
                        if p1 is not p0:
                            if not _in_interval(p1, a, b):
                                return paths, ('the position offered for interval (%d,%d) with origin %d is not known to lie inside it (%r, bounds learned: %s)'
                                               % (a, b, origin, p1, getattr(p1, 'facts', None)))
                            if first and not (isinstance(c1, O.Op) and c1.kind == 'ltmax'):
                                return paths, 'the best cost is replaced without having compared lower than the previous best'
                            if ret:
                                return paths, 'track_cost asks to stop the scan on the very call that improved the best position'
                        if not ch.advance():
                            break
    return paths, None


def offered(run, fx, N):
    tfn = fx.one('graphite2::Zones::Exclusion::track_cost')
    paths, prob = trackcost_summary(run, fx)
    inst = 'Exclusion::track_cost offers only positions inside its own interval, together with a lower cost'
    if prob:
        run.violated('OFFERED', inst, tfn.where(), prob)
    else:
        run.held('OFFERED', inst, tfn.where(), '%d abstract paths over every order type of (x, xm, origin), weight sign and cost comparison' % paths)

    fn = fx.one('graphite2::Zones::closest')

    def summary(interp, f, e, obj, args):
        """what TRACKCOST established, used in place of the body while interpreting closest"""
        if not isinstance(obj, O.Rec):
            raise AnalysisBroken('track_cost called on something that is not an interval')
        k = interp.ch.choose(3)
        if k == 0:
            return True
        if k == 1:
            return False
        cost, pos = args[0], args[1]
        p = O.Op('any')
        p.facts = [('>=', obj[PX + 'x'].v), ('<=', obj[PX + 'xm'].v)]
        pos.store(p)
        cost.store(O.Op('ltmax'))
        return False

    def mk(pos, posm, iv, rng):
        for o in rng:
            yield (lambda o=o: [O.Co(o), O.LV([O.Op()], 0)])

    def chk(pos, posm, iv, args, z, ret):
        cost = args[1].load()
        if snapshot(z) != [(a, b, ('I%d' % k,)) for k, (a, b) in enumerate(iv)]:
            return 'closest modified the interval list'
        if isinstance(cost, (int, float)) and cost == -1:
            return None                      # "nothing found"
        if any(_in_interval(ret, a, b) for a, b in iv):
            return None
        return 'closest reports a cost but returns %r, which is not known to lie inside any interval of the list' % (ret,)
    chk.opaque_costs = True
    chk.natives = {'graphite2::Zones::Exclusion::track_cost': summary}

    tot, bad = run_parallel('offered', fx, fn, mk, chk, N, empties=(False,))
    inst = 'Zones::closest only offers positions inside an interval of the list'
    if bad:
        msg, pos, posm, iv, args = bad
        run.violated('OFFERED', inst, fn.where(), '%s -- list %s, origin %s' % (msg, show(pos, posm, iv), describe_args(args[:1])))
    else:
        run.held('OFFERED', inst, fn.where(), 'lists of 0..%d intervals x every origin placement: %d cases, %d abstract paths (every scan outcome per interval), %d steps, %d element accesses'
                 % (N, tot[0], tot[1], tot[2], tot[3]))


_INTERPRETED = {'graphite2::Zones::Exclusion::Exclusion', 'graphite2::Zones::Exclusion::split_at', 'graphite2::Zones::Exclusion::left_trim',
                'graphite2::Zones::insert', 'graphite2::Zones::remove'}       # what ZONESET interprets: any of them may write either end point
ALLOWED_WRITERS = {
    PX + 'x': _INTERPRETED,
    PX + 'xm': _INTERPRETED,
    PZ + '_pos': {'graphite2::Zones::Zones', 'graphite2::Zones::initialise'},
    PZ + '_posm': {'graphite2::Zones::Zones', 'graphite2::Zones::initialise'},
}


def zonewriters(run, fx):
    fw = field_writes(fx)
    for fld, allowed in sorted(ALLOWED_WRITERS.items()):
        ws = fw.get(fld, [])
        if not ws:
            run.broken('ZONEWRITERS', fld, 'no writer of %s found (anchor field vanished?)' % fld)
            continue
        extra = [(fn, e) for fn, e, _ in ws if fn.q not in allowed]
        if extra:
            fn, e = extra[0]
            run.violated('ZONEWRITERS', 'writers of %s' % fld.split('::', 1)[1], fn.loc(e),
                         '%s writes %s: the end points / bounds of the free-interval set are changed outside the functions whose effect ZONESET decides' % (fn.q, fld))
        else:
            run.held('ZONEWRITERS', 'writers of %s' % fld.split('::', 1)[1], '', 'written only by %s' % ', '.join(sorted({fn.q.split('graphite2::')[-1] for fn, _, _ in ws})))
    # the vector itself: mutating Vector calls on _exclusions
    muts = {}
    for fn in fx.all_fns():
        if fn.q.startswith('graphite2::Vector<'):
            continue                      # the container's own methods calling each other
        for e in calls_in(fn):
            fq = e.get('fq') or ''
            if fq.startswith('graphite2::Vector<graphite2::Zones::Exclusion>::') and fq.split('::')[-1] in ('insert', 'erase', 'push_back', 'clear', 'pop_back', 'resize', 'assign', 'front', 'back', 'operator[]'):
                short = fq.split('::')[-1]
                if short in ('front', 'back', 'operator[]') and fn.f.get('const'):
                    continue
                muts.setdefault(fn.q, []).append((fn, e))
    allowed = {'graphite2::Zones::insert', 'graphite2::Zones::remove', 'graphite2::Zones::initialise'}
    extra = sorted(set(muts) - allowed)
    if not (set(muts) & {'graphite2::Zones::insert', 'graphite2::Zones::remove'}):
        run.broken('ZONEWRITERS', 'mutators of the interval vector', 'Zones::insert / Zones::remove no longer mutate Vector<Exclusion> directly (shape changed; re-confirm)')
    elif extra:
        fn, e = muts[extra[0]][0]
        run.violated('ZONEWRITERS', 'mutators of the interval vector', fn.loc(e), '%s mutates the interval vector outside insert/remove/initialise' % extra[0])
    else:
        run.held('ZONEWRITERS', 'mutators of the interval vector', '', 'only %s' % ', '.join(sorted(q.split('graphite2::')[-1] for q in muts)))


def resolved(run, fx):
    fn = fx.one('graphite2::ShiftCollider::resolve')
    ps = fn.f['params']
    iscol = [p for p in ps if (p.get('t') or '').replace(' ', '') == 'bool&']
    if len(iscol) != 1:
        run.broken('RESOLVED', 'verdict parameter', 'ShiftCollider::resolve no longer has exactly one bool& (collision remains) parameter', fn.where())
        return
    vid = iscol[0]['vid']
    closest = calls_in(fn, 'graphite2::Zones::closest')
    if not closest:
        run.broken('RESOLVED', 'closest call', 'ShiftCollider::resolve no longer calls Zones::closest', fn.where())
        return
    # the cost variable is the lvalue bound to closest's second (reference) parameter
    costv = set()
    for e in closest:
        a = fn.strip_all_casts(e['args'][1])
        if a['k'] == 'DeclRefExpr' and a.get('vid') is not None:
            costv.add(a['vid'])
    if len(costv) != 1:
        run.broken('RESOLVED', 'cost variable', 'cannot identify the cost variable passed to Zones::closest', fn.where())
        return
    cv = next(iter(costv))
    cname = [fn.N(e['args'][1]) for e in closest][0]
    cname = fn.render(fn.strip_all_casts(closest[0]['args'][1]))
    stores = []
    for b, e in fn.elements():
        if e['k'] == 'BinaryOperator' and e['op'] == '=':
            l = fn.strip_all_casts(e['c'][0])
            if l['k'] == 'DeclRefExpr' and l.get('vid') == vid:
                stores.append((b, e))
    clears = [(b, e) for b, e in stores if fn.N(fn.strip_all_casts(e['c'][1])).get('v') in (0, False)]
    sets = [(b, e) for b, e in stores if fn.N(fn.strip_all_casts(e['c'][1])).get('v') in (1, True)]
    if not clears or not sets:
        run.broken('RESOLVED', 'verdict stores', 'expected isCol = true at the start and isCol = false on success; found %d / %d' % (len(sets), len(clears)), fn.where())
        return
    # (1) isCol = true dominates the loop: it is in a block that dominates every closest call
    d = fn.dominators()
    cb = [b for b, e in fn.elements() if e['i'] == closest[0]['i']][0]
    if any(b in d[cb] for b, _ in sets):
        run.held('RESOLVED', 'verdict starts as "collision remains"', fn.loc(sets[0][1]), 'isCol = true dominates the search over the four axes')
    else:
        run.violated('RESOLVED', 'verdict starts as "collision remains"', fn.loc(sets[0][1]), 'isCol = true no longer dominates the call of Zones::closest: a stale "resolved" can survive')
    # (2) every clear (and every assignment of the result position) is under cost >= 0 of the value closest produced on that iteration
    ok = True
    for b, e in clears:
        fs = dom.facts_at(fn, e['i'])
        good = any((f[0] == cname and ((f[1] == '>=' and _num(f[2]) is not None and _num(f[2]) >= 0) or (f[1] == '>' and _num(f[2]) is not None and _num(f[2]) >= 0))) for f in fs)
        # and the closest call dominates it with no other store to the cost variable in between
        if not good or cb not in d[b]:
            ok = False
            run.violated('RESOLVED', 'resolved only from an offered position', fn.loc(e),
                         'isCol = false is not dominated by %s >= 0 for the cost Zones::closest reported (facts here: %s)' % (cname, [f for f in fs if cname in f[0]][:4]))
    other = []
    for b, e in fn.elements():
        if e['k'] in ('BinaryOperator', 'CompoundAssignOperator') and e['op'].endswith('=') and e['op'] not in ('==', '!=', '<=', '>='):
            l = fn.strip_all_casts(e['c'][0])
            if l['k'] == 'DeclRefExpr' and l.get('vid') == cv:
                other.append(e)
    if other:
        ok = False
        run.violated('RESOLVED', 'resolved only from an offered position', fn.loc(other[0]), 'the cost variable %s is assigned in ShiftCollider::resolve besides being filled by Zones::closest' % cname)
    if ok:
        run.held('RESOLVED', 'resolved only from an offered position', fn.loc(clears[0][1]), 'every isCol = false is dominated by %s >= 0 after Zones::closest filled it' % cname)


def verdictshift(run, fx):
    """RESOLVED, second half: the verdict ShiftCollider::resolve hands back (isCol) is about the glyph AT THE SHIFT IT RETURNS.  In
    Pass::resolveCollisions that shift must be what is stored in the slot's collision record whenever the verdict is then recorded: the
    only tests allowed between the call of resolve and SlotCollision::setShift(<its result>) are tests of that result alone (the
    finiteness guard).  A shift that is dropped for any other reason leaves "resolved" standing for a position the glyph is not at."""
    fn = fx.one('graphite2::Pass::resolveCollisions')
    rc = calls_in(fn, 'graphite2::ShiftCollider::resolve')
    inst = 'the recorded verdict belongs to the stored shift'
    if len(rc) != 1:
        run.broken('RESOLVED', inst, 'expected one ShiftCollider::resolve call in Pass::resolveCollisions, found %d' % len(rc), fn.where())
        return
    # the local that receives the result
    res = None
    for _, e in fn.elements():
        if e['k'] == 'DeclStmt':
            for d in e['decls']:
                if d.get('init') is not None and any(x.get('i') == rc[0]['i'] for x in fn.walk(d['init'])):
                    res = d
    if res is None:
        run.broken('RESOLVED', inst, 'the local that receives resolve()\'s result was not found', fn.where())
        return
    ss = [e for e in calls_in(fn, 'graphite2::SlotCollision::setShift') if e.get('args') and fn.strip_all_casts(fn.deref(e['args'][0])).get('vid') == res['vid']]
    if not ss:
        run.violated('RESOLVED', inst, fn.loc(rc[0]), 'the shift ShiftCollider::resolve returned is never stored with SlotCollision::setShift')
        return
    # the result variable must not be re-assigned between the call and the store
    reass = [e for _, e in fn.elements() if e['k'] in ('BinaryOperator', 'CXXOperatorCallExpr') and (e.get('op') == '=' or (e.get('fq') or '').endswith('operator='))
             and fn.strip(((e.get('args') if e.get('args') is not None else e.get('c')) or [None])[0] or {'k': ''}).get('vid') == res['vid']]
    gq = dom.edge_guards(fn, fn.block_of[ss[0]['i']])
    gs = dom.edge_guards(fn, fn.block_of[rc[0]['i']])
    key = lambda g: (g[0] if isinstance(g[0], int) else id(g[0]), g[1])
    have = {key(g) for g in gs}
    bad = []
    for g in gq:
        if key(g) in have:
            continue
        node = fn.N(g[0]) if isinstance(g[0], int) else g[0]
        vids = {x.get('vid') for x in fn.walk(node) if x['k'] == 'DeclRefExpr' and x.get('vid') is not None}
        members = [x for x in fn.walk(node) if x['k'] == 'MemberExpr' and x.get('dk') == 'Field' and not any(y.get('vid') == res['vid'] for y in fn.walk(x))]
        calls = [x for x in fn.walk(node) if x['k'] in ('CXXMemberCallExpr',)]
        if vids - {res['vid']} or members or calls:
            bad.append(fn.render(node))
    if reass:
        run.violated('RESOLVED', inst, fn.loc(reass[0]), 'the local holding resolve()\'s result is overwritten (%s) although the verdict that came with it is recorded' % fn.render(reass[0]))
    elif bad:
        run.violated('RESOLVED', inst, fn.loc(ss[0]), 'the shift that ShiftCollider::resolve returned is stored only if %s: when it is not, the "resolved" verdict that came with it is still recorded, for a '
                     'position the glyph is not moved to' % bad)
    else:
        run.held('RESOLVED', inst, fn.loc(ss[0]), 'setShift(%s) under nothing but tests of %s itself' % (res['n'], res['n']))


def axisbase(run, fx, q='graphite2::ShiftCollider::resolve', var='tbase', inst=None, optional=False):
    """RESOLVED: the four interval sets of ShiftCollider work on x, y, x+y and x-y.  ShiftCollider::resolve converts the best position of
    axis i back with `- tbase`, where tbase must be that axis' linear form of the current offset: (1,0), (0,1), (1,1), (1,-1) for
    i = 0..3, read from the switch arms as linear forms over (_currOffset.x, _currOffset.y).  With the sum form on the diff axis the
    shift handed back is off by twice the vertical offset and the glyph is declared resolved at a position that was never tested."""
    from . import linear
    from .validators import case_context
    fn = fx.one(q)
    ctx = case_context(fn)
    want = {0: (1, 0), 1: (0, 1), 2: (1, 1), 3: (1, -1)}
    got = {}
    for _, e in fn.elements():
        if e['k'] == 'BinaryOperator' and e['op'] == '=' and fn.render(fn.N(e['c'][0])) == var:
            t, c = linear.lin(fn, e['c'][1])
            cx = sum(v for k_, v in t.items() if k_.endswith('_currOffset.x'))
            cy = sum(v for k_, v in t.items() if k_.endswith('_currOffset.y'))
            other = [k_ for k_ in t if not k_.endswith(('_currOffset.x', '_currOffset.y'))]
            arms = ctx.get(fn.block_of[e['i']], ())
            for a in arms:
                keys = [0, 1, 2, 3] if a == 'default' else [int(a)] if str(a).lstrip('-').isdigit() else []
                for k_ in keys:
                    if a == 'default' and k_ in got:
                        continue
                    got[k_] = (cx, cy) if not other and c == 0 else None
    inst = inst or 'resolve converts axis i back with that axis\' own form of the offset'
    if len(got) < 4:
        if optional:
            run.observe('RESOLVED: the per-axis `%s = ..` arms of %s are not in switch form; the symbolic execution of the function decides the same question' % (var, q.split('::')[-1]))
            return
        run.broken('RESOLVED', inst, 'the per-axis `%s = ..` arms of %s were not recognised (%s)' % (var, q.split('::')[-1], got), fn.where())
        return
    # explicit case arms take precedence over a default arm
    bad = [(k_, got[k_]) for k_ in sorted(want) if got.get(k_) != want[k_]]
    if bad:
        run.violated('RESOLVED', inst, fn.where(), 'for axis %d %s uses %s = %s (as a form over offset.x, offset.y; None = other terms such as the current shift are mixed in), the axis is %s: %s' % (bad[0][0], q.split('::')[-1], var, bad[0][1], want[bad[0][0]],
                     'the shift handed back is wrong by a multiple of the other coordinate, the accumulated offset can leave the limit and the position reported as resolved was never tested' if var == 'tbase' else
                     'the window [cmin, cmax] that decides whether a neighbour\'s blocked interval matters is displaced by the current shift: a neighbour that blocks near the end of the limit is skipped, and resolve reports the glyph resolved on top of it'))
    else:
        run.held('RESOLVED', inst, fn.where(), 'x, y, x+y, x-y for i = 0..3')


def rangestart(run, fx):
    """RESOLVED: "does not overlap ... any non-ignored neighbour within reach": Pass::resolveCollisions merges the neighbours it meets on
    a walk that begins at its `start` argument, so every call in Pass::collisionShift begins that walk at an END of the collision range
    -- never at the glyph being fixed itself (then everything in front of it is not looked at: phase 2b lets a glyph drift back onto an
    obstacle that precedes it and still flags it resolved) -- and the forward phases (1 and 2b) agree on which end."""
    fn = fx.one('graphite2::Pass::collisionShift')
    calls = calls_in(fn, 'graphite2::Pass::resolveCollisions')
    inst = 'every resolveCollisions call scans from an end of the collision range'
    if len(calls) < 3:
        run.broken('RESOLVED', inst, 'expected the three resolveCollisions calls of collisionShift (phases 1, 2a, 2b), found %d' % len(calls), fn.where())
        return
    fwd = {}
    for e in calls:
        fix, st = fn.render(fn.strip_all_casts(fn.N(e['args'][1]))), fn.render(fn.strip_all_casts(fn.N(e['args'][2])))
        rev = fn.strip_all_casts(fn.N(e['args'][4])).get('v')
        if fix == st:
            run.violated('RESOLVED', inst, fn.loc(e), 'Pass::collisionShift calls resolveCollisions(seg, %s, %s, ..): the walk over the neighbours begins at the glyph that is being fixed, so no glyph on the '
                         'other side of it is merged into the collider -- the glyph can be moved onto one of them and is still reported resolved' % (fix, st))
            return
        if rev in (0, False):
            fwd.setdefault(st, []).append(e)
    if len(fwd) > 1:
        e = sorted(fwd.items(), key=lambda kv: len(kv[1]))[0][1][0]
        run.violated('RESOLVED', inst, fn.loc(e), 'the forward phases of collisionShift begin their neighbour walks at different slots (%s): one of them does not cover the whole collision range' % sorted(fwd))
    else:
        run.held('RESOLVED', inst, fn.loc(calls[0]), '%d calls; forward phases start at `%s`' % (len(calls), list(fwd)[0] if fwd else '-'))


def resolve_exec(run, fx):
    """RESOLVED by symbolic execution (ordint.Poly): ShiftCollider::resolve is interpreted with the current offset, the current shift and
    the best position of every axis as SYMBOLS, for every assignment of costs to the four axes (no free point / distinct costs in every
    order).  The answer is the one the axes themselves dictate, whatever the form of the code: the axis with the lowest cost is taken;
    the shift S handed back puts the glyph where that axis' interval set said it is free -- a.(offset + S) = p for the axis vector a
    in {(1,0), (0,1), (1,1), (1,-1)} -- and leaves the perpendicular component of the current shift alone; with no free point on any
    axis the collision remains (isCol) and the shift is zero."""
    import itertools
    fn = fx.one('graphite2::ShiftCollider::resolve')
    PC, PP = 'graphite2::ShiftCollider::', 'graphite2::Position::'
    rec = fx.record('graphite2::ShiftCollider')
    sym = O.Poly.sym
    AX = {0: (1, 0), 1: (0, 1), 2: (1, 1), 3: (1, -1)}
    inst = 'resolve hands back the cheapest axis\' free position, as a shift (symbolic)'
    cases = 0
    try:
        for costs in itertools.product((-1, 1.0, 2.0, 3.0, 4.0), repeat=4):
            pos = [c for c in costs if c >= 0]
            if len(set(pos)) != len(pos):
                continue
            sc = O.Rec()
            for f in rec['fields']:
                sc[PC + f['n']] = O.Ptr(None) if f.get('ptr') else 0
            sc[PC + '_currOffset'] = O.Rec({PP + 'x': sym('ox'), PP + 'y': sym('oy')})
            sc[PC + '_currShift'] = O.Rec({PP + 'x': sym('sx'), PP + 'y': sym('sy')})
            sc[PC + '_limit'] = O.Rec({'graphite2::Rect::bl': O.Rec({PP + 'x': sym('lblx'), PP + 'y': sym('lbly')}), 'graphite2::Rect::tr': O.Rec({PP + 'x': sym('ltrx'), PP + 'y': sym('ltry')})})
            sc[PC + '_origin'] = O.Rec({PP + 'x': sym('orx'), PP + 'y': sym('ory')})
            sc[PC + '_ranges'] = O.It(O.Vec([O.Rec({'#axis': k}) for k in range(4)]), 0)

            def closest(I, f, e, obj, a, costs=costs):
                k = obj['#axis']
                a[1].store(O.Poly.of(costs[k]))          # exact constants: float arithmetic on them stays decidable
                return sym('p%d' % k)
            nat = {'graphite2::Zones::closest': closest, 'std::numeric_limits<float>::max': lambda I, f, e, obj, a: O.Poly.of(10 ** 30)}
            it = O.Interp(fx, natives=nat)
            it.MAX_STEPS = 8000
            it.poly_sign = {}         # a comparison of symbolic quantities (none on the pinned tree) takes its first outcome: one path is enough to show a wrong shift
            colbox = [None]
            cases += 1
            r = it.call(fn, sc, [O.Ptr(None), O.LV(colbox, 0), O.Ptr(None)])
            rx, ry = O.Poly.of(r[PP + 'x']), O.Poly.of(r[PP + 'y'])
            desc = 'axis costs %s (x, y, x+y, x-y; -1 = no free point)' % (list(costs),)
            if not pos:
                if colbox[0] is not True or rx != 0 or ry != 0:
                    run.violated('RESOLVED', inst, fn.where(), '%s: no axis has a free point, yet resolve reports isCol = %s and the shift (%s, %s)' % (desc, colbox[0], rx, ry))
                    return
                continue
            if colbox[0] is not False:
                run.violated('RESOLVED', inst, fn.where(), '%s: an axis has a free point but the collision is reported as remaining' % desc)
                return
            best = min(range(4), key=lambda k: costs[k] if costs[k] >= 0 else 1e9)
            ax, ay = AX[best]
            along = rx * ax + ry * ay + sym('ox') * ax + sym('oy') * ay            # a . (offset + S)
            perp_s = rx * ay - ry * ax                                          # a_perp . S   with a_perp = (ay, -ax)
            perp_c = sym('sx') * ay - sym('sy') * ax
            if along != sym('p%d' % best) or perp_s != perp_c:
                other = [k for k in range(4) if k != best and rx * AX[k][0] + ry * AX[k][1] + sym('ox') * AX[k][0] + sym('oy') * AX[k][1] == sym('p%d' % k)]
                run.violated('RESOLVED', inst, fn.where(), '%s: the cheapest axis is %d, a = %s; the shift handed back is (%s, %s): a.(offset + shift) = %s, expected p%d, and the perpendicular part is %s, '
                             'expected that of the current shift, %s%s -- the glyph is reported resolved at a position that was never tested' %
                             (desc, best, AX[best], rx, ry, along, best, perp_s, perp_c, ('; the shift is the one of axis %d' % other[0]) if other else ''))
                return
    except O.Violation as v:
        run.violated('RESOLVED', inst, fn.where(), '%s (%s)' % (v.what, v.loc))
        return
    run.held('RESOLVED', inst, fn.where(), '%d cost assignments; offset, shift and the four best positions symbolic' % cases)
    return True


def _nbor_case(fx, fn, F, SC, n, parents, flags, fixi, rev, starti):
    """one interpretation of Pass::resolveCollisions; returns a problem string or None"""
    PS, PC = 'graphite2::Slot::', 'graphite2::SlotCollision::'
    srec, crec = fx.record('graphite2::Slot'), fx.record('graphite2::SlotCollision')
    slots, colls = [], []
    for k in range(n):
        r = O.Rec()
        for f in srec['fields']:
            r[PS + f['n']] = O.Ptr(None) if f.get('ptr') else 0
        r['#'] = k
        slots.append(r)
        c = O.Rec()
        for f in crec['fields']:
            c[PC + f['n']] = O.Ptr(None) if f.get('ptr') else 0
        for nm in ('_shift', '_offset', '_exclOffset'):
            c[PC + nm] = O.Rec({'graphite2::Position::x': 0, 'graphite2::Position::y': 0})
        c[PC + '_limit'] = O.Rec({'graphite2::Rect::bl': O.Rec({'graphite2::Position::x': 0, 'graphite2::Position::y': 0}), 'graphite2::Rect::tr': O.Rec({'graphite2::Position::x': 0, 'graphite2::Position::y': 0})})
        c[SC] = flags[k]
        c['#'] = k
        colls.append(c)
    for k in range(n):
        slots[k][F['next']] = O.Ptr(slots[k + 1]) if k + 1 < n else O.Ptr(None)
        slots[k][F['prev']] = O.Ptr(slots[k - 1]) if k > 0 else O.Ptr(None)
        slots[k][F['parent']] = O.Ptr(slots[parents[k]]) if parents[k] is not None else O.Ptr(None)
    for p in range(n):
        kids = [k for k in range(n) if parents[k] == p]
        slots[p][F['child']] = O.Ptr(slots[kids[0]]) if kids else O.Ptr(None)
        for a, b in zip(kids, kids[1:] + [None]):
            slots[a][F['sibling']] = O.Ptr(slots[b]) if b is not None else O.Ptr(None)
    merged = []

    def merge(I, f, e, obj, a):
        nb = I.rv(a[1])
        merged.append((nb.rec['#'], bool(I.rv(a[4])), bool(I.rv(a[5]))))
        return True
    nat = {'graphite2::Segment::collisionInfo': lambda I, f, e, obj, a: O.Ptr(colls[I.rv(a[0]).rec['#']]),
           'graphite2::ShiftCollider::initSlot': lambda I, f, e, obj, a: True,
           'graphite2::ShiftCollider::mergeSlot': merge,
           'graphite2::ShiftCollider::resolve': lambda I, f, e, obj, a: O.Rec({'graphite2::Position::x': 0, 'graphite2::Position::y': 0}),
           'graphite2::Slot::finalise': lambda I, f, e, obj, a: O.Rec({'graphite2::Position::x': 0, 'graphite2::Position::y': 0}),
           'graphite2::ShiftCollider::outputJsonDbg': lambda I, f, e, obj, a: None,
           'fabs': lambda I, f, e, obj, a: abs(I.rv(a[0])), 'std::fabs': lambda I, f, e, obj, a: abs(I.rv(a[0]))}
    it = O.Interp(fx, natives=nat)
    it.MAX_STEPS = 6000
    pas = O.Rec({'graphite2::Pass::m_colThreshold': 10})
    moved, hascol = [False], [False]
    r = it.call(fn, pas, [O.Ptr(O.Rec({'#seg': 1})), O.Ptr(slots[fixi]), O.Ptr(slots[starti]), O.LV([O.Rec({'#coll': 1})], 0), rev, 0, O.LV(moved, 0), O.LV(hascol, 0), O.Ptr(None)])
    # ---- what the property asks, derived from the structures and not from the function's own tests
    def root(k):
        seen = 0
        while parents[k] is not None and seen < 8:
            k = parents[k]
            seen += 1
        return k
    IGN, KERN, FIXF, ISCOL, SPACE = 2, 16, 1, 32, 128
    close = 4 if rev else 8
    walk, k = [], starti
    while k is not None and 0 <= k < n:
        walk.append(k)
        if k != starti and (flags[k] & close):
            break
        k = k - 1 if rev else k + 1
    rf = root(fixi)
    got = {m[0] for m in merged}
    desc = '%d slots, attached to %s, collision flags %s, fixing #%d %s from #%d' % (n, list(parents), list(flags), fixi, 'backwards' if rev else 'forwards', starti)
    if fixi in got:
        return '%s: the glyph being fixed is merged into its own collider as a neighbour' % desc
    for k in walk:
        if k == fixi or (flags[k] & (IGN | SPACE)):
            continue
        own = root(k) == rf
        chain, j = [k], k
        while parents[j] is not None and len(chain) < 8:
            j = parents[j]
            chain.append(j)
        kernable = any(flags[j] & KERN for j in chain)
        if not own and kernable:
            continue                # another kernable cluster: left to the kerning phase
        if rev and (flags[k] & FIXF) and not ((flags[k] & KERN) and (not own or k == rf)) and not (flags[k] & ISCOL):
            continue                # going backwards only what does not move itself (or is known to collide) is merged
        if k not in got:
            why = 'belongs to the target\'s own attachment cluster (root #%d)' % rf if own else 'is a non-ignored neighbour outside any kernable cluster'
            return '%s: slot #%d lies inside the collision range %s and %s, but is never handed to mergeSlot (merged: %s): the target can be moved onto it and is still reported resolved' % (desc, k, walk, why, sorted(got))
    return None


def _nbor_worker(t):
    fx, fn, F, SC = _JOBS['nbor']
    out = []
    cases = 0
    for (n, parents, flags, fixi, rev, starti) in t:
        cases += 1
        try:
            p = _nbor_case(fx, fn, F, SC, n, parents, flags, fixi, rev, starti)
        except O.Violation as v:
            p = '%s (%s)' % (v.what, v.loc)
        except AnalysisBroken as ex:
            return cases, None, str(ex)
        if p:
            return cases, p, None
    return cases, None, None


def nborscan_exec(run, fx, deep=False):
    """RESOLVED, "any non-ignored neighbour within reach": Pass::resolveCollisions (with inKernCluster, Slot::isChildOf, attachedTo,
    SlotCollision::ignore interpreted from their own CFGs; initSlot / mergeSlot / resolve of the collider are natives that record) is
    interpreted on every chain of 3 (thorough: 4) slots x attachment forest x collision flags drawn from {none, FIX|KERN, START, END,
    IGNORE, START|END} x glyph being fixed x direction.  Every slot of the collision range -- from `start` to the first slot beyond it
    that carries the closing flag -- that is not ignored and is either part of the target's own attachment TREE (root and all its
    descendants) or outside every kernable cluster must have been handed to mergeSlot; the target itself never is.  One direction:
    merging more than necessary is not reported."""
    import itertools
    import multiprocessing as mp
    from .util import setter_field
    fn = fx.one('graphite2::Pass::resolveCollisions')
    PS = 'graphite2::Slot::'
    F = {'next': setter_field(fx, PS + 'next', PS + 'm_next'), 'prev': setter_field(fx, PS + 'prev', PS + 'm_prev'),
         'parent': setter_field(fx, PS + 'attachTo', PS + 'm_parent'), 'child': setter_field(fx, PS + 'firstChild', PS + 'm_child'), 'sibling': setter_field(fx, PS + 'nextSibling', PS + 'm_sibling')}
    SC = setter_field(fx, 'graphite2::SlotCollision::setFlags', 'graphite2::SlotCollision::_flags')
    inst = 'every non-ignored neighbour of the collision range is merged (interpreted)'
    FL = (0, 1 | 16, 4, 8, 2, 4 | 8)
    tasks = []
    for n in ((3, 4) if deep else (3,)):
        forests = []
        for parents in itertools.product([None] + list(range(n)), repeat=n):
            ok = True
            for k in range(n):
                j, seen = k, 0
                while parents[j] is not None and seen <= n:
                    j = parents[j]
                    seen += 1
                if seen > n or parents[k] == k:
                    ok = False
            if ok:
                forests.append(parents)
        for parents in forests:
            for flags in itertools.product(FL, repeat=n):
                if sum(1 for f in flags if f) > (2 if n == 3 and not deep else 3 if n == 3 else 2):
                    continue
                for fixi in range(n):
                    if flags[fixi] & 2:
                        continue
                    for rev in (False, True):
                        tasks.append((n, parents, flags, fixi, rev, n - 1 if rev else 0))
    _JOBS['nbor'] = (fx, fn, F, SC)
    nproc = max(1, min(16, os.cpu_count() or 1))
    chunks = [tasks[i::nproc * 4] for i in range(nproc * 4)]
    if os.environ.get('VERIF_SERIAL') or nproc == 1:
        res = [_nbor_worker(c) for c in chunks]
    else:
        with mp.get_context('fork').Pool(nproc) as pool:
            res = pool.map(_nbor_worker, chunks, chunksize=1)
    for c, p, b in res:
        if b:
            raise AnalysisBroken(b)
    probs = sorted((p for c, p, b in res if p), key=len)
    if probs:
        run.violated('RESOLVED', inst, fn.where(), probs[0])
        return
    run.held('RESOLVED', inst, fn.where(), '%d scenarios' % len(tasks))


def freshpositions(run, fx):
    """RESOLVED: the verdict is about the glyph's position "at that moment".  The collider works on Slot::origin(), which is only as fresh
    as the last Segment::positionSlots: rule passes between two collision passes move, insert and delete glyphs.  So in
    Pass::runGraphite every path to collisionShift runs positionSlots first -- unconditionally, or under a test of a segment flag bit
    that nothing in the library ever SETS (on the pinned tree the SEG_INITCOLLISIONS test is such a dead guard: the statement that
    would set the bit is commented out).  Reported: a collisionShift call that positionSlots does not dominate while some function
    stores that bit into Segment::m_flags."""
    fn = fx.one('graphite2::Pass::runGraphite')
    inst = 'every collision pass positions the slots before it looks for collisions'
    cs = calls_in(fn, 'graphite2::Pass::collisionShift')
    ps = calls_in(fn, 'graphite2::Segment::positionSlots')
    if not cs:
        run.broken('RESOLVED', inst, 'no collisionShift call in Pass::runGraphite', fn.where())
        return
    dom_ = fn.dominators()
    for c in cs:
        bc = fn.block_of[c['i']]
        if any((fn.block_of[p['i']] in dom_[bc] and fn.block_of[p['i']] != bc) or (fn.block_of[p['i']] == bc and fn.pos_of[p['i']] < fn.pos_of[c['i']]) for p in ps):
            run.held('RESOLVED', inst, fn.loc(c), 'positionSlots dominates the collisionShift call')
            continue
        # conditional: which flag bits guard it, and does anything set them?
        bits = set()
        for cond, pol in dom.edge_guards(fn, fn.block_of[ps[0]['i']]) if ps else []:
            node = fn.N(cond) if isinstance(cond, int) else cond
            for x in fn.walk(node):
                if x.get('k') == 'DeclRefExpr' and (x.get('d') or '').startswith('graphite2::Segment::SEG_'):
                    bits.add(x['d'].split('::')[-1])
        setters = []
        for g in fx.all_fns():
            for e in calls_in(g, 'graphite2::Segment::flags'):
                if len(e.get('args') or []) != 1:
                    continue
                txt = g.render(g.N(e['args'][0]))
                for b in bits:
                    if b in txt and ('~' not in txt.split(b)[0][-12:]):
                        setters.append((g, e, b))
            for _, e in g.elements():
                if e['k'] in ('BinaryOperator', 'CompoundAssignOperator') and e.get('op') in ('=', '|=') and g.render(g.N(e['c'][0])).endswith('m_flags') and g.q.startswith('graphite2::Segment::') and not g.q.endswith('::flags'):
                    txt = g.render(g.N(e['c'][1]))
                    for b in bits:
                        if b in txt and ('~' not in txt.split(b)[0][-12:]):
                            setters.append((g, e, b))
        if not ps:
            run.violated('RESOLVED', inst, fn.loc(c), 'Pass::runGraphite runs collisionShift without positioning the slots at all')
        elif not bits:
            run.violated('RESOLVED', inst, fn.loc(c), 'positionSlots does not dominate collisionShift in Pass::runGraphite and the condition it runs under is not a test of a segment flag')
        elif setters:
            g, e, b = setters[0]
            run.violated('RESOLVED', inst, g.loc(e), '%s sets %s, and Pass::runGraphite skips positionSlots before collisionShift while that bit is set: slot origins are then cached from one collision pass to '
                         'the next although the rule passes in between move glyphs -- the later pass fixes against stale positions and reports a glyph resolved where it really overlaps' % (g.q, b))
        else:
            run.held('RESOLVED', inst, fn.loc(c), 'positionSlots runs unless %s is set, and nothing sets it' % sorted(bits))


class _Entered(Exception):
    pass


def reach_exec(run, fx):
    """RESOLVED, "any non-ignored neighbour within reach of its limit rectangle", by symbolic execution (ordint.Poly): the prefix of
    ShiftCollider::mergeSlot is interpreted with the neighbour's position, its bounding box, the margin and the limit rectangle as
    SYMBOLS, every comparison explored both ways, until the function either gives the neighbour up (returns without consulting the
    target's boxes) or goes on to the per-axis work (marker: the neighbour's slant box, the target's glyph id or the sequence weights are
    asked for).  Specification, not copied from the code's boolean structure: a neighbour is within reach when its box, grown by the
    margin, meets the x-span of the limit rectangle OR its y-span (the test is made on the neighbour's position relative to the target's
    origin; the target's own extent is much larger than the limit box, so meeting one span is all that can be asked), and a neighbour
    that forces a sequence order is always within reach.  One direction only: whoever is within reach must go on to the per-axis work;
    looking at more neighbours than necessary is harmless and not reported."""
    fn = fx.one('graphite2::ShiftCollider::mergeSlot')
    PC, PP, PR = 'graphite2::ShiftCollider::', 'graphite2::Position::', 'graphite2::Rect::'
    rec = fx.record('graphite2::ShiftCollider')
    sym = O.Poly.sym
    inst = 'a neighbour whose grown box meets a span of the limit rectangle is merged (symbolic)'
    paths = skipped = entered = 0
    for forced in (False, True):
        ch = O.Chooser()
        while True:
            ch.start()
            sc = O.Rec()
            for f in rec['fields']:
                sc[PC + f['n']] = O.Ptr(None) if f.get('ptr') else 0
            sc[PC + '_limit'] = O.Rec({PR + 'bl': O.Rec({PP + 'x': sym('lblx'), PP + 'y': sym('lbly')}), PR + 'tr': O.Rec({PP + 'x': sym('ltrx'), PP + 'y': sym('ltry')})})
            sc[PC + '_origin'] = O.Rec({PP + 'x': sym('tox'), PP + 'y': sym('toy')})
            sc[PC + '_currOffset'] = O.Rec({PP + 'x': sym('ox'), PP + 'y': sym('oy')})
            sc[PC + '_currShift'] = O.Rec({PP + 'x': sym('csx'), PP + 'y': sym('csy')})
            sc[PC + '_margin'] = sym('margin')
            sc[PC + '_target'] = O.Ptr(O.Rec({'#target': 1}))
            sc[PC + '_seqClass'] = 1 if forced else 0
            sc[PC + '_seqProxClass'] = 0
            sc[PC + '_seqOrder'] = 5

            def mark(I, f, e, obj, a):
                raise _Entered()

            def gid(I, f, e, obj, a):
                if isinstance(obj, O.Rec) and obj.get('#target'):
                    raise _Entered()
                return 5
            nat = {'graphite2::Segment::getFace': lambda I, f, e, obj, a: O.Ptr(O.Rec({'#face': 1})),
                   'graphite2::Face::glyphs': lambda I, f, e, obj, a: O.Rec({'#gc': 1}),
                   'graphite2::GlyphCache::check': lambda I, f, e, obj, a: True,
                   'graphite2::GlyphCache::getBoundingBBox': lambda I, f, e, obj, a: O.Rec({'graphite2::BBox::xi': sym('bxi'), 'graphite2::BBox::xa': sym('bxa'), 'graphite2::BBox::yi': sym('byi'), 'graphite2::BBox::ya': sym('bya')}),
                   'graphite2::GlyphCache::getBoundingSlantBox': mark,
                   'graphite2::GlyphCache::getSubBoundingBBox': mark, 'graphite2::GlyphCache::getSubBoundingSlantBox': mark, 'graphite2::GlyphCache::numSubBounds': mark,
                   'graphite2::Slot::gid': gid,
                   'graphite2::Slot::origin': lambda I, f, e, obj, a: O.Rec({PP + 'x': sym('nox'), PP + 'y': sym('noy')}),
                   'graphite2::SlotCollision::seqClass': lambda I, f, e, obj, a: 1, 'graphite2::SlotCollision::seqProxClass': lambda I, f, e, obj, a: 0,
                   'graphite2::SlotCollision::exclGlyph': lambda I, f, e, obj, a: 0,
                   'graphite2::SlotCollision::seqAboveWt': mark, 'graphite2::SlotCollision::seqBelowWt': mark, 'graphite2::SlotCollision::seqValignWt': mark,
                   'graphite2::SlotCollision::seqAboveXoff': mark, 'graphite2::SlotCollision::seqValignHt': mark,
                   'graphite2::Zones::exclude': mark, 'graphite2::Zones::exclude_with_margins': mark, 'graphite2::Zones::weighted': mark}
            it = O.Interp(fx, chooser=ch, natives=nat)
            it.MAX_STEPS = 20000
            it.poly_sign = {}
            cs = O.Rec({PP + 'x': sym('shx'), PP + 'y': sym('shy')})
            hascol = [False]
            went = None
            try:
                it.call(fn, sc, [O.Ptr(O.Rec({'#seg': 1})), O.Ptr(O.Rec({'#slot': 1})), O.Ptr(O.Rec({'#coll': 1})), O.LV([cs], 0), False, forced, O.LV(hascol, 0), False, O.Ptr(None)])
                went = False
            except _Entered:
                went = True
            except O.Violation as v:
                run.violated('RESOLVED', inst, fn.where(), '%s (%s)' % (v.what, v.loc))
                return
            paths += 1
            entered += went
            skipped += (not went)
            if not went:
                # the specification, asked of the same path (memoised signs; an atom the path never decided is explored both ways)
                nx = sym('nox') - sym('tox') + sym('shx')
                ny = sym('noy') - sym('toy') + sym('shy')
                q = {'ln': 0}
                reach = forced or (it.compare('>=', nx + sym('bxa') + sym('margin'), sym('lblx'), fn, q) and it.compare('<=', nx + sym('bxi') - sym('margin'), sym('ltrx'), fn, q)) \
                    or (it.compare('>=', ny + sym('bya') + sym('margin'), sym('lbly'), fn, q) and it.compare('<=', ny + sym('byi') - sym('margin'), sym('ltry'), fn, q))
                if reach:
                    def show(k):
                        try:
                            return ' '.join(('+ ' if c > 0 else '- ') + ('' if abs(c) == 1 else '%s*' % abs(c)) + '*'.join(vs or ('1',)) for vs, c in k)
                        except Exception:
                            return str(k)
                    dec = '; '.join('%s %s 0' % (show(k), '>' if v > 0 else '<' if v < 0 else '=') for k, v in list(it.poly_sign.items())[:8]) if isinstance(it.poly_sign, dict) else ''
                    run.violated('RESOLVED', inst, fn.where(), 'mergeSlot gives up a neighbour%s whose bounding box, grown by the margin, meets %s of the limit rectangle (decisions on this path: %s): the '
                                 'neighbour is never excluded from the target\'s intervals, so the target can be moved onto it and is still reported resolved' %
                                 (' that forces a sequence order' if forced else '', 'a span', dec[:400]))
                    return
            if not ch.advance():
                break
            if paths > 400:
                raise AnalysisBroken('more than 400 paths through the prefix of mergeSlot')
    if not entered:
        raise AnalysisBroken('the per-axis work of mergeSlot was never reached (markers: the neighbour\'s slant box, the target\'s glyph id, the sequence weights)')
    if not skipped:
        run.observe('RESOLVED: mergeSlot has no out-of-reach short circuit any more (every neighbour goes on to the per-axis work); nothing to decide')
        return
    run.held('RESOLVED', inst, fn.where(), '%d paths through the prefix (%d merged, %d given up); neighbour position, box, margin and limit symbolic' % (paths, entered, skipped))


def initslot_exec(run, fx):
    """LIMITARGS by symbolic execution (ordint.Poly): ShiftCollider::initSlot is interpreted with the limit rectangle, the current shift
    and the current offset as SYMBOLS (comparisons of symbolic quantities explored both ways); Zones::initialise is a native that records
    the range and the perpendicular coordinate each axis is given.  On every path, for every axis i with direction u_i in {(1,0), (0,1),
    (1,1)/2, (1,-1)/2}: the range is exactly the set of axis coordinates  a_i.(offset + shift + t*u_i)  for which the shifted glyph stays
    inside the limit rectangle in BOTH x and y -- derived here from the axis, the code's own `min` decisions being re-asked of the same
    path -- and the perpendicular coordinate handed over is  a_i_perp.(offset + shift).  Form-independent: helpers, reordered operands and
    hoisted locals give the same polynomials."""
    fn = fx.one('graphite2::ShiftCollider::initSlot')
    PC, PP, PR = 'graphite2::ShiftCollider::', 'graphite2::Position::', 'graphite2::Rect::'
    rec = fx.record('graphite2::ShiftCollider')
    sym = O.Poly.sym
    inst = 'every axis range is the set of positions inside the limit rectangle (symbolic)'
    AX = {0: (1, 0), 1: (0, 1), 2: (1, 1), 3: (1, -1)}
    paths = 0
    ch = O.Chooser()
    try:
        while True:
            ch.start()
            sc = O.Rec()
            for f in rec['fields']:
                sc[PC + f['n']] = O.Ptr(None) if f.get('ptr') else 0
            sc[PC + '_limit'] = O.Rec({PR + 'bl': O.Rec({PP + 'x': 0, PP + 'y': 0}), PR + 'tr': O.Rec({PP + 'x': 0, PP + 'y': 0})})
            for nm in ('_currOffset', '_currShift', '_origin'):
                sc[PC + nm] = O.Rec({PP + 'x': 0, PP + 'y': 0})
            sc[PC + '_ranges'] = O.It(O.Vec([O.Rec({'#axis': k}) for k in range(4)]), 0)
            sc[PC + '_len'] = O.It(O.Vec([0, 0, 0, 0]), 0)
            got = {}

            def initialise(I, f, e, obj, a, got=got):
                got[obj['#axis']] = (I.rv(a[0]), I.rv(a[1]), I.rv(a[4]))
                return None
            nat = {'graphite2::Zones::initialise': initialise,
                   'graphite2::Segment::getFace': lambda I, f, e, obj, a: O.Ptr(O.Rec({'#face': 1})),
                   'graphite2::Face::glyphs': lambda I, f, e, obj, a: O.Rec({'#gc': 1}),
                   'graphite2::GlyphCache::check': lambda I, f, e, obj, a: True,
                   'graphite2::GlyphCache::getBoundingBBox': lambda I, f, e, obj, a: O.Rec({'graphite2::BBox::xi': sym('bxi'), 'graphite2::BBox::xa': sym('bxa'), 'graphite2::BBox::yi': sym('byi'), 'graphite2::BBox::ya': sym('bya')}),
                   'graphite2::GlyphCache::getBoundingSlantBox': lambda I, f, e, obj, a: O.Rec({'graphite2::SlantBox::si': sym('ssi'), 'graphite2::SlantBox::sa': sym('ssa'), 'graphite2::SlantBox::di': sym('sdi'), 'graphite2::SlantBox::da': sym('sda')}),
                   'graphite2::Slot::gid': lambda I, f, e, obj, a: 5,
                   'graphite2::Slot::origin': lambda I, f, e, obj, a: O.Rec({PP + 'x': sym('orx'), PP + 'y': sym('ory')}),
                   'graphite2::Segment::collisionInfo': lambda I, f, e, obj, a: O.Ptr(O.Rec({'#coll': 1})),
                   'graphite2::SlotCollision::seqClass': lambda I, f, e, obj, a: 0, 'graphite2::SlotCollision::seqProxClass': lambda I, f, e, obj, a: 0,
                   'graphite2::SlotCollision::seqOrder': lambda I, f, e, obj, a: 0}
            it = O.Interp(fx, chooser=ch, natives=nat)
            it.MAX_STEPS = 20000
            it.poly_sign = {}
            lim = O.Rec({PR + 'bl': O.Rec({PP + 'x': sym('lblx'), PP + 'y': sym('lbly')}), PR + 'tr': O.Rec({PP + 'x': sym('ltrx'), PP + 'y': sym('ltry')})})
            shf = O.Rec({PP + 'x': sym('sx'), PP + 'y': sym('sy')})
            off = O.Rec({PP + 'x': sym('ox'), PP + 'y': sym('oy')})
            r = it.call(fn, sc, [O.Ptr(O.Rec({'#seg': 1})), O.Ptr(O.Rec({'#slot': 1})), O.LV([lim], 0), sym('margin'), sym('mw'), O.LV([shf], 0), O.LV([off], 0), 1, O.Ptr(None)])
            paths += 1
            if r is not True and r != 1:
                raise AnalysisBroken('initSlot returns %r on the symbolic glyph' % (r,))
            if sorted(got) != [0, 1, 2, 3]:
                run.violated('LIMITARGS', inst, fn.where(), 'initSlot initialises the ranges of axes %s, expected all four' % sorted(got))
                return
            # the limit that applies to the SHIFT is limit - offset (with a zero offset the two coincide; a symbolic offset is never "equal" to 0)
            lbv = (sym('lblx') - sym('ox'), sym('lbly') - sym('oy'))
            ltv = (sym('ltrx') - sym('ox'), sym('ltry') - sym('oy'))

            def pmin(u, v):
                return u if it.compare('<', u, v, fn, {'ln': 0}) else v            # re-asks the path's own decisions (memoised signs)
            cur = (sym('sx'), sym('sy'))
            tot = (sym('ox') + sym('sx'), sym('oy') + sym('sy'))
            for i in range(4):
                ax, ay = AX[i]
                here = tot[0] * ax + tot[1] * ay                    # a . (offset + shift)
                if i < 2:
                    room_p, room_m, step = ltv[i] - cur[i], cur[i] - lbv[i], 1
                    perp = tot[1 - i]
                else:
                    # along x+y both coordinates grow together; along x-y, y shrinks while x grows
                    rx_p, rx_m = ltv[0] - cur[0], cur[0] - lbv[0]
                    ry_p, ry_m = (ltv[1] - cur[1], cur[1] - lbv[1]) if ay > 0 else (cur[1] - lbv[1], ltv[1] - cur[1])
                    room_p, room_m, step = pmin(rx_p, ry_p), pmin(rx_m, ry_m), 2
                    perp = tot[0] - tot[1] * ay
                want_mn, want_mx = here - room_m * step, here + room_p * step
                mn, mx, a_ = (O.Poly.of(x) for x in got[i])
                if mn != want_mn or mx != want_mx:
                    run.violated('LIMITARGS', inst, fn.where(), 'axis %d (direction %s): initSlot gives its interval set the range [%s, %s]; the positions that keep the shifted glyph inside the limit '
                                 'rectangle in both coordinates are [%s, %s] -- a fixed glyph can be moved beyond its limit, or is denied room it has' % (i, AX[i], mn, mx, want_mn, want_mx))
                    return
                if a_ != perp:
                    run.violated('LIMITARGS', inst, fn.where(), 'axis %d: the perpendicular coordinate handed to the interval set is %s, expected %s' % (i, a_, perp))
                    return
            if not ch.advance():
                break
            if paths > 200:
                raise AnalysisBroken('more than 200 paths through initSlot')
    except O.Violation as v:
        run.violated('LIMITARGS', inst, fn.where(), '%s (%s)' % (v.what, v.loc))
        return
    run.held('LIMITARGS', inst, fn.where(), '%d paths; limit, shift and offset symbolic' % paths)


def limitdiag(run, fx):
    """LIMITARGS for the two diagonal interval sets: moving along x+y moves x and y the same way, along x-y opposite ways.  The range
    ShiftCollider::initSlot leaves free on a diagonal axis (a, b) is therefore bounded, in the positive direction, by the smaller of the
    room x has in direction a and the room y has in direction b, and in the negative direction by the rooms the other way -- where
    room(x,+) = limit.tr.x - shift.x, room(x,-) = shift.x - limit.bl.x, and likewise for y.  The four `min(..)` arguments of each diagonal
    arm are read as linear forms (through const locals) and compared with these, derived from the axis, not copied from the source."""
    from . import linear
    from .validators import case_context
    fn = fx.one('graphite2::ShiftCollider::initSlot')
    ctx = case_context(fn)

    def room(coord, sign):
        # linear form (as a frozenset of (term-suffix, coefficient))
        return frozenset({('_limit.tr.' + coord, 1), ('currShift.' + coord, -1)}) if sign > 0 else frozenset({('currShift.' + coord, 1), ('_limit.bl.' + coord, -1)})

    def form(n):
        t, c = linear.lin(fn, n)
        if c != 0:
            return None
        out = set()
        for k_, v in t.items():
            suf = [s_ for s_ in ('_limit.tr.x', '_limit.tr.y', '_limit.bl.x', '_limit.bl.y', 'currShift.x', 'currShift.y') if k_.endswith(s_)]
            if len(suf) != 1:
                return None
            out.add((suf[0], v))
        return frozenset(out)
    axes = {2: (1, 1), 3: (1, -1)}
    found = {}
    for _, e in fn.elements():
        if e['k'] != 'BinaryOperator' or e['op'] != '=' or fn.render(fn.N(e['c'][0])) not in ('mn', 'mx'):
            continue
        arms = [a for a in ctx.get(fn.block_of[e['i']], ()) if str(a) in ('2', '3')]
        if len(arms) != 1:
            continue
        mins = [x for x in fn.walk(e['c'][1]) if x['k'] == 'CallExpr' and (x.get('fq') or '').split('::')[-1].split('<')[0] == 'min' and len(x.get('args') or []) == 2]
        if len(mins) != 1:
            continue
        found[(int(arms[0]), fn.render(fn.N(e['c'][0])))] = (e, frozenset(form(fn.deref(a)) for a in mins[0]['args']))
    inst = 'diagonal limits are taken from the sides the axis moves towards'
    if len(found) != 4:
        # the min-form rule is a second opinion; the symbolic execution of initSlot (initslot_exec) decides the same question whatever the form
        run.observe('LIMITARGS: the diagonal limits of initSlot are not in the form mn / mx = +-2 * min(a, b) + shift (recognised %d of 4); decided by symbolic execution alone' % len(found))
        return
    bad = None
    for (ax, which), (e, got) in sorted(found.items()):
        a, b = axes[ax]
        sgn = 1 if which == 'mx' else -1
        want = frozenset({room('x', sgn * a), room('y', sgn * b)})
        if got != want and bad is None:
            bad = (ax, which, e, got, want)
    if bad:
        ax, which, e, got, want = bad
        run.violated('LIMITARGS', inst, fn.loc(e), 'on the %s axis `%s` is bounded by min over %s; moving that way along %s the glyph approaches %s: the free range reaches outside the limit '
                     'rectangle on one side (and is cut short on the other), so a resolved shift can leave the limit' % (
                         'x+y' if ax == 2 else 'x-y', which, [sorted(x) if x else None for x in got], 'x+y' if ax == 2 else 'x-y', [sorted(x) for x in want]))
    else:
        run.held('LIMITARGS', inst, fn.where(), 'mn / mx of both diagonal arms match the rooms derived from (1,1) and (1,-1)')


def targetown(run, fx):
    """LIMITARGS: in ShiftCollider::mergeSlot the TARGET's place is its own accumulated offset plus its own current shift, both members
    set by initSlot; the parameters describe the NEIGHBOUR.  No sum that contains the member `_currOffset` also contains a term taken
    from a parameter (the neighbour's `currShift` in place of the target's `_currShift`: same name but for an underscore)."""
    from . import linear
    fn = fx.one('graphite2::ShiftCollider::mergeSlot')
    pn = {p_['n'] for p_ in fn.f['params']}
    n, bad = 0, None
    for _, e in fn.elements():
        if e['k'] != 'DeclStmt':
            continue
        for x in e.get('decls', []):
            if x.get('init') is None or (x.get('t') or '').replace('const ', '') != 'float':
                continue
            try:
                t, c = linear.lin(fn, x['init'])
            except Exception:
                continue
            if not any('_currOffset.' in k_ for k_ in t):
                continue
            n += 1
            par = [k_ for k_ in t if k_.split('.')[0].split('->')[0] in pn]
            if par and bad is None:
                bad = (e, x.get('n'), par)
    inst = 'the target\'s position in mergeSlot is built from the target\'s own state'
    if n < 2:
        run.broken('LIMITARGS', inst, 'expected the target position locals (tx, ty) of mergeSlot, found %d sums over _currOffset' % n, fn.where())
    elif bad:
        e, nm, par = bad
        run.violated('LIMITARGS', inst, fn.loc(e), '`%s` adds the parameter term %s to the target\'s own offset: the parameters of mergeSlot describe the neighbour, so the exclusions are computed '
                     'for a target that is not where it really is and resolve() reports "resolved" while the octaboxes still overlap' % (nm, par))
    else:
        run.held('LIMITARGS', inst, fn.where(), '%d sums over _currOffset, members only' % n)


def initfresh(run, fx):
    """the colliders are reused from glyph to glyph; initSlot re-arms one for the next target.  Nothing in it may read a member that
    it (re)assigns from one of its parameters further down: the value read would be the one left over from the previous glyph (the target's origin computed from
    the previous target's offset).  For every member stored in ShiftCollider::initSlot / KernCollider::initSlot: no read of that member
    is reachable from the entry without passing one of its stores.  And Zones::exclude_with_margins removes the hard range on every
    path (ZONESET decides what remove() does; this decides that it is called)."""
    from .util import reaches_avoiding
    n = 0
    for q in ('graphite2::ShiftCollider::initSlot', 'graphite2::KernCollider::initSlot'):
        fn = fx.one(q)
        stores = {}
        for _, e in fn.elements():
            tgt = None
            if e['k'] == 'BinaryOperator' and e['op'] == '=':
                tgt = fn.strip(e['c'][0])
            elif e['k'] == 'CXXOperatorCallExpr' and (e.get('fq') or '').endswith('::operator=') and e.get('args'):
                tgt = fn.strip_all_casts(fn.N(e['args'][0]))
            if tgt is not None and tgt['k'] == 'MemberExpr' and tgt.get('dk') == 'Field' and fn.render(fn.N(tgt['c'][0])) == 'this':
                stores.setdefault(tgt['d'], []).append((e, tgt['i']))
        first = fn.blocks[fn.entry]['el'][0] if fn.blocks[fn.entry]['el'] else None
        pvids = {p_['vid'] for p_ in fn.f['params']}

        def from_param(e_):
            rhs = e_['c'][1] if e_['k'] == 'BinaryOperator' else (e_['args'][1] if len(e_.get('args') or []) > 1 else None)
            return rhs is not None and fn.strip_all_casts(fn.N(rhs)).get('vid') in pvids
        for F_, sts in stores.items():
            if not any(from_param(e_) for e_, _ in sts):
                continue            # state the collider carries from glyph to glyph on purpose (KernCollider's slice table) is not an instance
            n += 1
            inst = '%s reads %s only after setting it' % (q.split('graphite2::')[-1], F_.split('::')[-1])
            lhs_ids = {i_ for _, i_ in sts}
            reads = [x for _, x in fn.elements() if x['k'] == 'MemberExpr' and x.get('d') == F_ and x['i'] not in lhs_ids and fn.render(fn.N(x['c'][0])) == 'this']
            bad = None
            exposed_reads = []
            for r_ in reads:
                # a read that is the object of a sub-member store (`_limit.bl.x = ..`) is a write, not a read
                par = fn.parents().get(r_['i'], [])
                top, hops = r_['i'], 0
                while par and fn.N(par[0])['k'] == 'MemberExpr' and hops < 6:
                    top, par, hops = par[0], fn.parents().get(par[0], []), hops + 1
                if par and fn.N(par[0])['k'] in ('BinaryOperator', 'CompoundAssignOperator') and fn.N(par[0]).get('op', '').endswith('=') and fn.N(par[0])['op'] not in ('==', '!=', '<=', '>=') and fn.N(par[0])['c'][0] == top and fn.N(par[0])['op'] == '=':
                    continue
                exposed_reads.append(r_)
            # blocks reachable from the entry before any store of the member has run
            spos = {}
            for e_, _ in sts:
                b_ = fn.block_of[e_['i']]
                spos[b_] = min(spos.get(b_, 10 ** 9), fn.pos_of[e_['i']])
            seen, stk = set(), [fn.entry]
            while stk and bad is None:
                b_ = stk.pop()
                if b_ in seen:
                    continue
                seen.add(b_)
                lim = spos.get(b_)
                for r_ in exposed_reads:
                    if fn.block_of[r_['i']] == b_ and (lim is None or fn.pos_of[r_['i']] < lim):
                        bad = r_
                        break
                if lim is None:
                    stk.extend(x for x in fn.succs(b_) if x is not None)
            if bad:
                run.violated('LIMITARGS', inst, fn.loc(bad), '%s reads `%s` at line %s before any of its assignments in this function has run: the value belongs to the glyph the collider handled '
                             'last, so the target\'s geometry (and every exclusion computed from it) is displaced by the difference' % (q, fn.render(bad), bad['ln']))
            else:
                run.held('LIMITARGS', inst, fn.where(), '%d read(s), all after a store' % len(reads))
    ex = fx.one('graphite2::Zones::exclude_with_margins')
    rm = calls_in(ex, 'graphite2::Zones::remove')
    inst = 'exclude_with_margins removes the hard range on every path'
    pv = [p_['vid'] for p_ in ex.f['params'][:2]]
    ok = [e for e in rm if len(e.get('args') or []) >= 2 and [ex.strip_all_casts(ex.N(a)).get('vid') for a in e['args'][:2]] == pv]
    if not ok:
        run.violated('ZONESET', inst, ex.where(), 'Zones::exclude_with_margins no longer calls remove(xmin, xmax) with its own range')
    else:
        blocks = {ex.block_of[e['i']] for e in ok}
        seen, st, esc = set(), [ex.entry], False
        while st:
            b = st.pop()
            if b in seen or b in blocks:
                continue
            seen.add(b)
            if b == ex.exit:
                esc = True
                break
            st.extend(x for x in ex.succs(b) if x is not None)
        if esc:
            run.violated('ZONESET', inst, ex.where(), 'a path through Zones::exclude_with_margins returns without remove(xmin, xmax): the range the neighbour occupies stays in the free intervals, '
                         'closest() may offer a position inside it and the collision is reported as resolved')
        else:
            run.held('ZONESET', inst, ex.where(), 'remove(xmin, xmax) on every path')
    if n < 8:
        run.broken('LIMITARGS', 'initSlot members', 'only %d members assigned from parameters in the two initSlot functions' % n, '')


def limitargs(run, fx):
    """LIMITARGS: "keeps the glyph's ACCUMULATED collision offset inside the limit rectangle in force for the glyph".  Both colliders are
    told three things about the glyph being fixed: its limit rectangle, the shift computed so far in this pass, and the offset accumulated
    in earlier passes; the limit is made relative to the accumulated offset (ShiftCollider: limit - currOffset; KernCollider: the clamp
    _limit - _offsetPrev).  At every call of initSlot the parameter that plays the accumulated-offset role (the one stored into the field
    the limit is made relative to) must receive SlotCollision::offset(), the in-pass role SlotCollision::shift(), the rectangle
    SlotCollision::limit() -- all of the collision record of the very slot passed as the target."""
    roles_by_field = {'_currOffset': 'offset', '_offsetPrev': 'offset', '_currShift': 'shift', '_limit': 'limit'}
    getter = {'offset': 'graphite2::SlotCollision::offset', 'shift': 'graphite2::SlotCollision::shift', 'limit': 'graphite2::SlotCollision::limit'}
    n = 0
    for cls in ('graphite2::ShiftCollider', 'graphite2::KernCollider'):
        fn = fx.one(cls + '::initSlot')
        pv = {p_['vid']: k for k, p_ in enumerate(fn.f['params'])}
        role = {}
        for _, e in fn.elements():
            if e['k'] in ('BinaryOperator', 'CXXOperatorCallExpr') and (e.get('op') == '=' or (e.get('fq') or '').endswith('operator=')):
                args = e.get('args') if e.get('args') is not None else e.get('c')
                if not args or len(args) < 2:
                    continue
                l = fn.strip(args[0])
                if l['k'] == 'MemberExpr' and l.get('dk') == 'Field' and l['d'].split('::')[-1] in roles_by_field:
                    for x in fn.walk(args[1]):
                        if x['k'] == 'DeclRefExpr' and x.get('vid') in pv:
                            role.setdefault(roles_by_field[l['d'].split('::')[-1]], set()).add(pv[x['vid']])
        # the limit rectangle may be combined with the offset parameter before it is stored: that parameter is NOT the rectangle
        if 'limit' in role and 'offset' in role:
            role['limit'] = role['limit'] - role['offset']
        if any(len(role.get(r, ())) != 1 for r in ('offset', 'shift', 'limit')):
            run.broken('LIMITARGS', '%s::initSlot parameter roles' % cls.split('::')[-1], 'cannot identify which parameters are stored as limit / in-pass shift / accumulated offset: %s' % role, fn.where())
            continue
        idx = {r: next(iter(role[r])) for r in ('offset', 'shift', 'limit')}
        slot_idx = [k for k, p_ in enumerate(fn.f['params']) if 'Slot *' in (p_.get('t') or '')]
        for cf, ce in callers_of(fx, cls + '::initSlot'):
            n += 1
            inst = '%s::initSlot called from %s' % (cls.split('::')[-1], cf.q.split('::')[-1])
            args = ce['args']
            recv = set()
            probs = []
            def through_locals(x):
                x = cf.strip_all_casts(cf.deref(x))
                for _ in range(4):
                    if x['k'] != 'DeclRefExpr' or x.get('vid') is None or x.get('dk') != 'Var':
                        break
                    inits = [dd for _, st_ in cf.elements() if st_['k'] == 'DeclStmt' for dd in st_['decls'] if dd.get('vid') == x['vid'] and dd.get('init') is not None]
                    assigned = any(u['k'] in ('BinaryOperator', 'CompoundAssignOperator') and u['op'].endswith('=') and u['op'] not in ('==', '!=', '<=', '>=') and
                                   cf.strip(u['c'][0]).get('vid') == x['vid'] for _, u in cf.elements())
                    if len(inits) != 1 or assigned:
                        break
                    x = cf.strip_all_casts(cf.deref(inits[0]['init']))
                return x
            for r in ('limit', 'shift', 'offset'):
                a = through_locals(args[idx[r]])
                if a['k'] != 'CXXMemberCallExpr' or a.get('fq') != getter[r]:
                    probs.append('the %s parameter `%s` receives %s, expected the slot\'s SlotCollision::%s()' % (
                        {'limit': 'limit-rectangle', 'shift': 'in-pass shift', 'offset': 'accumulated-offset'}[r], fn.f['params'][idx[r]]['n'], cf.render(a), r))
                else:
                    recv.add(cf.render(cf.strip_all_casts(cf.N(a['obj']))))
            if not probs and len(recv) != 1:
                probs.append('limit, shift and offset are taken from different collision records: %s' % sorted(recv))
            if not probs and slot_idx:
                # the record is seg->collisionInfo(<the target slot>)
                rv = next(iter(recv))
                tgt = cf.render(cf.strip_all_casts(args[slot_idx[0]]))
                d = None
                for _, x in cf.elements():
                    if x['k'] == 'DeclStmt':
                        for dd in x['decls']:
                            if dd.get('n') == rv and dd.get('init') is not None:
                                d = cf.strip_all_casts(dd['init'])
                ok_slot = {tgt}
                for _, x in cf.elements():              # the attachment base of the target (kerning moves the whole cluster): a local started at the
                    if x['k'] == 'DeclStmt':            # target, or computed from the target alone by a helper (clusterBase(slotFix))
                        for dd in x['decls']:
                            if dd.get('init') is None or 'Slot' not in (dd.get('t') or ''):
                                continue
                            ini = cf.strip_all_casts(dd['init'])
                            if cf.render(ini) == tgt:
                                ok_slot.add(dd['n'])
                            elif ini['k'] == 'CallExpr' and len(ini.get('args') or []) == 1 and cf.render(cf.strip_all_casts(ini['args'][0])) == tgt:
                                ok_slot.add(dd['n'])
                if d is None or d.get('fq') != 'graphite2::Segment::collisionInfo' or cf.render(cf.strip_all_casts(d['args'][0])) not in ok_slot:
                    probs.append('the collision record %s is not seg->collisionInfo(%s) (or of its attachment base), the record of the slot being fixed' % (rv, tgt))
            if probs:
                run.violated('LIMITARGS', inst, cf.loc(ce), probs[0] + ': the limit is then applied relative to the wrong quantity and the accumulated offset can leave the rectangle')
            else:
                run.held('LIMITARGS', inst, cf.loc(ce), 'limit(), shift(), offset() of collisionInfo(target) in the limit / in-pass / accumulated roles')
    if n < 2:
        run.broken('LIMITARGS', 'call sites', 'expected 2 initSlot call sites, found %d' % n)


def kernclamp(run, fx):
    """KernCollider::resolve clamps its answer so that previous offset + kern stays inside the limit: the returned x is
    min(_limit.tr.x - _offsetPrev.x, max(<needed>, _limit.bl.x - _offsetPrev.x)) (either nesting), compared as linear forms."""
    from . import linear
    fn = fx.one('graphite2::KernCollider::resolve')
    inst = 'KernCollider::resolve clamps previous offset + kern into the limit'
    calls = [e for e in calls_in(fn) if (e.get('fq') or '').split('::')[-1] in ('min', 'max') and len(e.get('args') or []) == 2]
    def form(x):
        try:
            t, c = linear.lin(fn, x)
        except Exception:
            return None
        return (tuple(sorted(t.items())), c)
    want_hi = (tuple(sorted({'this->_limit.tr.x': 1, 'this->_offsetPrev.x': -1}.items())), 0)
    want_lo = (tuple(sorted({'this->_limit.bl.x': 1, 'this->_offsetPrev.x': -1}.items())), 0)
    has_hi = has_lo = False
    forms = []
    for e in calls:
        nm = e['fq'].split('::')[-1]
        for a in e['args']:
            f = form(a)
            forms.append((nm, f))
            if nm == 'min' and f == want_hi:
                has_hi = True
            if nm == 'max' and f == want_lo:
                has_lo = True
    # ... and the two are NESTED (a two-sided clamp): min(hi, max(x, lo)) or max(lo, min(x, hi)), whichever way the arguments are ordered;
    # min(x, hi) on one branch and max(x, lo) on another leaves one bound unchecked on each
    nested = False
    for e in calls:
        nm = e['fq'].split('::')[-1]
        want_self, want_other, other = (want_hi, want_lo, 'max') if nm == 'min' else (want_lo, want_hi, 'min')
        fa = [form(a) for a in e['args']]
        for k_ in (0, 1):
            if fa[k_] == want_self:
                o = fn.strip_all_casts(fn.deref(e['args'][1 - k_]))
                if o['k'] == 'CallExpr' and (o.get('fq') or '').split('::')[-1] == other and any(form(a2) == want_other for a2 in (o.get('args') or [])):
                    nested = True
    if not calls:
        run.broken('LIMITARGS', inst, 'no min/max clamp found in KernCollider::resolve', fn.where())
    elif has_hi and has_lo and not nested:
        run.violated('LIMITARGS', inst, fn.where(), 'both bounds appear, but not as one two-sided clamp min(hi, max(x, lo)): on each path one of the two bounds of the limit is not applied')
    elif has_hi and has_lo:
        run.held('LIMITARGS', inst, fn.where(), 'min(.., _limit.tr.x - _offsetPrev.x) and max(.., _limit.bl.x - _offsetPrev.x)')
    else:
        run.violated('LIMITARGS', inst, fn.where(), 'the kern is no longer clamped to [_limit.bl.x - _offsetPrev.x, _limit.tr.x - _offsetPrev.x] (upper bound present: %s, lower bound present: %s; '
                     'clamp operands seen: %s)' % (has_hi, has_lo, [f for f in forms if f[1]][:4]))


def _num(s):
    try:
        return float(str(s).rstrip('f'))
    except ValueError:
        return None


def initialise_exec(run, fx):
    """ZONESET, the base case, on a RE-USED set: Zones::initialise is interpreted (rules/ordint.py) on interval sets that already hold
    0..3 intervals from the glyph fixed before (the colliders live for a whole pass and are initialised once per glyph).  Afterwards the
    set is exactly one open interval [xmin, xmax] -- whatever it held before: nothing of the previous glyph's intervals or bounds
    survives -- and the bounds are the new ones."""
    keys = [k for k in fx.raw['functions'] if k.startswith('_ZN9graphite25Zones10initialise')]
    if len(keys) < 2:
        run.broken('ZONESET', 'initialise leaves one open interval over the new range', 'the two instantiations of Zones::initialise were not found')
        return
    cases = 0
    for key in sorted(keys):
        fn = fx.fn(key)
        inst = 'initialise leaves one open interval over the new range (%s, interpreted)' % fn.f.get('qt', key).split('<')[-1].rstrip('>')
        prob = None
        try:
            for old in ([], [(2, 4)], [(1, 2), (5, 6)], [(0, 1), (2, 3), (8, 9)]):
                for (xmin, xmax) in ((3, 7), (0, 9), (5, 5)):
                    z = mk_zone(0, 9, old)
                    it = O.Interp(fx)
                    it.coords_may_feed_costs = True
                    it.MAX_STEPS = 4000
                    cases += 1
                    it.call(fn, z, [O.Co(xmin), O.Co(xmax), O.Op(), O.Op(), O.Op()])
                    ex = z[PZ + '_exclusions'].items
                    desc = 'a set that held %s, initialised for [%s, %s]' % (old or 'nothing', xmin, xmax)
                    got = [(r[PX + 'x'].v if isinstance(r[PX + 'x'], O.Co) else '?', r[PX + 'xm'].v if isinstance(r[PX + 'xm'], O.Co) else '?', bool(r[PX + 'open'])) for r in ex]
                    if got != [(xmin, xmax, True)]:
                        prob = '%s: afterwards it holds %s, expected the single open interval [(%s, %s, open)] -- intervals of the glyph fixed before survive into this one' % (desc, got, xmin, xmax)
                        break
                    if z[PZ + '_pos'].v != xmin or z[PZ + '_posm'].v != xmax:
                        prob = '%s: the bounds are [%s, %s] afterwards' % (desc, z[PZ + '_pos'].v, z[PZ + '_posm'].v)
                        break
                if prob:
                    break
        except O.Violation as v:
            prob = '%s (%s)' % (v.what, v.loc)
        if prob:
            run.violated('ZONESET', inst, fn.where(), prob)
        else:
            run.held('ZONESET', inst, fn.where(), '%d abstract executions' % cases)


def run(run):
    fx = run.facts('Q0')
    N = 4 if run.tier == 'thorough' and not run.cfg_tag else 3
    for name, f in (('ZONESET', lambda: zoneset(run, fx, N)), ('ZONESET', lambda: initialise_exec(run, fx)), ('ZONEWRITERS', lambda: zonewriters(run, fx)),
                    ('OFFERED', lambda: offered(run, fx, N)), ('RESOLVED', lambda: resolved(run, fx)), ('RESOLVED', lambda: verdictshift(run, fx)),
                    ('LIMITARGS', lambda: limitargs(run, fx)), ('LIMITARGS', lambda: kernclamp(run, fx)), ('LIMITARGS', lambda: initfresh(run, fx)), ('RESOLVED', lambda: rangestart(run, fx)), ('RESOLVED', lambda: resolve_exec(run, fx)), ('RESOLVED', lambda: reach_exec(run, fx)), ('RESOLVED', lambda: freshpositions(run, fx)), ('RESOLVED', lambda: nborscan_exec(run, fx, run.tier == 'thorough' and not run.cfg_tag)), ('RESOLVED', lambda: axisbase(run, fx, optional=True)), ('RESOLVED', lambda: axisbase(run, fx, 'graphite2::ShiftCollider::mergeSlot', 'torg', 'mergeSlot places the limit window of axis i at that axis\' own form of the offset')), ('LIMITARGS', lambda: initslot_exec(run, fx)), ('LIMITARGS', lambda: limitdiag(run, fx)), ('LIMITARGS', lambda: targetown(run, fx))):
        try:
            f()
        except AnalysisBroken as ex:
            if 'coordinate difference is compared with something other than 0' in str(ex) or 'a coordinate is compared with a constant' in str(ex):
                # the interval code classifies end points with a tolerance instead of exactly: two edges closer than the tolerance are
                # ordered differently by different comparisons, so "sorted, disjoint, nothing excluded is offered" cannot hold
                run.violated(name, 'interval end points are classified exactly', '', 'the interval set no longer only COMPARES end points: %s -- with a tolerance in the classification a '
                             'removal that starts just past an interval\'s end lengthens it into the excluded range, and insert can split outside the interval' % str(ex)[:220])
            else:
                run.broken(name, 'engine', str(ex))
    try:
        from . import vecmodel
        vecmodel.check(run, fx, 'ZONEWRITERS')       # the native Vector model the interpreter uses, checked against List.h's own code
    except AnalysisBroken as ex:
        run.broken('ZONEWRITERS', 'vector model', str(ex))
    run.assume('floats are finite and not NaN (so a - b >= 0 is a >= b); [_pos, _posm] is well-formed, as C17 itself presupposes')
    run.assume('bounded exhaustive: every list of up to %d intervals; longer lists are not enumerated' % N)
