"""NOESCAPE (C16.4): a pointer derived from a Face::Table buffer is never stored into memory
that outlives the table.

Interprocedural taint on the typed-pointer IR.  Labels: 'S' (derived from a table buffer),
('P', i) (value of parameter i), ('D', i) (loaded from memory reachable from parameter i).
Memory is abstracted by root: alloca / fresh allocation (local until published), parameter
(any depth), non-local.  Function summaries (labels stored into memory reachable from each
parameter, labels returned, labels in the memory the returned pointer points to, labels stored
to globals) are iterated to a fixed point over the call graph; the verdict is taken at the API
entry points, where memory reachable from a parameter or returned to the caller outlives
every table.  Allowed sinks (dropped at the store): Face::Table::_p itself and
DirectCmap::{_smp,_bmp}, which live exactly as long as their sibling member _cmap.
"""
import re
from .eff import struct_name
from .ir import ALLOCATORS
from .facts import AnalysisBroken

SRC_CALL = re.compile(r'^graphite2::Face::Table::operator unsigned char const\*\(\) const$')
ALLOWED_SINKS = {('graphite2::Face::Table', 1): 'the table holder itself',
                 ('graphite2::DirectCmap', None): 'sub-table pointers into the member _cmap table (same lifetime)'}


def _ptrish(ins):
    t = ins.get('t') or ''
    return t.endswith('*') or ins.get('op') == 'ptrtoint' or (t == 'i64' and ins.get('op') in ('add', 'sub', 'and', 'or', 'phi', 'select'))


class Summary:
    def __init__(self):
        self.out_store = {}     # param index -> set(labels)
        self.ret = set()
        self.ret_content = set()
        self.glob = set()
        self.witness = {}       # ('store', i) / 'ret' / 'glob' -> (function, line)

    def key(self):
        return (tuple(sorted((k, tuple(sorted(map(str, v)))) for k, v in self.out_store.items())),
                tuple(sorted(map(str, self.ret))), tuple(sorted(map(str, self.ret_content))), tuple(sorted(map(str, self.glob))))


class NoEscape:
    def __init__(self, ir, direct_fields):
        self.ir = ir
        self.sum = {n: Summary() for n in ir.funcs}
        self.direct_fields = direct_fields      # indices of DirectCmap::_smp/_bmp

    def root(self, f, v, depth=0):
        """('alloca', id) | ('fresh', id) | ('param', i) | ('global', name) | ('other',)"""
        if isinstance(v, int):
            memo = f.setdefault('_rootmemo', {})
            if v in memo:
                return memo[v]
            busy = f.setdefault('_rootbusy', set())
            if v in busy:
                return ('const',)          # cycle through phis: contributes nothing
            busy.add(v)
            r = self._root(f, v, depth)
            busy.discard(v)
            if not busy:
                memo[v] = r
            elif r[0] != 'const':
                memo[v] = r
            return r
        return self._root(f, v, depth)

    def _root(self, f, v, depth=0):
        if depth > 200:
            return ('other',)
        if isinstance(v, dict):
            if 'g' in v:
                return ('global', v['g'])
            if 'ce' in v and v.get('o'):
                return self.root(f, v['o'][0], depth + 1)
            return ('const',)
        if v < len(f['args']):
            return ('param', v)
        d = f['byid'].get(v)
        if d is None:
            return ('other',)
        op = d['op']
        if op == 'alloca':
            return ('alloca', v)
        if op in ('bitcast', 'getelementptr', 'addrspacecast', 'inttoptr'):
            return self.root(f, d['o'][0], depth + 1)
        if op == 'load':
            r = self.root(f, d['o'][0], depth + 1)
            if r[0] in ('param', 'global'):
                return r                      # any depth below a parameter / global stays with it
            if r[0] in ('alloca', 'fresh'):
                return ('via', r)             # pointer stored in a local: unknown pointee, see callers of root()
            return ('other',)
        if op in ('phi', 'select'):
            ops = d['o'] if op == 'phi' else d['o'][1:]
            rs = [self.root(f, o, depth + 1) for o in ops if not (isinstance(o, dict) and o.get('k') in ('null', 'undef'))]
            rs = [r for r in rs if r[0] != 'const']
            if not rs:
                return ('const',)
            for pref in ('global', 'other', 'via', 'param', 'fresh', 'alloca'):
                for r in rs:
                    if r[0] == pref:
                        return r
            return rs[0]
        if op == 'call':
            c = d.get('callee')
            if c in ALLOCATORS:
                return ('fresh', v)
            if c:
                cf = self.ir.funcs.get(self.ir.aliases.get(c, c))
                dem = cf['dem'] if cf else c
                if dem.startswith(('graphite2::gralloc', 'graphite2::grzeroalloc')) or re.search(r'graphite2::gr(zero)?alloc<', dem) or 'operator new' in dem:
                    return ('fresh', v)
            return ('callret', v)
        return ('other',)

    def analyse(self, name):
        ir = self.ir
        f = ir.funcs[name]
        S = Summary()
        val = {}
        mem = {}
        nargs = len(f['args'])
        for i in range(nargs):
            val[i] = {('P', i)}
        changed = True
        rounds = 0

        def labels(v):
            if isinstance(v, dict):
                if 'ce' in v and v.get('o'):
                    return labels(v['o'][0])
                return set()
            return val.get(v, set())

        def content(r):
            if r[0] in ('alloca', 'fresh'):
                return mem.get(r, set())
            if r[0] == 'param':
                return {('D', r[1])} | mem.get(r, set())
            if r[0] == 'via':
                return mem.get(r[1], set())
            return set()

        while changed and rounds < 12:
            changed = False
            rounds += 1
            for ins in f['ins']:
                op = ins['op']
                i = ins['i']
                new = None
                if op in ('bitcast', 'getelementptr', 'addrspacecast', 'inttoptr', 'ptrtoint', 'zext', 'sext', 'trunc'):
                    new = set(labels(ins['o'][0]))
                elif op in ('add', 'sub', 'and', 'or'):
                    new = set()
                    for o in ins['o']:
                        new |= labels(o)
                elif op in ('phi', 'select'):
                    new = set()
                    for o in (ins['o'] if op == 'phi' else ins['o'][1:]):
                        new |= labels(o)
                elif op == 'load':
                    p = ins['o'][0]
                    new = set()
                    pd = f['byid'].get(p) if isinstance(p, int) else None
                    if pd and pd['op'] == 'getelementptr':
                        sn, _ = struct_name(pd.get('st'))
                        last = pd['o'][-1].get('c') if isinstance(pd['o'][-1], dict) else None
                        if sn == 'graphite2::Face::Table' and last == 1 and len(pd['o']) == 3:
                            new.add('S')
                    r = self.root(f, p)
                    new |= content(r)
                elif op == 'store':
                    v, p = ins['o']
                    lv = labels(v)
                    if isinstance(v, int) and v >= nargs and not _ptrish(f['byid'].get(v, {})):
                        lv = set()
                    # content of what v points to travels with it
                    if isinstance(v, int):
                        rv = self.root(f, v)
                        lv = lv | (content(rv) - {('D', rv[1])} if rv[0] == 'param' else content(rv)) if rv[0] in ('alloca', 'fresh', 'via') else lv
                    if lv:
                        pd = f['byid'].get(p) if isinstance(p, int) else None
                        allowed = False
                        if pd and pd['op'] == 'getelementptr':
                            sn, _ = struct_name(pd.get('st'))
                            last = pd['o'][-1].get('c') if isinstance(pd['o'][-1], dict) else None
                            if sn == 'graphite2::Face::Table' and last == 1:
                                allowed = True
                            if sn == 'graphite2::DirectCmap' and last in self.direct_fields:
                                allowed = True
                        if not allowed:
                            r = self.root(f, p)
                            if r[0] in ('alloca', 'fresh'):
                                if not lv <= mem.get(r, set()):
                                    mem.setdefault(r, set()).update(lv)
                                    changed = True
                            elif r[0] == 'via':
                                if not lv <= mem.get(r[1], set()):
                                    mem.setdefault(r[1], set()).update(lv)
                                    changed = True
                            elif r[0] == 'param':
                                if not lv <= S.out_store.get(r[1], set()):
                                    S.out_store.setdefault(r[1], set()).update(lv)
                                    mem.setdefault(r, set()).update(lv)
                                    if 'S' in lv:
                                        S.witness.setdefault(('store', r[1]), (name, ins.get('ln'), ins.get('f')))
                                    changed = True
                            elif r[0] in ('global',):
                                if not lv <= S.glob:
                                    S.glob |= lv
                                    if 'S' in lv:
                                        S.witness.setdefault('glob', (name, ins.get('ln'), ins.get('f')))
                                    changed = True
                            elif r[0] in ('other', 'callret'):
                                # heap object obtained from somewhere unknown: treat as non-local
                                if 'S' in lv and 'S' not in S.glob:
                                    S.glob.add('S')
                                    S.witness.setdefault('glob', (name, ins.get('ln'), ins.get('f')))
                                    changed = True
                elif op == 'call':
                    c = ins.get('callee')
                    new = set()
                    targets = []
                    if c is not None:
                        c = ir.aliases.get(c, c)
                        if c in ir.funcs:
                            targets = [c]
                            if SRC_CALL.match(ir.funcs[c]['dem']):
                                new.add('S')
                    if ins.get('intr') and (c or '').startswith(('llvm.memcpy', 'llvm.memmove')) or c in ('memcpy', 'memmove'):
                        # copying bytes: content labels of the source flow into the destination's memory
                        dst, src = ins['o'][0], ins['o'][1]
                        rs, rd = self.root(f, src), self.root(f, dst)
                        cl = content(rs) - {('D', rs[1])} if rs[0] == 'param' else content(rs)
                        cl = {l for l in cl}
                        if cl:
                            if rd[0] in ('alloca', 'fresh'):
                                if not cl <= mem.get(rd, set()):
                                    mem.setdefault(rd, set()).update(cl)
                                    changed = True
                            elif rd[0] == 'param':
                                if not cl <= S.out_store.get(rd[1], set()):
                                    S.out_store.setdefault(rd[1], set()).update(cl)
                                    if 'S' in cl:
                                        S.witness.setdefault(('store', rd[1]), (name, ins.get('ln'), ins.get('f')))
                                    changed = True
                    for t in targets:
                        cs = self.sum[t]

                        def bind(ls):
                            out = set()
                            for l in ls:
                                if l == 'S':
                                    out.add('S')
                                elif l[0] == 'P' and l[1] < len(ins['o']):
                                    out |= labels(ins['o'][l[1]])
                                elif l[0] == 'D' and l[1] < len(ins['o']):
                                    a = ins['o'][l[1]]
                                    if isinstance(a, int):
                                        ra = self.root(f, a)
                                        out |= content(ra)
                            return out
                        new |= bind(cs.ret)
                        rc = bind(cs.ret_content)
                        if rc:
                            # the returned pointer points to memory holding these labels: model as a fresh root
                            r = ('fresh', i)
                            if not rc <= mem.get(r, set()):
                                mem.setdefault(r, set()).update(rc)
                                changed = True
                        for pi, ls in cs.out_store.items():
                            lv = bind(ls)
                            if not lv or pi >= len(ins['o']):
                                continue
                            a = ins['o'][pi]
                            ra = self.root(f, a) if isinstance(a, int) else ('const',)
                            if ra[0] in ('alloca', 'fresh'):
                                if not lv <= mem.get(ra, set()):
                                    mem.setdefault(ra, set()).update(lv)
                                    changed = True
                            elif ra[0] == 'via':
                                if not lv <= mem.get(ra[1], set()):
                                    mem.setdefault(ra[1], set()).update(lv)
                                    changed = True
                            elif ra[0] == 'param':
                                if not lv <= S.out_store.get(ra[1], set()):
                                    S.out_store.setdefault(ra[1], set()).update(lv)
                                    if 'S' in lv:
                                        S.witness.setdefault(('store', ra[1]), cs.witness.get(('store', pi), (name, ins.get('ln'), ins.get('f'))))
                                    changed = True
                            elif ra[0] in ('global', 'other', 'callret'):
                                if 'S' in lv and 'S' not in S.glob:
                                    S.glob.add('S')
                                    S.witness.setdefault('glob', cs.witness.get(('store', pi), (name, ins.get('ln'), ins.get('f'))))
                                    changed = True
                        if 'S' in cs.glob and 'S' not in S.glob:
                            S.glob.add('S')
                            S.witness.setdefault('glob', cs.witness.get('glob', (name, ins.get('ln'), ins.get('f'))))
                            changed = True
                elif op == 'ret' and ins['o']:
                    v = ins['o'][0]
                    lv = labels(v)
                    if not lv <= S.ret:
                        S.ret |= lv
                        changed = True
                    if isinstance(v, int):
                        rv = self.root(f, v)
                        cl = content(rv)
                        if rv[0] == 'param':
                            cl = cl - {('D', rv[1])}
                        if not cl <= S.ret_content:
                            S.ret_content |= cl
                            if 'S' in cl:
                                S.witness.setdefault('retc', (name, ins.get('ln'), ins.get('f')))
                            changed = True
                if new is not None and not _ptrish(ins):
                    new = set()
                if new is not None and new != val.get(i, set()):
                    if not new <= val.get(i, set()):
                        val[i] = val.get(i, set()) | new
                        changed = True
        return S

    def solve(self, max_rounds=40):
        ir = self.ir
        callers = {}
        for n, f in ir.funcs.items():
            for ins in f['ins']:
                if ins['op'] == 'call' and ins.get('callee'):
                    c = ir.aliases.get(ins['callee'], ins['callee'])
                    if c in ir.funcs:
                        callers.setdefault(c, set()).add(n)
        work = list(ir.funcs)
        inwork = set(work)
        steps = 0
        while work:
            n = work.pop()
            inwork.discard(n)
            steps += 1
            if steps > 40 * len(ir.funcs):
                raise AnalysisBroken('NOESCAPE summaries did not reach a fixed point')
            s = self.analyse(n)
            old = self.sum[n]
            for k, v in old.out_store.items():
                s.out_store.setdefault(k, set()).update(v)
            s.ret |= old.ret
            s.ret_content |= old.ret_content
            s.glob |= old.glob
            for k, v in old.witness.items():
                s.witness.setdefault(k, v)
            if s.key() != old.key():
                self.sum[n] = s
                for c in callers.get(n, ()):
                    if c not in inwork:
                        work.append(c)
                        inwork.add(c)
        return steps


def check(run, E, rule='NOESCAPE'):
    ir = E.ir
    fx = E.fx
    rec = fx.record('graphite2::DirectCmap')
    # IR field indices of DirectCmap: base class Cmap (vptr) is element 0; fields follow in order
    idx = {}
    for k, f in enumerate(rec['fields']):
        idx[f['n']] = k + 1
    direct = {idx.get('_smp'), idx.get('_bmp')}
    if None in direct:
        raise AnalysisBroken('DirectCmap::_smp/_bmp not found')
    # the allowance rests on a lifetime argument: the pointers live exactly as long as a sibling member that HOLDS the table.
    # Without a by-value Face::Table member in DirectCmap there is nothing that keeps the buffer borrowed: no allowance.
    holder = [f for f in rec['fields'] if (f.get('t') or '').replace('const ', '').strip() in ('graphite2::Face::Table', 'Face::Table')]
    if not holder:
        direct = set()
        run.observe('DirectCmap has no Face::Table member any more: stores of table pointers into _smp/_bmp are no longer covered by the same-lifetime allowance')
    ne = NoEscape(ir, direct)
    rounds = ne.solve()
    run.analysed['noescape_rounds'] = rounds
    nsrc = 0
    for f in ir.funcs.values():
        for ins in f['ins']:
            if ins['op'] == 'call' and ins.get('callee'):
                c = ir.funcs.get(ir.aliases.get(ins['callee'], ins['callee']))
                if c and SRC_CALL.match(c['dem']):
                    nsrc += 1
    run.analysed['table_pointer_sources'] = nsrc
    if nsrc < 20:
        run.broken(rule, '*', 'only %d uses of Face::Table::operator const byte* found' % nsrc)
    entries = [n for n in ir.funcs if re.match(r'^(gr_|graphite_)', n)]
    bad = 0
    for n in sorted(entries):
        s = ne.sum[n]
        probs = []
        for pi, ls in s.out_store.items():
            if 'S' in ls:
                probs.append(('memory reachable from API parameter %d' % pi, s.witness.get(('store', pi))))
        if 'S' in s.ret:
            probs.append(('the value returned to the caller', s.witness.get('ret')))
        if 'S' in s.ret_content:
            probs.append(('the object returned to the caller', s.witness.get('retc')))
        if 'S' in s.glob:
            probs.append(('non-local memory', s.witness.get('glob')))
        inst = 'entry %s' % n
        if probs:
            bad += 1
            w = probs[0][1]
            where = '%s:%s' % ((w[2] or '?').replace('/repo/', ''), w[1]) if w else ''
            run.violated(rule, inst, where, 'a pointer into a borrowed table buffer is stored into %s (first stored in %s): it outlives the '
                         'Face::Table that releases the buffer and would be dereferenced after release_table'
                         % ('; '.join(p[0] for p in probs), ir.funcs[w[0]]['dem'].split('(')[0] if w else '?'))
        else:
            run.held(rule, inst, '', 'no table-derived pointer reaches memory that outlives the call', bool(s.out_store or s.ret_content))
    return ne
