"""Linear forms over the CFG facts: an integer expression as {atom text: coefficient} + constant, looking through parentheses,
value-preserving casts and locals that stand for one expression.  Used to compare a bound that was tested with the offset that is
later added to a pointer, whatever the order of the terms or the local the difference was hoisted into."""
from collections import Counter
from .cfg import int_type

CASTS = ('ImplicitCastExpr', 'CStyleCastExpr', 'CXXStaticCastExpr', 'CXXFunctionalCastExpr', 'ParenExpr', 'ExprWithCleanups', 'MaterializeTemporaryExpr')


def _value_preserving(src_t, dst_t):
    s, d = int_type(src_t), int_type(dst_t)
    if s is None or d is None:
        return src_t == dst_t or s is None and d is None
    (sb, ss), (db, ds) = s, d
    if ds:                      # to signed: wider, or same width from signed
        return db > sb or (db == sb and ss)
    return (not ss) and db >= sb        # to unsigned: only from unsigned, not narrower


def lin(fn, n, through_unsigned=False, depth=0):
    """(Counter atom->coef, const) of expression n (element id or node)"""
    n = fn.N(n) if not isinstance(n, dict) else n
    k = n['k']
    if n.get('v') is not None and k != 'DeclRefExpr' or (k == 'DeclRefExpr' and n.get('v') is not None and n.get('vid') is None):
        return Counter(), int(n['v'])
    if k in CASTS and n.get('c'):
        c = fn.N(n['c'][0])
        if k in ('ParenExpr', 'ExprWithCleanups', 'MaterializeTemporaryExpr') or n.get('ck') in ('LValueToRValue', 'NoOp') \
                or _value_preserving(c.get('t'), n.get('t')) or through_unsigned:
            return lin(fn, c, through_unsigned, depth)
        return Counter({fn.render(fn.strip_all_casts(n), resolve=True) + ':' + (n.get('t') or ''): 1}), 0
    if k == 'DeclRefExpr' and n.get('vid') in fn.const_init and depth < 8:
        return lin(fn, fn.const_init[n['vid']], through_unsigned, depth + 1)
    if k == 'BinaryOperator' and n['op'] in ('+', '-'):
        a, ca = lin(fn, n['c'][0], through_unsigned, depth)
        b, cb = lin(fn, n['c'][1], through_unsigned, depth)
        out = Counter(a)
        for t, c in b.items():
            out[t] += c if n['op'] == '+' else -c
        return Counter({t: c for t, c in out.items() if c}), ca + (cb if n['op'] == '+' else -cb)
    if k == 'UnaryOperator' and n.get('op') == '-':
        a, ca = lin(fn, n['c'][0], through_unsigned, depth)
        return Counter({t: -c for t, c in a.items()}), -ca
    if k == 'BinaryOperator' and n['op'] == '*':
        for x, y in ((0, 1), (1, 0)):
            a, ca = lin(fn, n['c'][x], through_unsigned, depth)
            if not a:
                b, cb = lin(fn, n['c'][y], through_unsigned, depth)
                return Counter({t: c * ca for t, c in b.items() if c * ca}), cb * ca
    return Counter({fn.render(fn.strip_all_casts(n), resolve=True): 1}), 0


def diff(a, b):
    out = Counter(a[0])
    for t, c in b[0].items():
        out[t] -= c
    return Counter({t: c for t, c in out.items() if c}), a[1] - b[1]


def lower_bounds(fn, atom, pol):
    """the atomic fact as `form >= 0` readings: [(Counter, const)] such that form + const >= 0 is known"""
    n = fn.strip(atom)
    NEG = {'<': '>=', '<=': '>', '>': '<=', '>=': '<', '==': '!=', '!=': '=='}
    if n['k'] != 'BinaryOperator' or n['op'] not in NEG:
        return []
    op = n['op'] if pol else NEG[n['op']]
    a, b = lin(fn, n['c'][0]), lin(fn, n['c'][1])
    out = []
    if op in ('>=', '>', '=='):
        t, c = diff(a, b)
        out.append((t, c - (1 if op == '>' else 0)))
    if op in ('<=', '<', '=='):
        t, c = diff(b, a)
        out.append((t, c - (1 if op == '<' else 0)))
    return out


# ---- the same on rendered text (fully parenthesised infix, as cfg.Fn.render writes it): one side of a comparison in a canonical
# arrangement of its additive terms.  Terms are never moved across the comparison (a - b <= c is not a <= b + c in unsigned arithmetic).
def _split_top(s):
    """(left, op, right) when s is `(L op R)` with op one of + - * at parenthesis depth 1, else None"""
    if not (s.startswith('(') and s.endswith(')')):
        return None
    depth = 0
    for i, ch in enumerate(s):
        if ch == '(':
            depth += 1
        elif ch == ')':
            depth -= 1
            if depth == 0 and i != len(s) - 1:
                return None             # `(T)(x)` or `(a)(b)`: the outer parentheses do not match each other
    depth = 0
    i = 0
    while i < len(s):
        ch = s[i]
        if ch == '(' or ch == '[':
            depth += 1
        elif ch == ')' or ch == ']':
            depth -= 1
        elif depth == 1 and ch == ' ' and s[i:i + 3] in (' + ', ' - ', ' * ') :
            return s[1:i], s[i + 1], s[i + 3:-1]
        i += 1
    return None


def lin_text(s):
    s = s.strip()
    try:
        return Counter(), int(s)
    except ValueError:
        pass
    sp = _split_top(s)
    if sp is None:
        if s.startswith('(') and s.endswith(')') and _balanced(s[1:-1]):
            return lin_text(s[1:-1])
        return Counter({s: 1}), 0
    l, op, r = sp
    a, ca = lin_text(l)
    b, cb = lin_text(r)
    if op in '+-':
        out = Counter(a)
        for t, c in b.items():
            out[t] += c if op == '+' else -c
        return Counter({t: c for t, c in out.items() if c}), ca + (cb if op == '+' else -cb)
    if not a:
        return Counter({t: c * ca for t, c in b.items() if c * ca}), cb * ca
    if not b:
        return Counter({t: c * cb for t, c in a.items() if c * cb}), ca * cb
    return Counter({s: 1}), 0


def _balanced(s):
    d = 0
    for ch in s:
        if ch == '(':
            d += 1
        elif ch == ')':
            d -= 1
            if d < 0:
                return False
    return d == 0


def canon_text(s):
    """canonical spelling of one side: constant first, then the terms sorted"""
    t, c = lin_text(s)
    if not t:
        return str(c)
    parts = ['%+d*%s' % (k, v) for v, k in sorted(t.items())]
    return ('%d ' % c if c else '') + ' '.join(parts) if (c or len(parts) > 1 or list(t.values()) != [1]) else list(t)[0]
