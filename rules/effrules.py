"""Shared-write-set rules for C08 (purity), C09 (thread sharing) and parts of C16."""
import re
from . import dom
from .eff import Eff
from .facts import AnalysisBroken
from .util import CALL_KINDS, DTOR_KINDS

ENTRY_LOAD = {'gr_make_face', 'gr_make_face_with_ops', 'gr_make_face_with_seg_cache', 'gr_make_face_with_seg_cache_and_ops',
              'gr_make_file_face', 'gr_make_file_face_with_seg_cache', 'gr_make_font', 'gr_make_font_with_ops',
              'gr_make_font_with_advance_fn', 'gr_face_destroy', 'gr_font_destroy',
              'gr_start_logging', 'gr_stop_logging', 'graphite_start_logging', 'graphite_stop_logging'}

# the three documented lazy caches: (AST qualified name, guard predicate over normalised facts, what is filled, reason)
LAZY = [
    ('graphite2::GlyphCache::glyph',
     lambda f: f[0] == 'this->_glyph_loader' and f[1] == '!=' and f[2] == '0',
     '_glyphs[gid] / _boxes[gid]',
     'glyph loaded on first use from the immutable Glat/Gloc/glyf tables by const Loader members; keyed by glyph id only'),
    ('graphite2::Face::nameTable',
     lambda f: f[0] == 'this->m_pNames' and f[1] == '==' and f[2] == '0',
     'm_pNames',
     'name table copied on first label query from the immutable name table'),
    ('graphite2::Font::advance',
     lambda f: 'm_advances[' in f[0] and f[1] == '==',
     'm_advances[gid]',
     'hinted advance fetched once per glyph from the application callback'),
]


def api_entries(ir):
    return sorted(n for n in ir.funcs if re.match(r'^(gr_|graphite_)', n))


def setup(run, cfg='Q0'):
    key = '_eff_' + cfg
    if hasattr(run, key):
        return getattr(run, key)
    ir = run.ir(cfg)
    fx = run.facts(cfg)
    E = Eff(ir, fx)
    handlers = [n for n, f in ir.funcs.items() if f['dem'].startswith('(anonymous namespace)::') and 'regbank' in f['dem']]
    E.build_callgraph(handlers)
    setattr(run, key, E)
    return E


def guarded_region(fx, qname, pred):
    """(guarded callee mangled names, unguarded callee mangled names, guarded write lines, unguarded write lines, fn)"""
    fn = fx.one(qname)
    g_calls, u_calls = set(), set()
    g_lines, u_lines = set(), set()
    for b, e in fn.elements():
        facts = dom.facts_at_block(fn, b)
        guarded = any(pred(f) for f in facts)
        names = []
        if e['k'] in CALL_KINDS or e['k'] in DTOR_KINDS:
            if e.get('fm'):
                names.append(e['fm'])
        if e['k'] == 'CXXNewExpr' and e.get('opnewm'):
            names.append(e['opnewm'])
        if e['k'] == 'CXXDeleteExpr':
            names.append('<delete>')
        for n in names:
            (g_calls if guarded else u_calls).add(n)
        if e['k'] in ('BinaryOperator', 'CompoundAssignOperator') and e['op'].endswith('=') and e['op'] not in ('==', '!=', '<=', '>='):
            (g_lines if guarded else u_lines).add(e['ln'])
    return g_calls, u_calls, g_lines, u_lines, fn


def lazy_cuts(run, E, rule, disabled=False):
    """cut the call edges made inside the guarded fill regions; returns (cut edge set, {ir fn name: (guarded lines, row)})"""
    fx, ir = E.fx, E.ir
    cuts = set()
    lazyfn = {}
    for qname, pred, what, why in LAZY:
        g_calls, u_calls, g_lines, u_lines, fn = guarded_region(fx, qname, pred)
        irname = ir.aliases.get(fn.m, fn.m)
        if irname not in ir.funcs:
            raise AnalysisBroken('lazy cache %s not found in IR (%s)' % (qname, fn.m))
        if not g_lines and not g_calls:
            raise AnalysisBroken('lazy cache %s: guarded fill region not found (guard changed shape?)' % qname)
        for c in E.callgraph.get(irname, ()):
            base = c
            variants = {c, c.replace('C1E', 'C2E'), c.replace('D1E', 'D2E'), c.replace('D0E', 'D2E')}
            in_g = bool(variants & g_calls) or (c in ('free', '_ZdlPv', '_ZdaPv') and '<delete>' in g_calls) or c.startswith('EXTERNAL:')
            in_u = bool(variants & u_calls)
            if in_g and not in_u:
                cuts.add((irname, c))
        lazyfn[irname] = (g_lines, u_lines, qname, what, why, fn)
    return cuts, lazyfn


ALLOWED = ('local', 'fresh', 'null', 'const')


def _outparam(t):
    from .c08rules import OUT_PARAMS
    if not t.startswith('entryarg:'):
        return False
    i, fn = t[len('entryarg:'):].split('@', 1)
    return (fn, int(i)) in OUT_PARAMS


def shared_writes(E, reach):
    """[(fn name, inst, kind, offending owner tags)] over the reachable set"""
    out = []
    for fname in sorted(reach):
        if fname.startswith('EXTERNAL:') or fname not in E.ir.funcs:
            continue
        for ins, p, kind in E.writes_of(fname):
            o = E.owner(fname, p)
            o = E.bind_args(fname, o, reach)
            bad = [t for t in o if not (t in ALLOWED or t.startswith('percall:') or _outparam(t) or (t.startswith('logger:') and E.ir.cfg in ('tracing',)))]
            if bad:
                out.append((fname, ins, kind, sorted(bad)))
    return out


def deepconst(run, E, rule, entries, lazy_enabled=True, extra_cuts=()):
    ir = E.ir
    cuts, lazyfn = lazy_cuts(run, E, rule)
    cuts |= set(extra_cuts)
    reach = E.reachable(entries, cuts)
    run.analysed['reachable_functions'] = len(reach)
    run.analysed['cut_edges'] = len(cuts)
    if E.unknown_structs:
        pass
    sw = shared_writes(E, reach)
    hist = {}
    nw = 0
    for fname in reach:
        if fname in E.ir.funcs:
            for ins, p, kind in E.writes_of(fname):
                nw += 1
                for t in E.bind_args(fname, E.owner(fname, p), reach):
                    k = t.split(':')[0]
                    hist[k] = hist.get(k, 0) + 1
    run.analysed['writes_classified'] = nw
    run.analysed['owner_histogram'] = hist
    if E.unknown_structs:
        raise AnalysisBroken('struct types not classified SHARED / PER-CALL / ambiguous: %s' % sorted(E.unknown_structs))
    nwrites = 0
    by_fn = {}
    for fname, ins, kind, bad in sw:
        by_fn.setdefault(fname, []).append((ins, kind, bad))
    seen_lazy = set()
    for fname, items in sorted(by_fn.items()):
        dem = ir.funcs[fname]['dem']
        for ins, kind, bad in items:
            where = '%s:%s' % (_rel(ins.get('f') or ir.funcs[fname].get('file', '?')), ins.get('ln'))
            inst = '%s %s@%s' % (dem.split('(')[0], kind, ins.get('ln'))
            if fname in lazyfn and lazy_enabled:
                g_lines, u_lines, qname, what, why, fn = lazyfn[fname]
                seen_lazy.add(fname)
                if ins.get('ln') in g_lines and ins.get('ln') not in u_lines:
                    run.held(rule, inst, where, 'tabled lazy cache %s (%s): store dominated by its empty-slot guard; %s' % (qname.split('::')[-1], what, why))
                    continue
                run.violated(rule, inst, where, 'store into shared state %s in lazy cache %s is NOT dominated by the cache\'s empty-slot guard: '
                             'refilling is no longer idempotent / races with readers' % (bad, qname))
                continue
            if any(t.startswith('unknown') or t.startswith('unbound') for t in bad) and not any(t.startswith(('shared', 'global')) for t in bad):
                run.broken(rule, inst, 'cannot determine the owner of the memory written (%s)' % bad, where)
                continue
            path = _path_to(E, entries, fname, cuts)
            if all(t.startswith('entryarg:') for t in bad):
                run.violated(rule, inst, where, 'the library writes through an API parameter that is an INPUT (not a documented out-parameter): %s, '
                             'reached via %s' % (bad, ' -> '.join(path[:6])), {'owners': bad, 'call_path': path})
                continue
            run.violated(rule, inst, where,
                         'shaping/query code writes memory owned by shared state %s: %s is reachable from %s' %
                         (bad, dem.split('(')[0], ' -> '.join(path[:6])), {'owners': bad, 'call_path': path})
    if lazy_enabled:
        for fname, (g_lines, u_lines, qname, what, why, fn) in lazyfn.items():
            if fname in reach and fname not in seen_lazy:
                run.observe('lazy cache %s has no shared store any more' % qname)
    return reach, cuts, lazyfn, sw


def _rel(p):
    return p.replace('/repo/', '') if p else p


def _path_to(E, entries, target, cuts):
    """one call path from an entry to target (for the report)"""
    from collections import deque
    prev = {}
    dq = deque()
    for e in entries:
        prev[e] = None
        dq.append(e)
    while dq:
        n = dq.popleft()
        if n == target:
            break
        for c in E.callgraph.get(n, ()):
            if (n, c) in cuts or c in prev or c not in E.ir.funcs:
                continue
            prev[c] = n
            dq.append(c)
    if target not in prev:
        return [target]
    path = []
    n = target
    while n is not None:
        path.append(E.ir.funcs[n]['dem'].split('(')[0] if n in E.ir.funcs else n)
        n = prev[n]
    return list(reversed(path))


def noglobal(run, E, rule, reach):
    ir = E.ir
    mut = [g for g in ir.globals.values() if not g['const'] and not g.get('decl')]
    for g in mut:
        # is it written or read from the reachable set?
        users = []
        for fname in reach:
            f = ir.funcs.get(fname)
            if not f:
                continue
            for ins in f['ins']:
                for o in ins['o']:
                    if isinstance(o, dict) and (o.get('g') == g['name'] or (o.get('ce') and any(isinstance(x, dict) and x.get('g') == g['name'] for x in o.get('o', [])))):
                        users.append((fname, ins))
        inst = 'global %s' % g['dem']
        if users:
            fn0, ins0 = users[0]
            run.violated(rule, inst, '%s:%s' % (_rel(ins0.get('f', '?')), ins0.get('ln')), 'mutable global `%s` is used by code reachable from the shaping API (%s): '
                         'process-wide state makes results history- and schedule-dependent' % (g['dem'], ir.funcs[fn0]['dem'].split('(')[0]))
        else:
            run.held(rule, inst, '', 'mutable global exists but is not reachable from shaping', False)
    guards = []
    for fname in reach:
        f = ir.funcs.get(fname)
        if not f:
            continue
        for ins in f['ins']:
            if ins['op'] == 'call' and (ins.get('callee') or '').startswith('__cxa_guard'):
                guards.append((fname, ins))
    if guards:
        fn0, ins0 = guards[0]
        run.violated(rule, 'function-local static', '%s:%s' % (_rel(ins0.get('f', '?')), ins0.get('ln')),
                     'dynamically initialised function-local static in %s (reachable from shaping)' % ir.funcs[fn0]['dem'].split('(')[0])
    else:
        run.held(rule, 'no __cxa_guard', '', 'no dynamically initialised static reachable; %d mutable globals in the module' % len(mut),
                 True)
    return mut


# ------------------------------------------------------------------------------------------------------ LAZYFILL
# what may be stored into each lazily filled cell, and what the filling function hands back.  A lazy cache is invisible to later
# calls only if (a) the cell receives nothing but the loader's own result for that key and (b) the caller of the filling call gets
# the very value a later hit will read -- the cell itself, not a differently converted or substituted value.
LAZY_CELLS = {
    'graphite2::GlyphCache::glyph': {
        'this->_glyphs[': lambda fn, r: r['k'] == 'CXXMemberCallExpr' and (r.get('fq') or '').endswith('Loader::read_glyph'),
        'this->_boxes[': lambda fn, r: fn.is_null(r) or (fn.strip_all_casts(r)['k'] == 'CallExpr' and (fn.strip_all_casts(r).get('fq') or '').startswith('graphite2::gralloc')),
    },
    'graphite2::Face::nameTable': {
        'this->m_pNames': lambda fn, r: r['k'] == 'CXXNewExpr' and 'NameTable' in (r.get('aty') or r.get('t') or ''),
    },
    'graphite2::Font::advance': {
        'this->m_advances[': lambda fn, r: r['k'] == 'CallExpr' and not r.get('fq') and 'glyph_advance_x' in fn.render(r, resolve=True),
    },
}


def _elem_reaches(fn, a, b):
    """control can flow from element a to element b (a executed first)"""
    ba, bb = fn.block_of[a['i']], fn.block_of[b['i']]
    if ba == bb and fn.pos_of[a['i']] < fn.pos_of[b['i']]:
        return True
    seen, st = set(), [s for s in fn.succs(ba) if s is not None]
    while st:
        x = st.pop()
        if x in seen:
            continue
        seen.add(x)
        if x == bb:
            return True
        st.extend(s for s in fn.succs(x) if s is not None)
    return False


def lazyfill(run, fx, rule):
    for q, cells in LAZY_CELLS.items():
        fn = fx.one(q)
        nst = 0
        for _, e in fn.elements():
            if e['k'] in ('BinaryOperator', 'CompoundAssignOperator') and e['op'].endswith('=') and e['op'] not in ('==', '!=', '<=', '>='):
                lhs = fn.render(fn.deref(e['c'][0]))
                for prefix, ok in cells.items():
                    if lhs.startswith(prefix):
                        nst += 1
                        r = fn.strip(e['c'][1])
                        while r['k'] == 'ImplicitCastExpr' and r.get('c'):
                            r = fn.strip(r['c'][0])
                        inst = '%s: %s = ..@%s' % (q.split('::')[-1], prefix.rstrip('['), e['ln'])
                        if e['op'] == '=' and ok(fn, r):
                            run.held(rule, inst, fn.loc(e), 'filled with the loader result: %s' % fn.render(r)[:80])
                        else:
                            run.violated(rule, inst, fn.loc(e), 'the lazily filled cell %s receives `%s`, which is not the result of its loader: a later call reads a value '
                                         'that depends on what happened before (e.g. a failed or converted first load), so results depend on call history'
                                         % (prefix.rstrip('['), fn.render(e['c'][1])[:100]))
        if nst == 0:
            run.broken(rule, '%s stores' % q.split('::')[-1], 'no store into the lazy cells %s found' % sorted(cells), fn.where())
        for _, e in fn.elements():
            if e['k'] == 'ReturnStmt' and e.get('c'):
                v = fn.deref(e['c'][0])
                txt = fn.render(v)
                inst = '%s: return@%s' % (q.split('::')[-1], e['ln'])
                cellish = any(txt.startswith(pfx) or txt.startswith('*' + pfx.rstrip('[')) for pfx in cells) or fn.is_null(v)
                # a local that stands for the cell stands for what the cell held when the local was set: stale once the fill ran
                raw = fn.strip_all_casts(e['c'][0])
                if cellish and raw['k'] == 'DeclRefExpr' and raw.get('vid') is not None and not fn.is_null(v) and raw['vid'] not in fn.ref_init:
                    defs_ = [d for _, d in fn.elements() if (d['k'] == 'DeclStmt' and any(x.get('vid') == raw['vid'] and x.get('init') is not None and
                                                                                          not (x.get('t') or '').endswith('&') for x in d.get('decls', [])))
                             or (d['k'] == 'BinaryOperator' and d['op'] == '=' and fn.strip_all_casts(d['c'][0]).get('vid') == raw['vid'])]
                    fills = [s_ for _, s_ in fn.elements() if s_['k'] in ('BinaryOperator', 'CompoundAssignOperator') and s_['op'].endswith('=')
                             and s_['op'] not in ('==', '!=', '<=', '>=') and any(fn.render(fn.deref(s_['c'][0])).startswith(pfx) for pfx in cells)]
                    stale = [(d, s_) for d in defs_ for s_ in fills if _elem_reaches(fn, d, s_) and _elem_reaches(fn, s_, e) and not
                             any(_elem_reaches(fn, s_, d2) and _elem_reaches(fn, d2, e) and d2 is not d for d2 in defs_)]
                    if stale:
                        d, s_ = stale[0]
                        run.violated(rule, inst, fn.loc(e), 'the call returns the local `%s`, set at line %s from the cell BEFORE the fill at line %s: the call that loads the '
                                     'value returns the old (empty) one while every later call returns the cached one -- the answer depends on call history' %
                                     (raw.get('n') or fn.render(raw), d.get('ln'), s_.get('ln')))
                        continue
                if cellish:
                    run.held(rule, inst, fn.loc(e), 'returns the cell it filled (%s)' % txt[:60], False)
                else:
                    run.violated(rule, inst, fn.loc(e), 'the filling call returns `%s` instead of re-reading the cell: the first caller can see a value that differs from '
                                 'what every later caller reads from the cache (a different conversion, or a substitute), so results depend on call history' % txt[:100])


def advinit(run, fx, rule='LAZYFILL'):
    """the hinted-advance cache is lazily filled under the test `cell == INVALID_ADVANCE`: that is only history-independent if EVERY cell
    starts as the sentinel.  Font::Font is interpreted (rules/ordint.py; memset/memcpy are no-ops for this question, gralloc hands out
    n cells marked uninitialised) for faces of 0..5 glyphs: afterwards no cell is left as malloc returned it, and all hold the value
    Font::advance compares with."""
    from . import ordint as O
    from .facts import AnalysisBroken
    ctors = [f for f in fx.fns_named('graphite2::Font::Font') if not f.f.get('implicit') and len(f.f.get('params') or []) == 4]
    inst = 'every cell of the hinted-advance cache starts as the sentinel'
    if len(ctors) != 1:
        run.broken(rule, inst, 'Font::Font(ppm, face, handle, ops) not found')
        return
    fn = ctors[0]
    adv = fx.one('graphite2::Font::advance')
    def fval(x):
        x = adv.strip_all_casts(x)
        if x.get('fv') is not None:
            return x['fv']
        if x.get('v') is not None:
            return x['v']
        if x['k'] == 'UnaryOperator' and x['op'] == '-':
            v_ = fval(x['c'][0])
            return None if v_ is None else -v_
        if x['k'] == 'CallExpr' and any(w in (x.get('fq') or '') for w in ('quiet_NaN', 'signaling_NaN', '__builtin_nan')):
            return float('nan')
        return None
    # the comparison of a cache cell with a floating constant, in either polarity and either operand order
    sent = []
    for _, e in adv.elements():
        if e['k'] == 'BinaryOperator' and e['op'] in ('==', '!='):
            for a_, b_ in ((e['c'][0], e['c'][1]), (e['c'][1], e['c'][0])):
                if fval(b_) is not None and adv.strip_all_casts(adv.N(a_))['k'] in ('ArraySubscriptExpr', 'UnaryOperator', 'DeclRefExpr'):
                    sent.append(fval(b_))
    if any(v_ is not None and v_ != v_ for v_ in sent):
        run.violated(rule, inst, adv.where(), 'Font::advance compares a cache cell with a NaN: a NaN compares unequal to everything, itself included, so the cell is never recognised as '
                     'unfilled, the application\'s advance callback is never called and the NaN itself is returned as the glyph\'s advance -- every hinted advance and position is not finite')
        return
    sent = sorted(set(sent))
    if len(sent) != 1 or sent[0] is None:
        run.broken(rule, inst, 'the sentinel comparison in Font::advance was not found', adv.where())
        return

    def mkobj(q):
        r = O.Rec()
        for f in fx.record(q)['fields']:
            r[q + '::' + f['n']] = O.Ptr(None) if '*' in (f.get('t') or '') else None
        return r

    class Uninit:
        pass

    def gralloc(it, f, e, obj, args):
        n = it.rv(args[0])
        if not isinstance(n, int):
            raise AnalysisBroken('gralloc of a non-constant count in Font::Font')
        return O.It(O.Vec([Uninit() for _ in range(n)]), 0)
    noop = lambda it, f, e, obj, args: None
    try:
        for n in range(0, 6):
            font = mkobj('graphite2::Font')
            font['graphite2::Font::m_ops'] = mkobj('gr_font_ops')
            face = mkobj('graphite2::Face')
            gc = mkobj('graphite2::GlyphCache')
            gc['graphite2::GlyphCache::_num_glyphs'] = n
            gc['graphite2::GlyphCache::_upem'] = 2048
            face['graphite2::Face::m_pGlyphFaceCache'] = O.Ptr(gc)
            it = O.Interp(fx, natives={'memset': noop, 'memcpy': noop, 'graphite2::gralloc': gralloc})
            it.coords_may_feed_costs = True
            it.MAX_STEPS = 3000
            it.call(fn, font, [O.Op(), O.LV([face], 0), O.Ptr(None), O.Ptr(None)])
            cells = font['graphite2::Font::m_advances']
            if not isinstance(cells, O.It) or len(cells.vec.items) != n:
                run.violated(rule, inst, fn.where(), 'a face of %d glyphs gets a cache of %s cells' % (n, len(cells.vec.items) if isinstance(cells, O.It) else cells))
                return
            badc = [k for k, c in enumerate(cells.vec.items) if c != sent[0]]
            if badc:
                run.violated(rule, inst, fn.where(), 'face of %d glyphs: cache cell(s) %s are left as the allocator returned them (not %r): Font::advance then returns whatever the heap '
                             'held instead of asking the application -- the advance of that glyph depends on earlier allocations' % (n, badc, sent[0]))
                return
    except O.Violation as v:
        run.violated(rule, inst, fn.where(), '%s (%s)' % (v.what, v.loc))
        return
    except AnalysisBroken as ex:
        run.broken(rule, inst, str(ex), fn.where())
        return
    run.held(rule, inst, fn.where(), 'faces of 0..5 glyphs: all cells == %r after the constructor' % sent[0])
