"""Helpers over the per-function CFG facts emitted by grfacts (flat, three-address view:
every element is one AST node whose children are element ids or inline nodes)."""
from .facts import AnalysisBroken

TRANSPARENT = {'ParenExpr', 'ExprWithCleanups', 'MaterializeTemporaryExpr', 'CXXBindTemporaryExpr',
               'ConstantExpr', 'SubstNonTypeTemplateParmExpr', 'FullExpr'}
NOOP_CASTS = {'NoOp', 'LValueToRValue', 'ArrayToPointerDecay', 'FunctionToPointerDecay',
              'ConstructorConversion', 'UserDefinedConversion'}

INT_TYPES = {
    'bool': (1, False), '_Bool': (1, False),
    'char': (8, True), 'signed char': (8, True), 'unsigned char': (8, False),
    'short': (16, True), 'unsigned short': (16, False),
    'int': (32, True), 'unsigned int': (32, False),
    'long': (64, True), 'unsigned long': (64, False),
    'long long': (64, True), 'unsigned long long': (64, False),
}


def int_type(t):
    """(bits, signed) for a canonical integer type string, or None."""
    if t is None:
        return None
    t = t.replace('const ', '').replace('volatile ', '').strip()
    return INT_TYPES.get(t)


class Fn:
    def __init__(self, f):
        self.f = f
        self.q = f['q']
        self.qt = f['qt']
        self.key = f.get('key', f['m'])
        self.m = f['m']
        self.file = f['file']
        self.blocks = {b['id']: b for b in f.get('blocks', [])}
        self.entry = f.get('entry')
        self.exit = f.get('exit')
        self.nodes = {}
        self.block_of = {}
        self.pos_of = {}
        self.ref_init = {}
        self._maybe_const = []
        self.const_init = {}        # vid of a const-qualified local -> its initialiser (element id or inline node)
        for b in f.get('blocks', []):
            for pos, e in enumerate(b['el']):
                self.nodes[e['i']] = e
                self.block_of[e['i']] = b['id']
                self.pos_of[e['i']] = pos
                if e['k'] == 'DeclRefExpr' and e.get('cv') is not None and e.get('v') is None:
                    e['v'] = e['cv']            # a named integral constant is a constant
                if e['k'] == 'DeclStmt':
                    for d in e.get('decls', []):
                        if d.get('const') and d.get('init') is not None and not d.get('sl') and not d.get('t', '').endswith('&'):
                            self._maybe_const.append((d['vid'], d['init']))
                        elif d.get('t', '').endswith('&') and d.get('init') is not None and not d.get('sl'):
                            self.ref_init[d['vid']] = d['init']      # `T & r = <lvalue>;` -- an alias, resolved after the loop
        self.value_init = {}        # const local initialised from a consuming read: stands for that read only in the value-forwarding spelling
        for vid, init in self._maybe_const:
            if not self._impure(init):
                self.const_init[vid] = init
            else:
                self.value_init[vid] = init
        for vid, init in self.ref_init.items():
            n = self.strip_all_casts(init)
            if n['k'] in ('MemberExpr', 'ArraySubscriptExpr', 'DeclRefExpr') or (n['k'] == 'UnaryOperator' and n.get('op') == '*'):
                self.const_init[vid] = init                           # a reference local bound to an lvalue stands for that lvalue
        # `if (a || (b && c))`: the terminator of the last short-circuit block reports the whole
        # logical expression; the condition actually branched on is its right-most operand.
        for b in f.get('blocks', []):
            t = b.get('term')
            if t and 'cond' not in t and isinstance(t.get('condx'), dict):
                x = t['condx']
                while isinstance(x, dict) and x.get('k') == 'BinaryOperator' and x.get('op') in ('&&', '||'):
                    x = x['c'][1]
                if isinstance(x, int):
                    t['cond'] = x
        self._preds = None
        self._dom = None
        self._pdom = None
        self._parents = None
        self.fx = None
        self._env = None
        self._uniform_locals()

    def _impure(self, init):
        """the initialiser has a side effect that makes two textually equal occurrences different values (be::read<T>(p) advances p,
        x++, ...): a local holding it does not stand for the expression"""
        for x in self.walk(init):
            if x['k'] in ('CallExpr', 'CXXMemberCallExpr') and (x.get('fq') or '').split('<')[0].split('::')[-1] in ('read', 'skip') and 'be::' in (x.get('fq') or ''):
                return True
            if x['k'] == 'UnaryOperator' and x.get('op') in ('pre++', 'post++', 'pre--', 'post--'):
                return True
            if x['k'] in ('BinaryOperator', 'CompoundAssignOperator') and x.get('op', '').endswith('=') and x['op'] not in ('==', '!=', '<=', '>='):
                return True
        return False

    def _uniform_locals(self):
        """a non-const scalar/pointer local all of whose definitions are the same expression (`Slot *kid = s->firstChild();` ...
        `kid = s->firstChild();`) and that is never incremented, compound-assigned, address-taken or bound to a reference stands
        for that expression when rendered with resolve=True -- hoisting an expression into such a local must not change a verdict"""
        decls = {}
        for _, e in self.elements():
            if e['k'] == 'DeclStmt':
                for d in e.get('decls', []):
                    t = d.get('t', '')
                    if d.get('dk') == 'Var' and d.get('vid') is not None and d['vid'] not in self.const_init and not d.get('sl') \
                            and not t.endswith('&') and not t.endswith(']') and (t.rstrip().endswith('*') or int_type(t) is not None or t in ('bool', 'float')):
                        decls[d['vid']] = d
        if not decls:
            return
        defs = {v: ([d['init']] if d.get('init') is not None else []) for v, d in decls.items()}
        bad = set()
        par = self.parents()
        for _, e in self.elements():
            if e['k'] != 'DeclRefExpr' or e.get('vid') not in decls:
                continue
            v = e['vid']
            for pi in par.get(e['i'], []):
                p_ = self.nodes[pi]
                k = p_['k']
                if k == 'ImplicitCastExpr' and p_.get('ck') == 'LValueToRValue':
                    continue
                if k == 'BinaryOperator' and p_['op'] == '=' and p_['c'][0] == e['i']:
                    defs[v].append(p_['c'][1])
                    continue
                bad.add(v)          # ++/--, op=, &x, reference binding, member access on a local object, ...
        for v, ds in defs.items():
            if v in bad or not ds:
                continue
            if len(ds) == 1 and decls[v].get('init') is None and not (decls[v].get('n') or '').startswith('__ret_'):
                continue            # declared, assigned once somewhere: not necessarily before every use (the result local of an
                                    # inlined helper with one return is assigned exactly there)
            texts = {self.render(self.strip_all_casts(x)) for x in ds}
            if len(texts) == 1 and not any(x['k'] == 'DeclRefExpr' and x.get('vid') == v for x in self.walk(ds[0])) and not self._impure(ds[0]):
                self.const_init[v] = ds[0]
        self._env = None            # vid -> text while an inlined helper predicate is rendered in its caller's terms

    def render_walk(self, n, resolve=True):
        """resolved rendering in which `the element k places from the current position of a loop over array A` is spelled the same
        whether the loop walks a pointer (`o[1]`, `*o`) or an index (`A[i + 1]`, `A[i]`): A@[+k]"""
        old, self._walk = getattr(self, '_walk', False), True
        try:
            return self.render(n, 0, resolve)
        finally:
            self._walk = old

    def _forwarded(self, n, depth, resolve):
        """store-to-load forwarding inside one basic block: `*o = X; if (*o > m)` reads X"""
        blk, pos = self._fwd
        fw, self._fwd = self._fwd, None
        try:
            me = self.render(n, depth + 1, resolve)
            for e in reversed(self.blocks[blk]['el'][:pos]):
                if e['k'] == 'BinaryOperator' and e['op'] == '=' and self.is_root(e['i']) is not None:
                    l = self.strip_all_casts(e['c'][0])
                    if l['k'] in ('ArraySubscriptExpr', 'UnaryOperator') and self.render(l, depth + 1, resolve) == me:
                        return self.render(self.strip_all_casts(e['c'][1]), depth + 1, resolve)
            return None
        finally:
            self._fwd = fw

    def _walkers(self):
        if getattr(self, '_wk', None) is None:
            wk = {}
            self._wk = {}               # (the base of a walker is rendered below: not in walk mode, and not re-entering here)
            oldw, self._walk = getattr(self, '_walk', False), False
            decl = {}
            for _, e in self.elements():
                if e['k'] == 'DeclStmt':
                    for d in e.get('decls', []):
                        if d.get('vid') is not None:
                            decl[d['vid']] = d
            for p_ in self.f.get('params') or []:
                decl.setdefault(p_['vid'], p_)
            for _, e in self.elements():
                if (e['k'] == 'UnaryOperator' and e['op'] in ('pre++', 'post++', 'pre--', 'post--')) or \
                        (e['k'] == 'CompoundAssignOperator' and e['op'] in ('+=', '-=')):
                    x = self.strip_all_casts(e['c'][0])
                    if x['k'] == 'DeclRefExpr' and x.get('vid') in decl:
                        d = decl[x['vid']]
                        base = None
                        if '*' in (d.get('t') or '') and d.get('init') is not None:
                            st = [self.strip_all_casts(d['init'])]
                            while st and base is None:
                                y = st.pop(0)
                                if y['k'] in ('MemberExpr', 'DeclRefExpr') and '*' in (y.get('t') or ''):
                                    base = self.render(y, 0, True)
                                elif y['k'] == 'BinaryOperator' and y['op'] in ('+', '-'):
                                    st.extend(self.strip_all_casts(z) for z in y['c'])
                        wk[x['vid']] = base      # None for integer counters
            self._wk = wk
            self._walk = oldw
        return self._wk

    def _walk_elem(self, base, idx):
        wk = self._walkers()
        b = self.strip_all_casts(base)
        k = 0

        def const_of(x):
            x = self.strip_all_casts(x)
            return x.get('v')
        # pointer walker: p[k], *p, *(p + k)
        if b['k'] == 'BinaryOperator' and b['op'] in ('+', '-') and idx is None:
            l, r_ = self.strip_all_casts(b['c'][0]), b['c'][1]
            if l['k'] == 'DeclRefExpr' and wk.get(l.get('vid')) and const_of(r_) is not None:
                return '%s@[%+d]' % (wk[l['vid']], const_of(r_) if b['op'] == '+' else -const_of(r_))
        if b['k'] == 'DeclRefExpr' and wk.get(b.get('vid')):
            if idx is None:
                return '%s@[+0]' % wk[b['vid']]
            if const_of(idx) is not None:
                return '%s@[%+d]' % (wk[b['vid']], const_of(idx))
            return None
        # index walker: A[i], A[i + k]
        if idx is not None and b['k'] in ('MemberExpr', 'DeclRefExpr') and b.get('vid') not in wk:
            i_ = self.strip_all_casts(idx)
            if i_['k'] == 'DeclRefExpr' and i_.get('vid') in wk and wk[i_['vid']] is None:
                return '%s@[+0]' % self.render(b, 0, True)
            if i_['k'] == 'BinaryOperator' and i_['op'] in ('+', '-'):
                l = self.strip_all_casts(i_['c'][0])
                if l['k'] == 'DeclRefExpr' and l.get('vid') in wk and wk[l['vid']] is None and const_of(i_['c'][1]) is not None:
                    return '%s@[%+d]' % (self.render(b, 0, True), const_of(i_['c'][1]) if i_['op'] == '+' else -const_of(i_['c'][1]))
        return None

    def render_in(self, n, env, resolve=False):
        """render n with the parameters in env (vid -> caller-side text) substituted"""
        old, self._env = self._env, env
        try:
            return self.render(n, 0, resolve)
        finally:
            self._env = old

    def _predmap(self):
        p = self.preds
        return p() if callable(p) else p

    def reaching_def(self, vid, use_id, all_defs=False):
        """the initialiser / right-hand side that is the ONLY definition of local `vid` reaching element use_id (None when several
        definitions, an update such as ++ / op=, or no definition can reach it)"""
        rd = self.__dict__.setdefault('_rdefs', {})
        if vid not in rd:
            defs = {}       # element id -> rhs (or 'kill')
            for _, e in self.elements():
                if e['k'] == 'DeclStmt':
                    for d in e.get('decls', []):
                        if d.get('vid') == vid:
                            defs[e['i']] = d.get('init') if d.get('init') is not None else 'kill'
                elif e['k'] == 'BinaryOperator' and e['op'] == '=' and self.strip_all_casts(e['c'][0]).get('vid') == vid and \
                        self.strip_all_casts(e['c'][0])['k'] == 'DeclRefExpr':
                    defs[e['i']] = e['c'][1]
                elif (e['k'] == 'CompoundAssignOperator' or (e['k'] == 'UnaryOperator' and e['op'] in ('pre++', 'post++', 'pre--', 'post--'))) and \
                        self.strip_all_casts(e['c'][0]).get('vid') == vid:
                    defs[e['i']] = 'kill'
            last = {}
            for b, blk in self.blocks.items():
                l = None
                for e in blk['el']:
                    if e['i'] in defs:
                        l = e['i']
                last[b] = l
            out = {b: set() for b in self.blocks}
            changed = True
            while changed:
                changed = False
                for b in self.blocks:
                    if last[b] is not None:
                        new = {last[b]}
                    else:
                        new = set()
                        for p_ in self._predmap().get(b, []):
                            new |= out[p_]
                        if b == self.entry:
                            new.add('undef')
                    if new != out[b]:
                        out[b] = new
                        changed = True
            rd[vid] = (defs, last, out)
        defs, last, out = rd[vid]
        b = self.block_of.get(use_id)
        if b is None:
            return None
        pos = self.pos_of[use_id]
        cand = None
        for e in self.blocks[b]['el'][:pos]:
            if e['i'] in defs:
                cand = e['i']
        if cand is None:
            ins = set()
            for p_ in self._predmap().get(b, []):
                ins |= out[p_]
            if b == self.entry:
                ins.add('undef')
            if all_defs:
                if 'undef' in ins or any(defs.get(c) in (None, 'kill') for c in ins):
                    return None
                return sorted(ins)
            if len(ins) != 1:
                return None
            cand = next(iter(ins))
        if cand == 'undef' or defs.get(cand) in (None, 'kill'):
            return None
        return [cand] if all_defs else defs[cand]

    def def_rhs(self, vid, def_id):
        return self._rdefs[vid][0].get(def_id)

    def elem_access(self, n):
        """(base, index) when n is `base[index]` or `*(base + index)` / `*(index + base)`, else None"""
        n = self.strip(n)
        if n['k'] == 'ArraySubscriptExpr':
            return n['c'][0], n['c'][1]
        if n['k'] == 'UnaryOperator' and n['op'] == '*':
            x = self.strip_all_casts(n['c'][0])
            if x['k'] == 'BinaryOperator' and x['op'] == '+':
                l, r_ = x['c'][0], x['c'][1]
                if '*' in (self.strip_all_casts(l).get('t') or ''):
                    return l, r_
                if '*' in (self.strip_all_casts(r_).get('t') or ''):
                    return r_, l
        return None

    def deref(self, n):
        """strip casts and look through locals that stand for one expression (const locals, reference locals, uniform locals)"""
        n = self.strip_all_casts(n)
        for _ in range(6):
            if n['k'] == 'DeclRefExpr' and n.get('vid') in self.const_init and n.get('v') is None:
                n = self.strip_all_casts(self.const_init[n['vid']])
            else:
                break
        return n

    def is_null(self, n, depth=0):
        """n is a null pointer / zero: a literal, or a call of a function of this library that returns null on every path
        (a cleanup helper such as `return discard(a, b);`)"""
        v = self.strip_all_casts(n)
        if v.get('v') == 0 or v['k'] in ('CXXNullPtrLiteralExpr', 'GNUNullExpr'):
            return True
        if v['k'] == 'CallExpr' and v.get('fq') and self.fx is not None and depth < 2:
            cands = [g for g in self.fx.fns_named(v['fq']) if g.blocks]
            if len(cands) == 1:
                g = cands[0]
                rets = [e for _, e in g.elements() if e['k'] == 'ReturnStmt' and e.get('c')]
                return bool(rets) and all(g.is_null(e['c'][0], depth + 1) for e in rets)
        return False

    def single_return_expr(self):
        """the expression E when the whole body is `return E;` (a pure helper predicate), else None"""
        roots = [e for _, e in self.elements() if self.is_root(e['i'])]
        if len(roots) != 1 or roots[0]['k'] != 'ReturnStmt' or not roots[0].get('c'):
            return None
        return roots[0]['c'][0]

    # -- basic graph ---------------------------------------------------------------
    def succs(self, b):
        return [s for s in self.blocks[b]['succ'] if s is not None]

    @property
    def preds(self):
        if self._preds is None:
            p = {b: [] for b in self.blocks}
            for b in self.blocks:
                for s in self.succs(b):
                    p[s].append(b)
            self._preds = p
        return self._preds

    def loc(self, n):
        if isinstance(n, int):
            n = self.nodes[n]
        return '%s:%s' % (self.file, n.get('ln', self.f.get('l0')))

    def where(self):
        return '%s:%s' % (self.file, self.f.get('l0'))

    # -- nodes -----------------------------------------------------------------------
    def N(self, x):
        """Resolve an element id or inline node to the node dict."""
        if isinstance(x, int):
            return self.nodes[x]
        return x

    def kids(self, n):
        n = self.N(n)
        out = []
        for c in n.get('c', []) or []:
            if c is not None:
                out.append(self.N(c))
        return out

    def strip(self, n, casts=True):
        """Skip parentheses/cleanups and (optionally) value-preserving implicit casts."""
        n = self.N(n)
        while True:
            k = n['k']
            if k in TRANSPARENT and n.get('c'):
                n = self.N(n['c'][0])
                continue
            if casts and k == 'ImplicitCastExpr' and n.get('ck') in NOOP_CASTS:
                n = self.N(n['c'][0])
                continue
            return n

    def _narrowed_bits(self, outer, inner):
        """bits of the narrowest integer type on the cast chain from `outer` down to `inner`, when inner is non-constant arithmetic
        (+ - * <<) computed in a wider type; else None"""
        if inner['k'] != 'BinaryOperator' or inner.get('op') not in ('+', '-', '*', '<<') or inner.get('v') is not None:
            return None
        wide = int_type(inner.get('t'))
        if wide is None:
            return None
        m, nb = self.N(outer), None
        while m is not inner and (m['k'].endswith('CastExpr') or m['k'] in TRANSPARENT) and m.get('c'):
            b = int_type(m.get('t'))
            if b and b[0] < wide[0] and (nb is None or b[0] < nb):
                nb = b[0]
            m = self.N(m['c'][0])
        return nb

    def strip_all_casts(self, n):
        n = self.N(n)
        while True:
            k = n['k']
            if (k in TRANSPARENT or k.endswith('CastExpr')) and n.get('c'):
                n = self.N(n['c'][0])
                continue
            return n

    def walk(self, n):
        """Pre-order walk of the expression tree rooted at n (refs resolved)."""
        n = self.N(n)
        stack = [n]
        while stack:
            x = stack.pop()
            yield x
            for key in ('c', 'args', 'place'):
                for c in x.get(key, []) or []:
                    if c is not None:
                        stack.append(self.N(c))
            for key in ('obj', 'init', 'asize', 'defarg', 'of'):
                c = x.get(key)
                if c is not None and not isinstance(c, bool):
                    if isinstance(c, (int, dict)):
                        stack.append(self.N(c))
            for d in x.get('decls', []) or []:
                if d.get('init') is not None:
                    stack.append(self.N(d['init']))

    def elements(self):
        for b in self.f.get('blocks', []):
            for e in b['el']:
                yield b['id'], e

    def parents(self):
        """element id -> list of element ids that reference it as a child."""
        if self._parents is None:
            p = {}
            for _, e in self.elements():
                for x in self._direct_refs(e):
                    p.setdefault(x, []).append(e['i'])
            self._parents = p
        return self._parents

    def _direct_refs(self, e):
        out = []

        def visit(x):
            if isinstance(x, int):
                out.append(x)
            elif isinstance(x, dict):
                for key in ('c', 'args', 'place'):
                    for c in x.get(key, []) or []:
                        visit(c)
                for key in ('obj', 'init', 'asize', 'defarg', 'of'):
                    c = x.get(key)
                    if c is not None and not isinstance(c, bool):
                        visit(c)
                for d in x.get('decls', []) or []:
                    if d.get('init') is not None:
                        visit(d['init'])
        for key in ('c', 'args', 'place'):
            for c in e.get(key, []) or []:
                visit(c)
        for key in ('obj', 'init', 'asize', 'defarg', 'of'):
            c = e.get(key)
            if c is not None and not isinstance(c, bool):
                visit(c)
        for d in e.get('decls', []) or []:
            if d.get('init') is not None:
                visit(d['init'])
        return out

    def is_root(self, i):
        """True when element i is not a sub-expression of another element (a full
        statement/expression)."""
        return i not in self.parents()

    # -- rendering ---------------------------------------------------------------------
    def render(self, n, depth=0, resolve=False):
        n = self.N(n)
        if depth > 40:
            return '...'
        k = n['k']
        r = lambda x: self.render(x, depth + 1, resolve)
        if getattr(self, '_fwd', None) and (k == 'ArraySubscriptExpr' or (k == 'UnaryOperator' and n['op'] == '*')):
            v = self._forwarded(n, depth, resolve)
            if v is not None:
                return v
        if resolve and k == 'DeclRefExpr' and getattr(self, '_fwd', None) is not None and n.get('vid') in self.value_init and depth < 30:
            return self.render(self.strip_all_casts(self.value_init[n['vid']]), depth + 6, resolve)
        if resolve and k == 'DeclRefExpr' and n.get('vid') in self.const_init and n.get('v') is None and depth < 30:
            # a const local stands for its initialiser (robust against hoisting an expression into a named const local) -- unless
            # the local is narrower than the arithmetic it holds: then it stands for the truncated value, which is another value
            init = self.const_init[n['vid']]
            inner = self.strip_all_casts(init)
            txt = self.render(inner, depth + 6, resolve)
            nb = self._narrowed_bits(init, inner)
            return 'narrow%d(%s)' % (nb, txt) if nb else txt
        if resolve and k == 'DeclRefExpr' and n.get('v') is not None and n.get('vid') is None and n.get('dk') in ('Var', 'EnumConstant'):
            return str(n['v'])
        c = n.get('c') or []
        if k in TRANSPARENT and c:
            return r(c[0])
        if k == 'ImplicitCastExpr':
            return r(c[0])
        if k in ('CStyleCastExpr', 'CXXFunctionalCastExpr', 'CXXStaticCastExpr',
                 'CXXReinterpretCastExpr', 'CXXConstCastExpr'):
            return '(%s)(%s)' % (n.get('t'), r(c[0]) if c else '')
        if k == 'DeclRefExpr':
            if self._env is not None and n.get('vid') in self._env:
                return self._env[n['vid']]
            return n['d'].split('::')[-1] if n.get('vid') is not None else n['d']
        if k == 'MemberExpr':
            base = r(c[0]) if c else 'this'
            if not n.get('arrow') and base.startswith('*') and base[1:].replace('_', 'a').isalnum():
                return '%s->%s' % (base[1:], n['d'].split('::')[-1])          # (*p).x is p->x
            return '%s%s%s' % (base, '->' if n.get('arrow') else '.', n['d'].split('::')[-1])
        if k == 'CXXThisExpr' and self._env is not None and 'this' in self._env:
            return self._env['this']
        if k == 'CXXThisExpr':
            return 'this'
        if k in ('IntegerLiteral', 'CharacterLiteral', 'CXXBoolLiteralExpr'):
            return str(n.get('v'))
        if k == 'FloatingLiteral':
            return str(n.get('fv'))
        if k == 'StringLiteral':
            return '"%s"' % n.get('s', '')
        if k in ('BinaryOperator', 'CompoundAssignOperator'):
            return '(%s %s %s)' % (r(c[0]), n['op'], r(c[1]))
        if k == 'UnaryOperator' and n['op'] == '*' and getattr(self, '_walk', False):
            w = self._walk_elem(c[0], None)
            if w:
                return w
        if k == 'UnaryOperator' and n['op'] == '*' and c:
            # *(p + i) is p[i]
            m = self.strip(c[0])
            if m['k'] == 'BinaryOperator' and m.get('op') == '+' and '*' in (self.N(m['c'][0]).get('t') or '') and '*' not in (self.N(m['c'][1]).get('t') or ''):
                return '%s[%s]' % (r(m['c'][0]), r(m['c'][1]))
        if k == 'UnaryOperator':
            op = n['op']
            if op.startswith('post'):
                return '%s%s' % (r(c[0]), op[4:])
            if op.startswith('pre'):
                return '%s%s' % (op[3:], r(c[0]))
            return '%s%s' % (op, r(c[0]))
        if k == 'ArraySubscriptExpr':
            if getattr(self, '_walk', False):
                w = self._walk_elem(c[0], c[1])
                if w:
                    return w
            return '%s[%s]' % (r(c[0]), r(c[1]))

        if k == 'ConditionalOperator':
            return '(%s ? %s : %s)' % (r(c[0]), r(c[1]), r(c[2]))
        if k in ('CallExpr', 'CXXMemberCallExpr', 'CXXOperatorCallExpr'):
            args = ', '.join(r(a) for a in n.get('args', []) if a is not None)
            fn = n.get('fq')
            if fn is None:
                fn = '(*%s)' % (r(c[0]) if c else '?')
            if k == 'CXXMemberCallExpr' and n.get('obj') is not None:
                return '%s.%s(%s)' % (r(n['obj']), fn.split('::')[-1], args)
            return '%s(%s)' % (fn, args)
        if k in ('CXXConstructExpr', 'CXXTemporaryObjectExpr'):
            return '%s(%s)' % (n.get('fq', 'ctor'), ', '.join(r(a) for a in c if a is not None))
        if k == 'CXXNewExpr':
            return 'new %s' % n.get('aty')
        if k == 'CXXDeleteExpr':
            return 'delete %s' % (r(c[0]) if c else '')
        if k == 'ReturnStmt':
            return 'return %s' % (r(c[0]) if c else '')
        if k == 'DeclStmt':
            return '; '.join('%s %s = %s' % (d.get('t'), d.get('n'), r(d['init']) if d.get('init') is not None else '')
                             for d in n.get('decls', []))
        if k == 'UnaryExprOrTypeTraitExpr':
            return 'sizeof(%s)' % n.get('argt', '?') if n.get('v') is None else str(n.get('v'))
        if k == 'CXXNullPtrLiteralExpr' or k == 'GNUNullExpr':
            return 'null'
        if k == 'CXXDefaultArgExpr':
            return r(n['defarg']) if n.get('defarg') is not None else 'default'
        if k == 'InitListExpr':
            return '{%s}' % ', '.join(r(a) for a in c if a is not None)
        return '<%s>' % k

    # -- dominators ----------------------------------------------------------------------
    def dominators(self):
        if self._dom is None:
            self._dom = _dominators(list(self.blocks), self.entry, lambda b: self.preds[b])
        return self._dom

    def postdominators(self):
        if self._pdom is None:
            self._pdom = _dominators(list(self.blocks), self.exit, lambda b: self.succs(b))
        return self._pdom

    def reachable_from(self, b0, avoid=()):
        seen = set()
        st = [b0]
        while st:
            b = st.pop()
            if b in seen or b in avoid:
                continue
            seen.add(b)
            st.extend(self.succs(b))
        return seen

    def reachable_blocks(self):
        return self.reachable_from(self.entry)

    def term_cond(self, b):
        t = self.blocks[b].get('term')
        if not t:
            return None
        if 'cond' in t:
            return self.nodes[t['cond']]
        return t.get('condx')

    def edge_kind(self, b, s_index):
        """For a two-way branch: successor 0 is the true edge, 1 the false edge."""
        return s_index == 0


def _dominators(blocks, root, preds_of):
    dom = {b: None for b in blocks}
    allb = set(blocks)
    dom = {b: set(allb) for b in blocks}
    dom[root] = {root}
    changed = True
    order = list(blocks)
    while changed:
        changed = False
        for b in order:
            if b == root:
                continue
            ps = [p for p in preds_of(b)]
            if not ps:
                new = {b}
            else:
                new = set(allb)
                for p in ps:
                    new &= dom[p]
                new = new | {b}
            if new != dom[b]:
                dom[b] = new
                changed = True
    return dom


class Facts:
    """Merged facts of one configuration with lookup helpers."""

    def __init__(self, merged):
        self.raw = merged
        self.cfg = merged['cfg']
        self._fn = {}

    def fn(self, key):
        if key not in self._fn:
            self._fn[key] = Fn(self.raw['functions'][key])
            self._fn[key].fx = self
        return self._fn[key]

    def inl(self, fn):
        """the same function with helpers that the pinned tree does not know (extracted since) expanded in place (rules/inline.py)"""
        cache = self.__dict__.setdefault('_inl', {})
        if fn.key not in cache:
            from . import inline
            kq = self.raw.get('_known_q') or set()
            g, done = inline.inlined_copy(self.raw, fn.f, kq) if kq else (fn.f, [])
            if done:
                v = Fn(g)
                v.fx = self
                v.inlined = done
                cache[fn.key] = v
            else:
                cache[fn.key] = fn
        return cache[fn.key]

    def fns_named(self, q):
        """All functions (overloads, instantiations) whose plain qualified name is q."""
        return [self.fn(k) for k in self.raw['fn_by_q'].get(q, [])]

    def one(self, q, sig=None):
        c = self.fns_named(q)
        if sig is not None:
            c = [f for f in c if f.f['sig'] == sig]
        if len(c) != 1:
            raise AnalysisBroken('anchor %s%s: expected exactly one definition, found %d'
                                 % (q, ' ' + sig if sig else '', len(c)))
        return c[0]

    def all_fns(self):
        for k in self.raw['functions']:
            yield self.fn(k)

    def record(self, q):
        r = self.raw['records'].get(q)
        if r is None:
            raise AnalysisBroken('anchor record %s not found' % q)
        return r

    def enum_value(self, qname):
        for e in self.raw['enums'].values():
            for c in e['consts']:
                if c['q'] == qname:
                    return c['v']
        raise AnalysisBroken('anchor enumerator %s not found' % qname)

    def enum(self, q):
        for e in self.raw['enums'].values():
            if e['q'] == q:
                return e
        raise AnalysisBroken('anchor enum %s not found' % q)
