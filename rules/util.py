"""Small query helpers over Facts / Fn used by the per-property rule modules."""
import re
from .facts import AnalysisBroken

CALL_KINDS = ('CallExpr', 'CXXMemberCallExpr', 'CXXOperatorCallExpr', 'CXXConstructExpr', 'CXXTemporaryObjectExpr')
DTOR_KINDS = ('AutoDtor', 'TempDtor', 'MemberDtor', 'BaseDtor', 'DeleteDtor')


def call_index(fx):
    """callee plain-qualified name -> [(Fn, element)] over every analysed function (incl. implicit
    destructor calls recorded by the CFG)."""
    if hasattr(fx, '_call_index'):
        return fx._call_index
    idx = {}
    for fn in fx.all_fns():
        for _, e in fn.elements():
            if e['k'] in CALL_KINDS or e['k'] in DTOR_KINDS:
                q = e.get('fq')
                if q:
                    idx.setdefault(q, []).append((fn, e))
            if e['k'] == 'CXXNewExpr' and e.get('init') is not None:
                pass
    fx._call_index = idx
    return idx


def callers_of(fx, fq):
    return call_index(fx).get(fq, [])


def calls_in(fn, fq=None, pred=None):
    out = []
    for _, e in fn.elements():
        if e['k'] in CALL_KINDS:
            if fq is not None and e.get('fq') != fq:
                continue
            if pred is not None and not pred(e):
                continue
            out.append(e)
    return out


def field_writes(fx):
    """field qualified name -> [(Fn, element, kind)] for assignments / compound assignments /
    inc-dec whose destination is (a sub-object of) that field, plus constructor initialisers."""
    if hasattr(fx, '_field_writes'):
        return fx._field_writes
    idx = {}
    for fn in fx.all_fns():
        for _, e in fn.elements():
            k = e['k']
            tgt = None
            if k in ('BinaryOperator', 'CompoundAssignOperator') and e['op'].endswith('=') and e['op'] not in ('==', '!=', '<=', '>='):
                tgt = e['c'][0]
            elif k == 'UnaryOperator' and e['op'] in ('pre++', 'pre--', 'post++', 'post--'):
                tgt = e['c'][0]
            elif k == 'Init' and e.get('field'):
                idx.setdefault(e['field'], []).append((fn, e, 'init'))
                continue
            if tgt is None:
                continue
            root = lvalue_fields(fn, tgt)
            for f, direct in root:
                idx.setdefault(f, []).append((fn, e, 'direct' if direct else 'through'))
    fx._field_writes = idx
    return idx


def lvalue_fields(fn, n):
    """fields named on the access path of lvalue n: [(field, is_the_written_object_itself)]"""
    out = []
    n = fn.strip(n)
    first = True
    depth = 0
    while n is not None and depth < 30:
        depth += 1
        k = n['k']
        if k == 'MemberExpr' and n.get('dk') == 'Field':
            out.append((n['d'], first))
            first = False
            n = fn.strip(n['c'][0]) if n.get('c') else None
        elif k == 'ArraySubscriptExpr':
            n = fn.strip(n['c'][0])
        elif k == 'UnaryOperator' and n['op'] == '*':
            n = fn.strip(n['c'][0])
        elif k.endswith('CastExpr') or k in ('ParenExpr',):
            n = fn.strip(n['c'][0]) if n.get('c') else None
        elif k == 'BinaryOperator' and n['op'] in ('+', '-'):
            n = fn.strip(n['c'][0])
        else:
            break
    return out


def find_decl(fn, name):
    for _, e in fn.elements():
        if e['k'] == 'DeclStmt':
            for d in e['decls']:
                if d.get('n') == name:
                    return e, d
    return None, None


def rx(pattern, s):
    return re.search(pattern, s) is not None


def enclosing_roots(fn, elem_id):
    """the full-expression (root element) that contains elem_id"""
    cur = elem_id
    seen = 0
    while seen < 100:
        ps = fn.parents().get(cur)
        if not ps:
            return cur
        cur = ps[0]
        seen += 1
    return cur
