"""Small query helpers over Facts / Fn used by the per-property rule modules."""
import re
from .facts import AnalysisBroken

CALL_KINDS = ('CallExpr', 'CXXMemberCallExpr', 'CXXOperatorCallExpr', 'CXXConstructExpr', 'CXXTemporaryObjectExpr')
DTOR_KINDS = ('AutoDtor', 'TempDtor', 'MemberDtor', 'BaseDtor', 'DeleteDtor')


def call_index(fx):
    """callee plain-qualified name -> [(Fn, element)] over every analysed function (incl. implicit
    destructor calls recorded by the CFG)."""
    if hasattr(fx, '_call_index'):
        return fx._call_index
    idx = {}
    for fn in fx.all_fns():
        for _, e in fn.elements():
            if e['k'] in CALL_KINDS or e['k'] in DTOR_KINDS:
                q = e.get('fq')
                if q:
                    idx.setdefault(q, []).append((fn, e))
            if e['k'] == 'CXXNewExpr' and e.get('init') is not None:
                pass
    fx._call_index = idx
    return idx


def callers_of(fx, fq):
    return call_index(fx).get(fq, [])


def calls_in(fn, fq=None, pred=None):
    out = []
    for _, e in fn.elements():
        if e['k'] in CALL_KINDS:
            if fq is not None and e.get('fq') != fq:
                continue
            if pred is not None and not pred(e):
                continue
            out.append(e)
    return out


def every_path_calls(fn, start_elem, pred, until_elem=None):
    """True when every control path from element start_elem to the function exit (or to element until_elem) executes, after
    start_elem, a call element satisfying pred; otherwise the list of blocks of one offending path"""
    sb, sp = fn.block_of[start_elem['i']], fn.pos_of[start_elem['i']]
    hitpos = {}
    for _, e in fn.elements():
        if e['k'] in CALL_KINDS and pred(e):
            hitpos.setdefault(fn.block_of[e['i']], []).append(fn.pos_of[e['i']])
    ub = up = None
    if until_elem is not None:
        ub, up = fn.block_of[until_elem['i']], fn.pos_of[until_elem['i']]
    # the start block: a hit after the start position (and before the target, if it is in the same block)
    if any(x > sp and (ub != sb or up < sp or x < up) for x in hitpos.get(sb, [])):
        return True
    if ub == sb and up > sp:
        return [sb]
    seen, st = set(), [(s, [sb, s]) for s in fn.succs(sb) if s is not None]
    while st:
        b, path = st.pop()
        if b in seen:
            continue
        seen.add(b)
        hp = hitpos.get(b, [])
        if until_elem is not None and b == ub:
            if any(x < up for x in hp):
                continue
            return path
        if hp:
            continue
        succ = [s for s in fn.succs(b) if s is not None]
        if until_elem is None and (b == fn.exit or not succ):
            return path
        for s in succ:
            st.append((s, path + [s]))
    return True


def field_writes(fx):
    """field qualified name -> [(Fn, element, kind)] for assignments / compound assignments /
    inc-dec whose destination is (a sub-object of) that field, plus constructor initialisers."""
    if hasattr(fx, '_field_writes'):
        return fx._field_writes
    idx = {}
    for fn in fx.all_fns():
        for _, e in fn.elements():
            k = e['k']
            tgt = None
            if k in ('BinaryOperator', 'CompoundAssignOperator') and e['op'].endswith('=') and e['op'] not in ('==', '!=', '<=', '>='):
                tgt = e['c'][0]
            elif k == 'UnaryOperator' and e['op'] in ('pre++', 'pre--', 'post++', 'post--'):
                tgt = e['c'][0]
            elif k == 'Init' and e.get('field'):
                idx.setdefault(e['field'], []).append((fn, e, 'init'))
                continue
            if tgt is None:
                continue
            root = lvalue_fields(fn, tgt)
            for f, direct in root:
                idx.setdefault(f, []).append((fn, e, 'direct' if direct else 'through'))
    fx._field_writes = idx
    return idx


def lvalue_fields(fn, n):
    """fields named on the access path of lvalue n: [(field, is_the_written_object_itself)]"""
    out = []
    n = fn.strip(n)
    first = True
    depth = 0
    while n is not None and depth < 30:
        depth += 1
        k = n['k']
        if k == 'MemberExpr' and n.get('dk') == 'Field':
            out.append((n['d'], first))
            first = False
            n = fn.strip(n['c'][0]) if n.get('c') else None
        elif k == 'ArraySubscriptExpr':
            n = fn.strip(n['c'][0])
        elif k == 'UnaryOperator' and n['op'] == '*':
            n = fn.strip(n['c'][0])
        elif k.endswith('CastExpr') or k in ('ParenExpr',):
            n = fn.strip(n['c'][0]) if n.get('c') else None
        elif k == 'BinaryOperator' and n['op'] in ('+', '-'):
            n = fn.strip(n['c'][0])
        else:
            break
    return out


def find_decl(fn, name):
    for _, e in fn.elements():
        if e['k'] == 'DeclStmt':
            for d in e['decls']:
                if d.get('n') == name:
                    return e, d
    return None, None


def rx(pattern, s):
    return re.search(pattern, s) is not None


def enclosing_roots(fn, elem_id):
    """the full-expression (root element) that contains elem_id"""
    cur = elem_id
    seen = 0
    while seen < 100:
        ps = fn.parents().get(cur)
        if not ps:
            return cur
        cur = ps[0]
        seen += 1
    return cur


def signdiff_sites(fn):
    """comparisons with 0 of a signed value that is the difference of two unsigned values of 32 bits or more (`int d = a - b; if (d < 0)`):
    the sign of a wrapped difference is not the order of a and b once they are 2^31 or more apart.  -> [(cmp element, text)]"""
    from .cfg import int_type
    out = []
    for _, e in fn.elements():
        if e['k'] != 'BinaryOperator' or e.get('op') not in ('<', '>', '<=', '>='):
            continue
        for x, y in ((0, 1), (1, 0)):
            if fn.strip_all_casts(e['c'][y]).get('v') != 0:
                continue
            n = fn.N(e['c'][x])
            # follow casts and single-definition locals down to a subtraction
            signed_seen = False
            for _i in range(12):
                t = int_type(n.get('t'))
                if t and t[1]:
                    signed_seen = True
                if (n['k'].endswith('CastExpr') or n['k'] in ('ParenExpr', 'ExprWithCleanups')) and n.get('c'):
                    n = fn.N(n['c'][0])
                elif n['k'] == 'DeclRefExpr' and n.get('vid') in fn.const_init:
                    n = fn.N(fn.const_init[n['vid']])
                else:
                    break
            if not signed_seen or n['k'] != 'BinaryOperator' or n.get('op') != '-':
                continue
            ops = []
            for c in n['c']:
                m = fn.N(c)
                while m['k'] == 'ImplicitCastExpr' and m.get('ck') in ('LValueToRValue', 'NoOp', 'IntegralCast') and m.get('c'):
                    inner = fn.N(m['c'][0])
                    if m.get('ck') == 'IntegralCast' and int_type(inner.get('t')) and int_type(m.get('t')) and int_type(inner.get('t'))[0] < int_type(m.get('t'))[0]:
                        m = inner       # a promotion: the operand's own type counts
                        continue
                    if m.get('ck') == 'IntegralCast':
                        break
                    m = inner
                ops.append(int_type(m.get('t')))
            if len(ops) == 2 and all(o and not o[1] and o[0] >= 32 for o in ops):
                out.append((e, fn.render(n)))
    return out


def reaches_avoiding(fn, a, b, avoid=()):
    """control flows from element a (executed) to element b without executing any element of `avoid` in between"""
    av = {}
    for x in avoid:
        av.setdefault(fn.block_of[x['i']], []).append(fn.pos_of[x['i']])
    ba, pa = fn.block_of[a['i']], fn.pos_of[a['i']]
    bb, pb = fn.block_of[b['i']], fn.pos_of[b['i']]

    def scan(blk, start):
        """(reached b?, falls through to successors?) scanning block blk from position start"""
        stops = sorted(p for p in av.get(blk, []) if p >= start)
        stop = stops[0] if stops else None
        if blk == bb and pb >= start and (stop is None or pb <= stop):
            return True, False
        return False, stop is None
    hit, through = scan(ba, pa + 1)
    if hit:
        return True
    if not through:
        return False
    seen, st = set(), [s for s in fn.succs(ba) if s is not None]
    while st:
        x = st.pop()
        if x in seen:
            continue
        seen.add(x)
        hit, through = scan(x, 0)
        if hit:
            return True
        if through:
            st.extend(s for s in fn.succs(x) if s is not None)
    return False


def loop_bodies(fn):
    """header block -> set of blocks of its natural loop (union over its back edges)"""
    cache = fn.__dict__.setdefault('_loop_bodies', None)
    if cache is not None:
        return cache
    doms = fn.dominators()
    preds = {}
    for b in fn.blocks:
        for s_ in fn.succs(b):
            if s_ is not None:
                preds.setdefault(s_, set()).add(b)
    out = {}
    for h in fn.blocks:
        latches = [t for t in preds.get(h, ()) if h in doms.get(t, ())]
        if not latches:
            continue
        body, st = {h}, list(latches)
        while st:
            x = st.pop()
            if x in body:
                continue
            body.add(x)
            st.extend(preds.get(x, ()))
        out[h] = body
    fn.__dict__['_loop_bodies'] = out
    return out


def loops_around(fn, block):
    """headers of the (natural) loops whose body contains `block`, innermost first"""
    lb = loop_bodies(fn)
    hs = [h for h, body in lb.items() if block in body]
    return sorted(hs, key=lambda h: len(lb[h]))


def every_iteration_passes(fn, header, block):
    """every way round the loop (header -> ... -> header) goes through `block`"""
    if block == header:
        return True
    seen, st = set(), [s for s in fn.succs(header) if s is not None]
    while st:
        x = st.pop()
        if x in seen or x == block:
            continue
        seen.add(x)
        if x == header:
            return False
        st.extend(s for s in fn.succs(x) if s is not None)
    return True


def setter_field(fx, q, fallback=None):
    """the qualified name of the field that the one-parameter overload of accessor q stores its argument into (CharInfo::before(int) ->
    CharInfo::m_before): harnesses address private members by ROLE, so a rename of the member does not misplace their inputs"""
    for fn in fx.fns_named(q):
        ps = fn.f.get('params') or []
        if len(ps) != 1:
            continue
        for _, e in fn.elements():
            if e['k'] == 'BinaryOperator' and e['op'] == '=':
                t = fn.strip(e['c'][0])
                r = fn.strip_all_casts(e['c'][1])
                while r['k'].endswith('CastExpr') and r.get('c'):
                    r = fn.strip_all_casts(fn.N(r['c'][0]))
                if t['k'] == 'MemberExpr' and t.get('dk') == 'Field' and any(x.get('vid') == ps[0]['vid'] for x in fn.walk(e['c'][1])):
                    return t['d']
    return fallback


class OnlyRules:
    """a view of a Run that records the outcomes of the named rules only (to share one clause of another property's rule set)"""

    def __init__(self, run, rules, rename=None, soft=False):
        # soft: a shared rule that does not recognise a shape is the OWNING property's analysis-broken; here it is only noted
        self._run, self._rules, self._rename, self._soft = run, set(rules), rename or {}, soft

    def __getattr__(self, name):
        return getattr(self._run, name)

    def __setattr__(self, name, value):
        if name in ('_run', '_rules', '_rename', '_soft'):
            object.__setattr__(self, name, value)
        else:
            setattr(self._run, name, value)          # caches (the VM model, the effect analysis) and the configuration tag live on the real run

    def held(self, rule, *a, **k):
        if rule in self._rules:
            self._run.held(self._rename.get(rule, rule), *a, **k)

    def violated(self, rule, *a, **k):
        if rule in self._rules:
            inst = a[0] if a else k.get('inst')
            if inst in _known_instances():
                return                  # a recorded finding belongs to the property it is recorded for (known_findings.json), not to the one that shares the rule
            self._run.violated(self._rename.get(rule, rule), *a, **k)

    def broken(self, rule, *a, **k):
        if rule in self._rules:
            if self._soft:
                self._run.observe('shared rule %s could not decide here (decided, or reported as analysis-broken, by the property that owns it): %s' % (rule, ' '.join(str(x) for x in a)[:300]))
            else:
                self._run.broken(self._rename.get(rule, rule), *a, **k)


def _known_instances():
    import json, os
    if not hasattr(_known_instances, 'v'):
        p = os.path.join(os.path.dirname(os.path.dirname(os.path.abspath(__file__))), 'known_findings.json')
        try:
            _known_instances.v = {f['instance'] for f in json.load(open(p)).get('findings', [])}
        except Exception:
            _known_instances.v = set()
    return _known_instances.v


def share(run, module, rules, rename_to, why=''):
    """run another property's rule set through a filter that keeps only the named rules, under one of this property's own rule ids; a
    shape the shared rule does not recognise is noted, not reported (soft)"""
    import importlib
    from .facts import AnalysisBroken
    m = importlib.import_module('rules.' + module)
    view = OnlyRules(run, rules, {r: rename_to for r in rules}, soft=True)
    try:
        m.run(view)
    except AnalysisBroken as ex:
        run.observe('shared rules %s of %s could not be evaluated here: %s' % (sorted(rules), module, ex))
