"""EFF engine: write effects of the functions reachable from an entry set, classified by the
OWNER of the memory written (DESIGN.md section 5, EFF; section 6 C08/C09).

Owner of a store = root of its pointer chain on mem2reg'd, typed-pointer IR:
  alloca                      -> local
  allocator result            -> fresh            (not shared until published)
  global                      -> global:<name>
  GEP into / typed pointer to a struct of a SHARED class   -> shared:<Class>
  ... of a PER-CALL class                                   -> percall:<Class>
  scalar / ambiguous-class pointer loaded from memory M     -> owner(M)
  function argument of scalar / ambiguous type              -> bound at the call sites (interprocedural)
  pointer returned by a call                                -> owner of the callee's returned values
A struct type that is in neither table is exit 2 (the partition must be total).
"""
import re
from .facts import AnalysisBroken
from .ir import ALLOCATORS, DEALLOCATORS

SHARED = {
    'graphite2::Face', 'graphite2::Face::Table', 'graphite2::FileFace', 'graphite2::GlyphCache', 'graphite2::GlyphCache::Loader',
    'graphite2::GlyphFace', 'graphite2::GlyphBox', 'graphite2::sparse', 'graphite2::sparse::chunk', 'graphite2::Cmap',
    'graphite2::DirectCmap', 'graphite2::CachedCmap', 'graphite2::Silf', 'graphite2::Pass', 'graphite2::Rule',
    'graphite2::State', 'graphite2::vm::Machine::Code', 'graphite2::Pseudo', 'graphite2::Silf::Justinfo', 'graphite2::Justinfo', 'graphite2::FeatureMap',
    'graphite2::FeatureRef', 'graphite2::FeatureSetting', 'graphite2::NameAndFeatureRef', 'graphite2::SillMap',
    'graphite2::SillMap::LangFeaturePair', 'graphite2::NameTable', 'graphite2::Locale2Lang', 'graphite2::Font', 'gr_face', 'gr_font',
    'gr_feature_ref', 'gr_face_ops', 'gr_font_ops', 'graphite2::IsoLangEntry', 'graphite2::TtfUtil::Sfnt::OffsetSubTable',
    'graphite2::vm::opcode_t', 'gr_faceinfo',
}
PERCALL = {
    'graphite2::Segment', 'graphite2::Slot', 'graphite2::SlotJustify', 'graphite2::CharInfo', 'graphite2::SlotCollision',
    'graphite2::SlotMap', 'graphite2::FiniteStateMachine', 'graphite2::FiniteStateMachine::Rules', 'graphite2::vm::Machine',
    'graphite2::ShiftCollider', 'graphite2::KernCollider', 'graphite2::Zones', 'graphite2::Zones::Exclusion', 'graphite2::JustifyTotal',
    'gr_segment', 'gr_slot', 'gr_char_info', 'regbank', 'graphite2::Error', 'graphite2::vm::Machine::Code::decoder',
    'graphite2::vm::Machine::Code::decoder::limits', '(anonymous namespace)::context', 'graphite2::Zones::Debug', 'JustifyTotal',
}
AMBIGUOUS_PREFIX = ('graphite2::objectid', 'graphite2::dslot', 'graphite2::RuleEntry', 'graphite2::Position', 'graphite2::Rect', 'graphite2::BBox', 'graphite2::SlantBox', 'graphite2::FeatureVal',
                    'gr_feature_val', 'graphite2::Vector', 'graphite2::_utf_iterator', 'std::', 'anon',
                    'graphite2::Features', 'graphite2::_utf_codec', '(anonymous namespace)::_glat_iterator', 'graphite2::be', 'graphite2::telemetry',
                    '(anonymous namespace)::u16', 'union.', 'graphite2::TtfUtil', 'graphite2::vm::Machine::Code::decoder::context',
                    'graphite2::Slot::(anonymous', 'graphite2::FeatureRef::(anonymous', 'graphite2::CharInfo::(anonymous', 'graphite2::_glat_iterator',
                    'graphite2::gr_sparse', '_IO_FILE', 'graphite2::lz4')


def struct_name(t):
    """'%"class.graphite2::Face"*' -> ('graphite2::Face', ptr_depth) or (None, depth) for non-struct"""
    if t is None:
        return None, 0
    depth = len(t) - len(t.rstrip('*'))
    b = t.rstrip('*')
    m = re.match(r'^%"?(?:class|struct|union)\.([^"]+?)(?:\.\d+)?"?$', b)
    if not m:
        return None, depth
    n = m.group(1)
    n = re.sub(r'\.\d+$', '', n)
    if b.startswith('%"union') or b.startswith('%union'):
        return 'union.' + n, depth
    return n, depth


def class_of(name):
    if name is None:
        return None
    base = re.sub(r'<.*$', '', name)
    if name in SHARED or base in SHARED:
        return 'shared'
    if name in PERCALL or base in PERCALL:
        return 'percall'
    if name.startswith('(anonymous namespace)::') and name.split('::')[-1] in ('context',):
        return 'percall'
    if name.startswith('graphite2::json') or name in ('_IO_FILE',):
        return 'logger'
    for p in AMBIGUOUS_PREFIX:
        if name.startswith(p):
            return 'ambiguous'
    return 'unknown'


class Eff:
    def __init__(self, ir, fx):
        self.ir = ir
        self.fx = fx
        self._ret = {}
        self._owner_memo = {}
        self.unknown_structs = set()
        self.callgraph = None
        self.indirect = []          # (function, inst, classification)

    # ---------------------------------------------------------------------------- call graph
    def build_callgraph(self, handler_names=None):
        ir = self.ir
        cg = {}
        ast_by_m = {}
        for k, f in self.fx.raw['functions'].items():
            ast_by_m.setdefault(f['m'], f)
        handler_set = set(handler_names or [])
        for name, f in ir.funcs.items():
            out = set()
            for ins in f['ins']:
                if ins['op'] not in ('call', 'invoke'):
                    # functions whose address is taken and passed on (qsort comparator etc.)
                    continue
                if 'callee' in ins:
                    c = ir.aliases.get(ins['callee'], ins['callee'])
                    out.add(c)
                    # function pointers passed as arguments to external functions (qsort)
                    for o in ins['o']:
                        if isinstance(o, dict) and o.get('fn'):
                            out.add(o['g'])
                        if isinstance(o, dict) and o.get('ce') and any(isinstance(x, dict) and x.get('fn') for x in o.get('o', [])):
                            for x in o['o']:
                                if isinstance(x, dict) and x.get('fn'):
                                    out.add(x['g'])
                else:
                    kind = self._classify_indirect(f, ins, ast_by_m, handler_set)
                    self.indirect.append((name, ins, kind))
                    for t in kind['targets']:
                        out.add(t)
            cg[name] = out
        self.callgraph = cg
        return cg

    def _classify_indirect(self, f, ins, ast_by_m, handler_set):
        ir = self.ir
        ic = ins['icallee']
        # chase: load of a field of gr_face_ops / gr_font_ops
        v = ic
        byid = f['byid']
        seen = 0
        while isinstance(v, int) and seen < 10:
            seen += 1
            d = byid.get(v)
            if d is None:
                break
            if d['op'] in ('bitcast', 'inttoptr'):
                v = d['o'][0]
                continue
            if d['op'] == 'load':
                p = d['o'][0]
                pd = byid.get(p) if isinstance(p, int) else None
                if pd and pd['op'] == 'getelementptr':
                    sn, _ = struct_name(pd.get('st'))
                    idx = pd['o'][-1].get('c') if isinstance(pd['o'][-1], dict) else None
                    if sn in ('gr_face_ops', 'gr_font_ops'):
                        names = {'gr_face_ops': {1: 'get_table', 2: 'release_table'}, 'gr_font_ops': {1: 'glyph_advance_x', 2: 'glyph_advance_y'}}
                        return {'kind': 'external', 'name': 'EXTERNAL:%s' % names[sn].get(idx, '?'), 'targets': ['EXTERNAL:%s' % names[sn].get(idx, '?')]}
                v = p
                continue
            break
        # virtual call: join with the AST on (function, line)
        af = ast_by_m.get(f['name'])
        if af is not None:
            virt = set()
            for b in af.get('blocks', []):
                for e in b['el']:
                    if e.get('virt') and e.get('ln') == ins.get('ln') and not e.get('qualcall'):
                        virt.add(e['fq'])
                    if e.get('k') in ('AutoDtor', 'DeleteDtor', 'MemberDtor') and e.get('ln') == ins.get('ln') and e.get('fq'):
                        virt.add(e['fq'])
            if virt:
                targets = set()
                for q in virt:
                    meth = q.split('::')[-1]
                    for k2, g in self.fx.raw['functions'].items():
                        if g['q'].split('::')[-1] == meth and g.get('virt') and g['m'] in ir.funcs:
                            targets.add(ir.aliases.get(g['m'], g['m']))
                        if meth.startswith('~') and g.get('dtor') and g.get('virt'):
                            for var in (g['m'], g['m'].replace('D2Ev', 'D0Ev'), g['m'].replace('D2Ev', 'D1Ev')):
                                var = ir.aliases.get(var, var)
                                if var in ir.funcs:
                                    targets.add(var)
                if targets:
                    return {'kind': 'virtual', 'name': sorted(virt), 'targets': sorted(targets)}
        # opcode dispatch of the call-threaded interpreter
        if f['dem'].startswith('graphite2::vm::Machine::run') and handler_set:
            return {'kind': 'dispatch', 'name': 'opcode handlers', 'targets': sorted(handler_set)}
        return {'kind': 'unknown', 'name': None, 'targets': []}

    def reachable(self, entries, cut_edges=()):
        cg = self.callgraph
        cut = set(cut_edges)
        seen = set()
        st = list(entries)
        while st:
            n = st.pop()
            if n in seen:
                continue
            seen.add(n)
            for c in cg.get(n, ()):
                if (n, c) in cut:
                    continue
                if c in self.ir.funcs or c.startswith('EXTERNAL:'):
                    st.append(c)
        return seen

    # ------------------------------------------------------------------------------ ownership
    def owner(self, fname, v, depth=0, stack=()):
        """set of owner tags for pointer value v in function fname"""
        key = (fname, v if isinstance(v, int) else repr(v))
        if key in self._owner_memo:
            return self._owner_memo[key]
        if key in stack or depth > 40:
            return frozenset()
        res = self._owner(fname, v, depth, stack + (key,))
        self._owner_memo[key] = res
        return res

    def _tag_for_struct(self, sn):
        c = class_of(sn)
        if c == 'shared':
            return 'shared:' + sn
        if c == 'percall':
            return 'percall:' + sn
        if c == 'logger':
            return 'logger:' + sn       # the tracing build's json logger (Face::m_logger / global_log): excluded from the contract by the documentation
        if c == 'unknown':
            self.unknown_structs.add(sn)
            return 'unknownstruct:' + sn
        return None      # ambiguous: keep walking

    def _owner(self, fname, v, depth, stack):
        f = self.ir.funcs[fname]
        if isinstance(v, dict):
            if 'g' in v:
                g = self.ir.globals.get(v['g'])
                return frozenset(['global:%s%s' % (v['g'], ':const' if g and g['const'] else '')])
            if 'ce' in v:
                out = set()
                if v['ce'] == 'getelementptr':
                    return self.owner(fname, v['o'][0], depth + 1, stack)
                for o in v.get('o', [])[:1]:
                    out |= self.owner(fname, o, depth + 1, stack)
                return frozenset(out)
            if v.get('k') == 'null':
                return frozenset(['null'])
            return frozenset(['const'])
        nargs = len(f['args'])
        if v < nargs:
            t = f['args'][v]['t']
            sn, d = struct_name(t)
            if sn is not None and d == 1:
                tag = self._tag_for_struct(sn)
                if tag:
                    return frozenset(['argT:%d:%s' % (v, tag)])
            return frozenset(['arg:%d' % v])
        d = f['byid'].get(v)
        if d is None:
            return frozenset(['unknown:value%d' % v])
        op = d['op']
        if op == 'alloca':
            return frozenset(['local'])
        if op in ('bitcast', 'addrspacecast'):
            # a typed pointer before the cast wins
            return self.owner(fname, d['o'][0], depth + 1, stack)
        if op == 'getelementptr':
            sn, _ = struct_name(d.get('st'))
            base = self.owner(fname, d['o'][0], depth + 1, stack)
            if sn is not None:
                tag = self._tag_for_struct(sn)
                if tag:
                    # an object that is itself a local / freshly allocated / parameter-bound value keeps that root
                    if base and all(t in ('local', 'fresh') or t.startswith('argT:') for t in base):
                        return base
                    return frozenset([tag])
            return base
        if op == 'load':
            sn, dp = struct_name(d.get('t'))
            if sn is not None and dp == 1:
                tag = self._tag_for_struct(sn)
                if tag:
                    return frozenset([tag])
            return self.owner(fname, d['o'][0], depth + 1, stack)
        if op in ('phi', 'select'):
            ops = d['o'] if op == 'phi' else d['o'][1:]
            out = set()
            for o in ops:
                out |= self.owner(fname, o, depth + 1, stack)
            out.discard('null')
            return frozenset(out) if out else frozenset(['null'])
        if op in ('call', 'invoke'):
            sn, dp = struct_name(d.get('t'))
            c = d.get('callee')
            if c in ALLOCATORS:
                return frozenset(['fresh'])
            if c is not None:
                c = self.ir.aliases.get(c, c)
                cf = self.ir.funcs.get(c)
                dem = cf['dem'] if cf else c
                if re.match(r'^(void|char|unsigned char|[\w:<> ]+)\s*\*?\s*graphite2::gr(zero)?alloc<', dem or '') or \
                        (dem or '').startswith('graphite2::gralloc') or (dem or '').startswith('graphite2::grzeroalloc') or \
                        'operator new' in (dem or ''):
                    return frozenset(['fresh'])
            if sn is not None and dp == 1:
                tag = self._tag_for_struct(sn)
                if tag:
                    return frozenset([tag])
            if c is not None and c in self.ir.funcs:
                return self._ret_owner(c, fname, d, depth, stack)
            return frozenset(['unknown:ret:%s' % (c or 'indirect')])
        if op in ('inttoptr',):
            return self.owner(fname, d['o'][0], depth + 1, stack)
        if op in ('add', 'sub', 'ptrtoint', 'and', 'or', 'zext', 'sext', 'trunc'):
            out = set()
            for o in d['o']:
                if isinstance(o, int):
                    out |= self.owner(fname, o, depth + 1, stack)
            return frozenset(out) if out else frozenset(['const'])
        if op == 'extractvalue':
            return self.owner(fname, d['o'][0], depth + 1, stack)
        return frozenset(['unknown:%s' % op])

    def _ret_owner(self, callee, caller, callins, depth, stack):
        """owner of the pointer returned by callee, with its arg:<i> tags bound to the actuals"""
        if callee not in self._ret:
            self._ret[callee] = None       # recursion guard
            cf = self.ir.funcs[callee]
            out = set()
            for ins in cf['ins']:
                if ins['op'] == 'ret' and ins['o']:
                    out |= self.owner(callee, ins['o'][0], 0, ())
            self._ret[callee] = frozenset(out)
        r = self._ret[callee]
        if r is None:
            return frozenset()
        out = set()
        for t in r:
            if t.startswith('arg:') or t.startswith('argT:'):
                i = int(t.split(':')[1])
                if i < len(callins['o']):
                    out |= self.owner(caller, callins['o'][i], depth + 1, stack)
            else:
                out.add(t)
        return frozenset(out)

    # --------------------------------------------------------------------------- write effects
    def writes_of(self, fname):
        """[(inst, pointer operand, kind)] for every instruction of fname that writes memory"""
        f = self.ir.funcs[fname]
        out = []
        for ins in f['ins']:
            op = ins['op']
            if op == 'store':
                out.append((ins, ins['o'][1], 'store'))
            elif op in ('atomicrmw', 'cmpxchg'):
                out.append((ins, ins['o'][0], op))
            elif op == 'call' and ins.get('intr') and ins.get('callee', '').startswith(('llvm.memcpy', 'llvm.memset', 'llvm.memmove')):
                out.append((ins, ins['o'][0], ins['callee'].split('.')[1]))
            elif op == 'call' and ins.get('callee') in ('memcpy', 'memset', 'memmove', 'strcpy', 'strncpy'):
                out.append((ins, ins['o'][0], ins['callee']))
        return out

    def bind_args(self, fname, tags, reach, depth=0, seen=None):
        """replace arg:<i> tags of function fname by the owners of the actual arguments at its call
        sites inside the reachable set"""
        seen = seen or set()
        out = set()
        for t in tags:
            if not (t.startswith('arg:') or t.startswith('argT:')):
                out.add(t)
                continue
            typed = None
            if t.startswith('argT:'):
                _, si, typed = t.split(':', 2)
                i = int(si)
            else:
                i = int(t[4:])
            key = (fname, i)
            if key in seen:
                continue            # recursive binding: least fixed point, contributes nothing new
            if depth > 8:
                out.add(typed if typed else 'unbound:' + t + '@' + fname)
                continue
            callers = self._callers_of(fname, reach)
            if not callers:
                out.add(typed if typed else 'entryarg:%d@%s' % (i, fname))
                continue
            for cname, ins in callers:
                if i >= len(ins['o']):
                    out.add('unbound:' + t + '@' + fname)
                    continue
                o = self.owner(cname, ins['o'][i])
                out |= self.bind_args(cname, o, reach, depth + 1, seen | {key})
        return out

    def _callers_of(self, fname, reach):
        if not hasattr(self, '_callsites'):
            cs = {}
            for n, f in self.ir.funcs.items():
                for ins in f['ins']:
                    if ins['op'] in ('call', 'invoke') and 'callee' in ins:
                        c = self.ir.aliases.get(ins['callee'], ins['callee'])
                        cs.setdefault(c, []).append((n, ins))
            # indirect targets
            for n, ins, kind in self.indirect:
                for t in kind['targets']:
                    cs.setdefault(t, []).append((n, ins))
            self._callsites = cs
        return [(n, i) for n, i in self._callsites.get(fname, []) if n in reach]
