"""LLVM IR facts: whole-library module per configuration (typed pointers, -O0 + mem2reg/sroa),
dumped by build/grir.  Provides the call graph (aliases resolved, indirect calls classified)
and per-function instruction tables for the effect / ownership / escape analyses."""
import json
import os
import pickle
import re
import subprocess
import time
from concurrent.futures import ThreadPoolExecutor

from . import facts as F
from .facts import AnalysisBroken

ALLOCATORS = {'malloc', 'calloc', 'realloc', '_Znwm', '_Znam', '_ZnwmRKSt9nothrow_t', '_ZnamRKSt9nothrow_t'}
DEALLOCATORS = {'free', '_ZdlPv', '_ZdaPv', '_ZdlPvm', '_ZdaPvm'}


def _compile(args):
    unit, cfg, outdir = args
    out = os.path.join(outdir, unit + '.bc')
    cmd = ['clang++', '-c', '-emit-llvm', '-O0', '-Xclang', '-disable-O0-optnone', '-g'] + F.flags_for(cfg) + [
        '-fno-inline', '-o', out, os.path.join('src', unit)]
    p = subprocess.run(cmd, cwd=F.REPO, capture_output=True, text=True)
    if p.returncode != 0:
        return unit, None, p.stderr[-1500:]
    return unit, out, ''


class IR:
    def __init__(self, doc, cfg):
        self.cfg = cfg
        self.funcs = {f['name']: f for f in doc['functions']}
        self.globals = {g['name']: g for g in doc['globals']}
        self.aliases = {a['name']: a['to'] for a in doc['aliases']}
        for f in self.funcs.values():
            f['byid'] = {i['i']: i for i in f['ins']}
        self._callees = {}
        self._callers = None

    def fn(self, name):
        name = self.aliases.get(name, name)
        return self.funcs.get(name)

    def by_demangled(self, prefix):
        return [f for f in self.funcs.values() if f['dem'].startswith(prefix)]

    def find(self, dem_regex):
        r = re.compile(dem_regex)
        return [f for f in self.funcs.values() if r.search(f['dem'])]

    def one(self, dem_regex):
        c = self.find(dem_regex)
        if len(c) != 1:
            raise AnalysisBroken('IR anchor %s: expected one function, found %d (%s)' % (dem_regex, len(c), [x['dem'] for x in c][:4]))
        return c[0]


def load(cfg='Q0', use_cache=True):
    if not os.path.exists(F.GRIR):
        raise AnalysisBroken('build/grir missing: run MANIFEST.setup_cmd (make -C tools)')
    cdir = F.cache_dir(cfg)
    pk = os.path.join(cdir, 'ir.pickle')
    if use_cache and os.path.exists(pk):
        with open(pk, 'rb') as fh:
            return pickle.load(fh)
    vm = F.CONFIGS[cfg]['vm']
    units = [u for u in F.unit_list(cfg) if not (u.endswith('_machine.cpp') and not u.startswith(vm))]
    tmp = os.path.join(cdir, 'bc.%d' % os.getpid())       # private to this process: checks may run concurrently
    os.makedirs(tmp, exist_ok=True)
    with ThreadPoolExecutor(max_workers=16) as ex:
        res = list(ex.map(_compile, [(u, cfg, tmp) for u in units]))
    bad = [(u, e) for u, o, e in res if o is None]
    if bad:
        raise AnalysisBroken('units failed to compile to IR: %s' % bad[:2])
    linked = os.path.join(tmp, 'lib.bc')
    opt = os.path.join(tmp, 'lib.opt.bc')
    p = subprocess.run(['llvm-link-14', '-o', linked] + [o for _, o, _ in res], capture_output=True, text=True)
    if p.returncode != 0:
        raise AnalysisBroken('llvm-link failed: %s' % p.stderr[-800:])
    p = subprocess.run(['opt-14', '-passes=function(sroa,mem2reg)', '-o', opt, linked], capture_output=True, text=True)
    if p.returncode != 0:
        raise AnalysisBroken('opt failed: %s' % p.stderr[-800:])
    outj = os.path.join(tmp, 'lib.json')
    p = subprocess.run([F.GRIR, opt, outj], capture_output=True, text=True)
    if p.returncode != 0:
        raise AnalysisBroken('grir failed: %s' % p.stderr[-800:])
    with open(outj) as fh:
        doc = json.load(fh)
    subprocess.run(['rm', '-rf', tmp])
    ir = IR(doc, cfg)
    with open(pk + '.%d' % os.getpid(), 'wb') as fh:
        pickle.dump(ir, fh, protocol=pickle.HIGHEST_PROTOCOL)
    os.replace(pk + '.%d' % os.getpid(), pk)                # atomic: a concurrent reader sees the old state or the whole file
    return ir
