"""Opcode specification table for the arithmetic / logic / stack opcodes in C07's scope,
keyed by the ON-DISK OPCODE NUMBER, written from doc/OpCodes.adoc and expressed in the
bit-vector normal form of vmsym (S[0] = top of stack on entry, S[-1] the item below it,
P<j> the j-th operand byte).

One documented discrepancy, recorded in DESIGN.md section 7: doc/OpCodes.adoc lists 0x3E as
BitAnd and 0x3F as BitOr, while enum opcode (BITOR = 0x3E, BITAND = 0x3F), the names in
opcode_table, the Graphite compiler and fontTools' Silf disassembler all agree on
0x3E = bitwise OR, 0x3F = bitwise AND.  The two rows of the document are swapped; the spec
below follows the on-disk numbering every producer of fonts uses.
"""
from .vmsym import K, simp

S0, S1, S2 = ('S', 0), ('S', -1), ('S', -2)


def P(j):
    return ('P', j)


def BE(width, ext, *bytes_):
    return ('BE', width, ext, tuple(bytes_))


def b2i(x):
    return ('ext', 'z', 32, x)


def nz(x):
    return ('cmp', 'ne', x, K(0))


def binop(op):
    return ('bin', op, 32, S1, S0)


def cmp_(op):
    return b2i(('cmp', op, S1, S0))


# number -> (enum name, net sp effect, {cell offset (relative to entry sp): value}, operand bytes,
#            exit kind, deepest cell read, doc sentence)
SPEC = {
    0x00: ('NOP', 0, {}, 0, 'ENDOP', None, 'Do nothing.'),
    0x01: ('PUSH_BYTE', 1, {1: ('ext', 's', 32, P(0))}, 1, 'ENDOP', None, 'Push the 8-bit signed number onto the stack.'),
    0x02: ('PUSH_BYTEU', 1, {1: ('ext', 'z', 32, P(0))}, 1, 'ENDOP', None, 'Push the 8-bit unsigned number onto the stack.'),
    0x03: ('PUSH_SHORT', 1, {1: BE(16, 's', P(0), P(1))}, 2, 'ENDOP', None, 'Push the 16-bit signed number onto the stack.'),
    0x04: ('PUSH_SHORTU', 1, {1: BE(16, 'z', P(0), P(1))}, 2, 'ENDOP', None, 'Push the 16-bit unsigned number onto the stack.'),
    0x05: ('PUSH_LONG', 1, {1: BE(32, '-', P(0), P(1), P(2), P(3))}, 4, 'ENDOP', None, 'Push the 32-bit signed number onto the stack.'),
    0x06: ('ADD', -1, {-1: binop('add')}, 0, 'ENDOP', -1, 'Pop two items, add them, and push the result.'),
    0x07: ('SUB', -1, {-1: binop('sub')}, 0, 'ENDOP', -1, 'Pop two items, subtract (top-most) from the next, and push the result.'),
    0x08: ('MUL', -1, {-1: binop('mul')}, 0, 'ENDOP', -1, 'Pop two items, multiply, and push the result.'),
    0x09: ('DIV', -1, {-1: binop('sdiv')}, 0, 'ENDOP', -1, 'Pop two items, divide the second by the first (top-most), and push the result.'),
    0x0A: ('MIN_', -1, {-1: ('smin', S0, S1)}, 0, 'ENDOP', -1, 'Pop two items and push the minimum.'),
    0x0B: ('MAX_', -1, {-1: ('smax', S0, S1)}, 0, 'ENDOP', -1, 'Pop two items and push the maximum.'),
    0x0C: ('NEG', 0, {0: ('bin', 'sub', 32, K(0), S0)}, 0, 'ENDOP', 0, 'Pop item and push the negation.'),
    0x0D: ('TRUNC8', 0, {0: ('ext', 'z', 32, ('trunc', 8, S0))}, 0, 'ENDOP', 0, 'Pop item and push the value truncated to 8 bits.'),
    0x0E: ('TRUNC16', 0, {0: ('ext', 'z', 32, ('trunc', 16, S0))}, 0, 'ENDOP', 0, 'Pop item and push the value truncated to 16 bits.'),
    0x0F: ('COND', -2, {-2: ('sel', nz(S2), S1, S0)}, 0, 'ENDOP', -2,
           'Pop three items (f, t, c in pop order). If c == 0 push f back on, otherwise push t.'),
    0x10: ('AND', -1, {-1: b2i(('land', nz(S1), nz(S0)))}, 0, 'ENDOP', -1, 'Pop two items and push their logical and.'),
    0x11: ('OR', -1, {-1: b2i(('lor', nz(S1), nz(S0)))}, 0, 'ENDOP', -1, 'Pop two items and push their logical or.'),
    0x12: ('NOT', 0, {0: b2i(('cmp', 'eq', S0, K(0)))}, 0, 'ENDOP', 0, 'Pop item and push its logical negation.'),
    0x13: ('EQUAL', -1, {-1: cmp_('eq')}, 0, 'ENDOP', -1, 'Pop two items and if equal push 1, 0 if not.'),
    0x14: ('NOT_EQ', -1, {-1: cmp_('ne')}, 0, 'ENDOP', -1, 'Pop two items and if equal push 0, 1 if not.'),
    0x15: ('LESS', -1, {-1: cmp_('slt')}, 0, 'ENDOP', -1, 'Pop two items and if 2nd is less than 1st push 1, otherwise push 0.'),
    0x16: ('GTR', -1, {-1: cmp_('sgt')}, 0, 'ENDOP', -1, 'Pop two items and if 2nd is greater than 1st push 1, otherwise 0.'),
    0x17: ('LESS_EQ', -1, {-1: cmp_('sle')}, 0, 'ENDOP', -1, 'Pop two items and if 2nd is <= 1st push 1, otherwise 0.'),
    0x18: ('GTR_EQ', -1, {-1: cmp_('sge')}, 0, 'ENDOP', -1, 'Pop two items and if 2nd is >= 1st push 1, otherwise 0.'),
    0x30: ('POP_RET', 0, {0: S0}, 0, 'EXIT', 0, 'Pop the top of the stack and return that value.'),
    0x31: ('RET_ZERO', 1, {1: K(0)}, 0, 'EXIT', None, 'Terminate the processing and return zero.'),
    0x32: ('RET_TRUE', 1, {1: K(1)}, 0, 'EXIT', None, 'Terminate the processing and return true (1).'),
    0x3E: ('BITOR', -1, {-1: binop('or')}, 0, 'ENDOP', -1, 'Pop the top two items, perform a bitwise OR, push the result (doc rows 3E/3F are swapped).'),
    0x3F: ('BITAND', -1, {-1: binop('and')}, 0, 'ENDOP', -1, 'Pop the top two items, perform a bitwise AND, push the result (doc rows 3E/3F are swapped).'),
    0x40: ('BITNOT', 0, {0: ('bnot', 32, S0)}, 0, 'ENDOP', 0, 'Pop the top item, perform a bitwise NOT, push the result.'),
    0x41: ('BITSET', 0, {0: ('bin', 'or', 32, ('bin', 'and', 32, S0, ('bnot', 32, BE(16, 'z', P(0), P(1)))),
                             BE(16, 'z', P(2), P(3)))}, 4, 'ENDOP', 0,
           'Pop the top item, clear the mask bits, set the value bits, and push the result.'),
}


# ---------------------------------------------------------------------------------- canonical form
def lanes(x):
    """byte-assembly expression -> {bit shift: ('P', j)} or None"""
    t = x[0]
    if t == 'K' and x[1] == 0:
        return {}
    if t == 'P':
        return {0: x}
    if t == 'ext' and x[1] == 'z':
        return lanes(x[3])
    if t == 'trunc':
        l = lanes(x[2])
        if l is None:
            return None
        return {s: b for s, b in l.items() if s < x[1]}
    if t == 'bin' and x[1] == 'shl' and x[4][0] == 'K':
        l = lanes(x[3])
        if l is None:
            return None
        return {s + x[4][1]: b for s, b in l.items() if s + x[4][1] < x[2]}
    if t == 'bin' and x[1] == 'or':
        a, b = lanes(x[3]), lanes(x[4])
        if a is None or b is None or set(a) & set(b):
            return None
        a = dict(a)
        a.update(b)
        return a
    return None


def canon(x):
    """vmsym tree -> canonical tree with byte assemblies folded into BE nodes and min/max
    selections recognised; commutative operands sorted."""
    if not isinstance(x, tuple):
        return x
    t = x[0]
    if t == 'BE':
        return x
    # byte assemblies (only when at least two bytes, or an explicit 16/32-bit assembly, are involved)
    if t == 'ext' and x[2] == 32 and x[3][0] == 'trunc' and x[3][1] == 16:
        l = lanes(x[3])
        if l is not None and set(l) == {0, 8}:
            return ('BE', 16, x[1], (l[8], l[0]))
    if t == 'bin' and x[1] == 'or' and x[2] == 32:
        l = lanes(x)
        if l is not None and set(l) == {0, 8, 16, 24}:
            return ('BE', 32, '-', (l[24], l[16], l[8], l[0]))
    if t == 'sel':
        c, a, b = canon(x[1]), canon(x[2]), canon(x[3])
        if c[0] == 'cmp' and c[1] in ('slt', 'sle', 'sgt', 'sge', 'ult', 'ule', 'ugt', 'uge') and {repr(c[2]), repr(c[3])} == {repr(a), repr(b)} and a != b:
            sg = c[1][0]
            less = c[1][1] == 'l'
            first_picked = (repr(c[2]) == repr(a))      # cond true picks c's left operand?
            # cond true: left <(=) right (less) ; value a chosen
            picks_smaller = (less and first_picked) or (not less and not first_picked)
            lo, hi = sorted((a, b), key=repr)
            return (sg + ('min' if picks_smaller else 'max'), lo, hi)
        return ('sel', c, a, b)
    if t in ('smin', 'smax', 'umin', 'umax'):
        lo, hi = sorted((canon(x[1]), canon(x[2])), key=repr)
        return (t, lo, hi)
    out = [t]
    for c in x[1:]:
        out.append(canon(c) if isinstance(c, tuple) else c)
    y = tuple(out)
    if t in ('bin',) and y[1] in ('add', 'mul', 'and', 'or', 'xor'):
        a, b = sorted((y[3], y[4]), key=repr)
        y = (t, y[1], y[2], a, b)
    if t in ('land', 'lor'):
        a, b = sorted((y[1], y[2]), key=repr)
        y = (t, a, b)
    if t == 'cmp' and y[1] in ('eq', 'ne'):
        a, b = sorted((y[2], y[3]), key=repr)
        y = (t, y[1], a, b)
    return y


def spec_cells(n):
    name, dsp, cells, nparam, exit_kind, deepest, doc = SPEC[n]
    return {off: canon(simp(v) if v[0] not in ('BE', 'smin', 'smax') and not _has_be(v) else v) for off, v in cells.items()}


def _has_be(v):
    if not isinstance(v, tuple):
        return False
    if v[0] in ('BE', 'smin', 'smax'):
        return True
    return any(_has_be(c) for c in v[1:] if isinstance(c, tuple))


def show(x):
    from . import vmsym
    if isinstance(x, tuple) and x[0] == 'BE':
        return '%sBE%d(%s)' % (x[2] if x[2] != '-' else '', x[1], ','.join('P%d' % b[1] for b in x[3]))
    if isinstance(x, tuple) and x[0] in ('smin', 'smax', 'umin', 'umax'):
        return '%s(%s, %s)' % (x[0], show(x[1]), show(x[2]))
    if isinstance(x, tuple) and x[0] in ('bin', 'cmp', 'ext', 'trunc', 'land', 'lor', 'lnot', 'sel', 'bnot'):
        # reuse vmsym.show but with BE-aware children
        t = x[0]
        if t == 'bin':
            return '(%s %s %s)' % (show(x[3]), x[1], show(x[4]))
        if t == 'cmp':
            return '(%s %s %s)' % (show(x[2]), x[1], show(x[3]))
        if t == 'ext':
            return '%sext%d(%s)' % (x[1], x[2], show(x[3]))
        if t == 'trunc':
            return 'trunc%d(%s)' % (x[1], show(x[2]))
        if t in ('land', 'lor'):
            return '(%s %s %s)' % (show(x[1]), t, show(x[2]))
        if t == 'lnot':
            return '!%s' % show(x[1])
        if t == 'sel':
            return '(%s ? %s : %s)' % (show(x[1]), show(x[2]), show(x[3]))
        if t == 'bnot':
            return '~%s' % show(x[2])
    return vmsym.show(x)
