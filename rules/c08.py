"""C08 -- shaping is a pure function of its arguments (history-independent)."""
from . import effrules as ER
from . import c08rules

LEVEL = 'other'
EXPLANATION = ('Effect analysis of the whole library on typed-pointer LLVM IR (mem2reg/sroa) joined with the AST facts: every store, '
               'memcpy/memset and atomic reachable from any shaping / query / label / justify / linebreak API entry is classified by the '
               'owner of the memory written (local, fresh, per-call class, caller out-parameter, SHARED class, global); the write set on '
               'face/font-owned memory must be empty once the three tabled lazy caches are cut out, and each lazy store must be '
               'dominated by its empty-slot guard (idempotent refill from immutable tables).  Plus: no mutable global / function-local '
               'static reachable, features copied by value, SHARED classes hold no pointer to PER-CALL objects, const-cast inventory.  '
               'This quantifies over all API histories because a history can only influence a later call through memory that outlives '
               'the call.  Equality of two dumps is NOT decided (runtime).')
FLOORS = {'LAZYFILL': 9, 'DEEPCONST': 3, 'NOGLOBAL': 1, 'PARTITION': 20, 'COPYFEATS': 3, 'CASTS': 5}


def run(run):
    E = ER.setup(run)
    entries = [e for e in ER.api_entries(E.ir) if e not in ER.ENTRY_LOAD]
    run.analysed['entry_points'] = len(entries)
    reach, cuts, lazyfn, sw = ER.deepconst(run, E, 'DEEPCONST', entries, lazy_enabled=True)
    ER.noglobal(run, E, 'NOGLOBAL', reach)
    ER.lazyfill(run, E.fx, 'LAZYFILL')
    ER.advinit(run, E.fx, 'LAZYFILL')
    from . import c03, c09
    c03.charinfo_ctor(run, E.fx, 'LAZYFILL')        # nothing a fresh segment reports is left as malloc returned it (shared with C03)
    from . import c01 as c01_
    c01_.outparams(run, E.fx, 'LAZYFILL')           # a lazily loaded glyph is a function of the tables alone: no out-parameter of a refused sfnt helper (stack garbage) goes into it (shared with C01)
    from . import c02 as c02_
    if not run.cfg_tag:
        c02_.attrstride(run, 'PARTITION')               # a segment made while a log is open has the same user attributes as one made before or after (shared with C02)
    c09.noglobal_ast(run, E.fx)                     # no mutable static storage, in either VM driver (shared with C09)
    try:
        c09.telescope(run, reach)                         # the telemetry build's allocation category is back to null after every load (shared with C09)
    except Exception as ex:
        run.broken('NOGLOBAL', 'telemetry scope guard', str(ex), '')
    from .util import share as _share
    if not getattr(run, '_sharing', False) and not run.cfg_tag:
        run._sharing = True
        try:
            _share(run, 'c16', ['NOESCAPE'], 'LAZYFILL')        # what a face caches does not point into a table it has handed back: released memory reads as whatever was allocated since (shared with C16)
            _share(run, 'c13', ['PLANEROUTE'], 'LAZYFILL')      # a cached cmap block holds no cell that is as malloc returned it (shared with C13)
            _share(run, 'c10', ['LOADERSIB'], 'LAZYFILL')       # a glyph loaded on demand is the glyph the preloading loader would have stored (shared with C10)
        finally:
            run._sharing = False
    c08rules.partition(run, E.fx, 'PARTITION')
    c08rules.copyfeats(run, E, 'COPYFEATS')
    c08rules.casts(run, E.fx, 'CASTS', reach, E)
    run.assume('the application keeps the table bytes it lent to the face unchanged while the face lives (API contract)')
    run.assume('entry-point pointer parameters of scalar type are caller-owned out-parameters (API contract)')
