"""C20 -- tag/string conversions honour their documented buffer contracts.

TAGWRITE  every store through gr_tag_to_str's buffer parameter is at a constant offset,
          the offset set on the non-null path is exactly {0,1,2,3}, and byte k is
          (tag >> (24-8k)) truncated.
TAGREAD   in gr_str_to_tag every read str[j] happens only where strlen(str) >= j follows
          from the controlling switch on min(strlen(str),4) (lattice over the case edges
          with fall-through), each byte is zero-extended before it is shifted, byte j
          lands at bits 24-8j, and a selector value k accumulates exactly bytes 0..k-1.
TAGNORM   shared with C18 (rules/tagnorm.py).
"""
from .cfg import int_type
import re
from . import dom
from .facts import AnalysisBroken
from . import tagnorm

LEVEL = 'other'
EXPLANATION = ('Static byte-level analysis of gr_tag_to_str / gr_str_to_tag on the CFG of the current tree: '
               'constant-offset tracking of the output pointer (every store classified), a four-point '
               'lower-bound lattice on strlen over the switch case edges for every read, the cast chain of '
               'every byte (zero- vs sign-extension) and its shift amount; plus the tag-normalisation '
               'taint rule on every tag-taking API entry.  Decides the contract for all strings and all '
               'tags because both functions are loop-free and every path is enumerated.')
FLOORS = {'TAGWRITE': 1, 'TAGREAD': 1, 'TAGNORM': 3}     # TAGREAD: the bounded execution is always there; the byte-level instances depend on the form


def _acyclic_paths(fn, start, limit=4096):
    out = []

    def rec(b, path):
        if len(out) > limit:
            raise AnalysisBroken('%s: too many paths' % fn.q)
        if b in path:
            raise AnalysisBroken('%s: loop in a function the rule expects to be loop-free' % fn.q)
        path = path + [b]
        ss = fn.succs(b)
        if not ss or b == fn.exit:
            out.append(path)
            return
        for s in ss:
            rec(s, path)
    rec(start, [])
    return out


# ------------------------------------------------------------------------------------- TAGWRITE
STRING_FUNCTIONS = {'strncpy', 'strcpy', 'stpcpy', 'stpncpy', 'strcat', 'strncat', 'strlcpy', 'sprintf', 'snprintf'}


def tagwrite(run, fx):
    fn = fx.one('gr_tag_to_str')
    params = fn.f['params']
    if len(params) != 2:
        raise AnalysisBroken('gr_tag_to_str: expected (tag, str)')
    tagv, strv = params[0]['vid'], params[1]['vid']

    # find the block after the null test: analyse all paths from entry; paths on which a null
    # test of str was taken in the "is null" direction must not store at all.
    paths = _acyclic_paths(fn, fn.entry)
    nonnull_paths = 0
    for path in paths:
        off = 0            # offset of the parameter variable relative to its entry value
        val = {}           # element id -> abstract value
        stores = {}        # offset -> rhs node
        null_path = False
        string_fn = None
        for bi, b in enumerate(path):
            for e in fn.blocks[b]['el']:
                k = e['k']
                i = e['i']
                if k == 'DeclRefExpr' and e.get('vid') == strv:
                    val[i] = ('var',)
                elif k == 'ImplicitCastExpr' and e.get('ck') == 'LValueToRValue' and isinstance(e['c'][0], int) \
                        and val.get(e['c'][0]) == ('var',):
                    val[i] = ('ptr', off)
                elif k in ('ImplicitCastExpr', 'ParenExpr') and isinstance(e['c'][0], int) and e['c'][0] in val:
                    val[i] = val[e['c'][0]]
                elif k == 'UnaryOperator' and e['op'] in ('post++', 'pre++', 'post--', 'pre--') \
                        and isinstance(e['c'][0], int) and val.get(e['c'][0]) == ('var',):
                    d = 1 if '++' in e['op'] else -1
                    if off is None:
                        raise AnalysisBroken('gr_tag_to_str: pointer offset unknown at %s' % fn.loc(e))
                    val[i] = ('ptr', off if e['op'].startswith('post') else off + d)
                    off += d
                elif k == 'BinaryOperator' and e['op'] in ('+', '-') and isinstance(e['c'][0], int) \
                        and val.get(e['c'][0], ('x',))[0] == 'ptr':
                    rhs = fn.N(e['c'][1])
                    if rhs.get('v') is None:
                        raise AnalysisBroken('gr_tag_to_str: non-constant pointer arithmetic at %s' % fn.loc(e))
                    val[i] = ('ptr', val[e['c'][0]][1] + (rhs['v'] if e['op'] == '+' else -rhs['v']))
                elif k == 'CompoundAssignOperator' and isinstance(e['c'][0], int) and val.get(e['c'][0]) == ('var',):
                    rhs = fn.N(e['c'][1])
                    if e['op'] not in ('+=', '-=') or rhs.get('v') is None:
                        raise AnalysisBroken('gr_tag_to_str: unknown update of the buffer pointer at %s' % fn.loc(e))
                    off += rhs['v'] if e['op'] == '+=' else -rhs['v']
                    val[i] = ('var',)
                elif k == 'BinaryOperator' and e['op'] == '=' and isinstance(e['c'][0], int) and val.get(e['c'][0]) == ('var',):
                    raise AnalysisBroken('gr_tag_to_str: buffer pointer reassigned at %s' % fn.loc(e))
                elif k == 'UnaryOperator' and e['op'] == '*' and isinstance(e['c'][0], int) \
                        and val.get(e['c'][0], ('x',))[0] == 'ptr':
                    val[i] = ('cell', val[e['c'][0]][1])
                elif k == 'ArraySubscriptExpr' and isinstance(e['c'][0], int) and val.get(e['c'][0], ('x',))[0] == 'ptr':
                    idx = fn.N(e['c'][1])
                    if idx.get('v') is None:
                        raise AnalysisBroken('gr_tag_to_str: non-constant subscript at %s' % fn.loc(e))
                    val[i] = ('cell', val[e['c'][0]][1] + idx['v'])
                elif k in ('BinaryOperator', 'CompoundAssignOperator') and e['op'].endswith('=') and e['op'] not in ('==', '!=', '<=', '>=') \
                        and isinstance(e['c'][0], int) and val.get(e['c'][0], ('x',))[0] == 'cell':
                    o = val[e['c'][0]][1]
                    if e['op'] != '=':
                        raise AnalysisBroken('gr_tag_to_str: compound store into the buffer at %s' % fn.loc(e))
                    stores.setdefault(o, []).append((e, e['c'][1]))
                elif k in ('CallExpr', 'CXXMemberCallExpr'):
                    for a in e.get('args', []):
                        if isinstance(a, int) and val.get(a, ('x',))[0] in ('ptr', 'var'):
                            if (e.get('fq') or '').split('::')[-1] in STRING_FUNCTIONS:
                                # decidable without knowing more: a C string function stops at (or pads from) the first zero byte,
                                # and a tag may contain zero bytes anywhere
                                string_fn = (e, e.get('fq'))
                                continue
                            raise AnalysisBroken('gr_tag_to_str: buffer pointer escapes into %s at %s'
                                                 % (e.get('fq'), fn.loc(e)))
            # branch direction: is this a null test on str?
            if bi + 1 < len(path):
                cond = fn.term_cond(b)
                if cond is not None:
                    sense = _null_test_sense(fn, cond, strv)
                    if sense is not None:
                        ss = fn.blocks[b]['succ']
                        taken_true = (ss[0] == path[bi + 1])
                        # sense True: condition true means "str is null"
                        if taken_true == sense:
                            null_path = True
        if null_path:
            if stores:
                run.violated('TAGWRITE', 'null-path', fn.where(), 'store through a null buffer pointer',
                             {'path': path})
            else:
                run.held('TAGWRITE', 'null-path', fn.where(), 'no store on the path where str is null', False)
            continue
        nonnull_paths += 1
        if string_fn is not None:
            e_, q_ = string_fn
            run.violated('TAGWRITE', 'bytes through %s' % q_, fn.loc(e_), 'gr_tag_to_str hands the caller\'s buffer to %s: a C string function stops copying at the first zero byte '
                         '(and strncpy zero-fills from there), but a tag is four arbitrary bytes -- a tag with a zero byte before a non-zero one '
                         '(e.g. 0x00000420) is written wrongly / incompletely' % q_)
            continue
        offs = sorted(stores)
        for o in offs:
            for (e, rhs) in stores[o]:
                inst = 'store@%d' % o
                if o < 0 or o > 3:
                    run.violated('TAGWRITE', inst, fn.loc(e),
                                 'gr_tag_to_str writes byte %d of the caller\'s buffer; the contract is exactly '
                                 'bytes 0..3 and "No nul is appended"' % o,
                                 {'store': fn.render(e), 'path_blocks': path})
                    continue
                sh = _tag_shift(fn, rhs, tagv)
                if isinstance(sh, tuple):
                    run.violated('TAGWRITE', inst, fn.loc(e), 'the byte stored at offset %d is masked with %#x: a tag byte with one of the cleared bits set is written wrongly '
                                 '(a tag is four arbitrary bytes; gr_str_to_tag(gr_tag_to_str(t)) is no longer t)' % (o, sh[1]))
                    continue
                if sh is None:
                    run.broken('TAGWRITE', inst, 'stored value has an unknown shape: %s' % fn.render(rhs), fn.loc(e))
                elif sh != 24 - 8 * o:
                    run.violated('TAGWRITE', inst, fn.loc(e),
                                 'byte %d receives tag>>%d, expected tag>>%d (big-endian tag order)' % (o, sh, 24 - 8 * o),
                                 {'store': fn.render(e)})
                else:
                    run.held('TAGWRITE', inst, fn.loc(e), 'buf[%d] = byte(tag >> %d)' % (o, sh))
        missing = [o for o in range(4) if o not in stores]
        if missing:
            run.violated('TAGWRITE', 'coverage', fn.where(), 'bytes %s of the tag are never written' % missing,
                         {'path': path})
        else:
            run.held('TAGWRITE', 'coverage', fn.where(), 'offsets written on the non-null path: %s' % offs)
    if nonnull_paths == 0:
        raise AnalysisBroken('gr_tag_to_str: no non-null path found')


def _null_test_sense(fn, cond, vid):
    """cond tests parameter vid for null: returns True if cond true <=> null, False if
    cond true <=> non-null, None if it is not such a test."""
    n = fn.strip(cond)
    neg = False
    while n['k'] == 'UnaryOperator' and n['op'] == '!':
        neg = not neg
        n = fn.strip(n['c'][0])
    if n['k'] == 'ImplicitCastExpr' and n.get('ck') == 'PointerToBoolean':
        x = fn.strip(n['c'][0])
        if x['k'] == 'DeclRefExpr' and x.get('vid') == vid:
            return neg
    if n['k'] == 'BinaryOperator' and n['op'] in ('==', '!='):
        a, b = fn.strip_all_casts(n['c'][0]), fn.strip_all_casts(n['c'][1])
        for x, y in ((a, b), (b, a)):
            if x['k'] == 'DeclRefExpr' and x.get('vid') == vid and (y.get('v') == 0 or y['k'] in ('CXXNullPtrLiteralExpr', 'GNUNullExpr')):
                s = (n['op'] == '==')
                return s != neg
    return None


def _tag_shift(fn, rhs, tagv):
    """rhs == trunc8(tag >> S [& 0xff]) -> S, else None."""
    n = fn.N(rhs)
    # peel integral casts (truncation to char is the point of the store)
    while True:
        n = fn.strip(n)
        if n['k'].endswith('CastExpr') and n.get('ck') in ('IntegralCast', 'NoOp'):
            n = fn.N(n['c'][0])
            continue
        break
    if n['k'] == 'BinaryOperator' and n['op'] == '&':
        m = fn.strip_all_casts(n['c'][1])
        if m.get('v') is None:
            return None
        if (m['v'] & 0xff) != 0xff:
            return ('mask', m['v'])          # a constant mask that clears bits of the byte being stored
        n = fn.strip_all_casts(n['c'][0])
    if n['k'] == 'DeclRefExpr' and n.get('vid') == tagv:
        return 0
    if n['k'] == 'BinaryOperator' and n['op'] == '>>':
        a = fn.strip_all_casts(n['c'][0])
        b = fn.strip_all_casts(n['c'][1])
        if a['k'] == 'DeclRefExpr' and a.get('vid') == tagv and b.get('v') is not None:
            if int_type(a.get('t')) != (32, False):
                return None
            return b['v']
    return None


# --------------------------------------------------------------------------------------- TAGREAD
def tagread(run, fx):
    fn = fx.one('gr_str_to_tag')
    strv = fn.f['params'][0]['vid']
    # the string handed to a reader of fixed width (be::peek<T> / be::read<T> / memcpy of a constant length): decidable at once
    fixed = 0
    for _, e in fn.elements():
        if e['k'] not in ('CallExpr', 'CXXMemberCallExpr') or not e.get('args'):
            continue
        q = (e.get('fq') or '')
        base = q.split('<')[0].split('::')[-1]
        if base in ('strlen', 'strnlen'):
            continue                      # both stop at the terminator: they read nothing beyond it
        def _mentions(a):
            # str itself (not merely strlen(str)) appears in the argument
            st_ = [fn.N(a)]
            while st_:
                x = st_.pop()
                if x['k'] in ('CallExpr', 'CXXMemberCallExpr') and (x.get('fq') or '').split('::')[-1] in ('strlen', 'strnlen'):
                    continue
                if x['k'] == 'DeclRefExpr' and x.get('vid') == strv:
                    return True
                for key in ('c', 'args'):
                    for y in x.get(key) or []:
                        if y is not None:
                            st_.append(fn.N(y))
            return False
        uses = [a for a in e['args'] if a is not None and _mentions(a)]
        if not uses:
            continue
        width = None
        if base in ('peek', 'read') and '::be::' in '::' + q or q.startswith('be::'):
            width = {8: 1, 16: 2, 32: 4, 64: 8}.get((int_type(e.get('t')) or (None,))[0])
        elif base in ('memcpy', 'memmove') and len(e['args']) == 3:
            width = dom._cval(fn, e['args'][2])
        if width is None:
            raise AnalysisBroken('gr_str_to_tag: the string is handed to %s at %s (unknown reader)' % (q, fn.loc(e)))
        fixed += 1
        # lower bound on strlen(str) established on every path to the call
        lb = 0
        for f in dom.facts_at(fn, e['i']):
            m = re.match(r'^(?:(?:\w+::)*min\()?strlen\(str\)(?:, (\d+)\))?$', f[0].replace('(unsigned long)', '').replace('size_t', '').strip())
            if m and f[2].lstrip('-').isdigit():
                k_ = int(f[2])
                if f[1] in ('==', '>='):
                    lb = max(lb, k_)
                elif f[1] == '>':
                    lb = max(lb, k_ + 1)
        inst = 'read str[0..%d] through %s' % (width - 1, base)
        if lb >= width - 1:
            run.held('TAGREAD', inst, fn.loc(e), 'dominated by strlen(str) >= %d' % lb)
        else:
            run.violated('TAGREAD', inst, fn.loc(e), '%s reads %d bytes of the string where only strlen(str) >= %d is known: for a string shorter than %d characters '
                         'bytes beyond the terminating NUL are read (the header says at most the first 4 characters are read)' % (q, width, lb, width - 1))
    sw = [b for b in fn.blocks if (fn.blocks[b].get('term') or {}).get('k') == 'SwitchStmt']
    if fixed and not sw:
        return
    if len(sw) != 1:
        raise AnalysisBroken('gr_str_to_tag: expected exactly one switch, found %d (rule knows the switch form only)' % len(sw))
    sw = sw[0]
    cond = fn.strip_all_casts(fn.term_cond(sw))
    hops = 0
    while cond['k'] == 'DeclRefExpr' and cond.get('vid') in fn.const_init and hops < 4:     # `const size_t n = min(strlen(str), 4); switch (n)`
        cond = fn.strip_all_casts(fn.N(fn.const_init[cond['vid']]))
        hops += 1
    sel = _selector(fn, cond, strv)
    if sel is None:
        raise AnalysisBroken('gr_str_to_tag: switch selector has an unknown shape: %s' % fn.render(cond))
    kind, C = sel
    run.observe('gr_str_to_tag selector: %s' % fn.render(cond))

    # no read of str[] before the switch (other than inside strlen)
    for b in fn.blocks:
        if b == sw or sw in fn.reachable_from(b) and b != sw:
            for e in fn.blocks[b]['el']:
                if e['k'] == 'ArraySubscriptExpr' or (e['k'] == 'UnaryOperator' and e['op'] == '*'):
                    base = fn.strip_all_casts(e['c'][0])
                    if base.get('vid') == strv:
                        raise AnalysisBroken('gr_str_to_tag: read of str before the length switch at %s' % fn.loc(e))

    def lower_bound(k):
        """lower bound on strlen(str) when the selector equals k; None = edge infeasible."""
        if kind == 'strlen':
            return k
        if kind == 'min':
            if k < C:
                return k
            if k == C:
                return C
            return None
        if kind == 'max':
            if k < C:
                return None
            if k == C:
                return 0
            return k
        return 0

    def exact_len(k):
        """set description of the lengths that select case k: ('eq',n) | ('ge',n) | ('le',n)"""
        if kind == 'strlen':
            return ('eq', k)
        if kind == 'min':
            return ('eq', k) if k < C else (('ge', C) if k == C else None)
        if kind == 'max':
            return ('le', C) if k == C else (('eq', k) if k > C else None)

    succ = fn.blocks[sw]['succ']
    seen_cases = {}
    default_target = None
    for s in succ:
        if s is None:
            continue
        lab = fn.blocks[s].get('label') or {}
        if lab.get('k') == 'CaseStmt':
            seen_cases[lab['lo']] = s
        else:
            default_target = s
    # every selector value 1..4 must have a case (else bytes are dropped for that length)
    res_vid = None
    for k in sorted(set(list(seen_cases) + [0, 1, 2, 3, 4])):
        tgt = seen_cases.get(k, default_target)
        L = lower_bound(k)
        lens = exact_len(k)
        if L is None or lens is None:
            continue        # infeasible selector value
        paths = _acyclic_paths(fn, tgt)
        for path in paths:
            acc = {}
            for b in path:
                for e in fn.blocks[b]['el']:
                    if e['k'] == 'ArraySubscriptExpr':
                        base = fn.strip_all_casts(e['c'][0])
                        if base.get('vid') != strv:
                            continue
                        idx = fn.N(e['c'][1])
                        j = idx.get('v')
                        if j is None:
                            raise AnalysisBroken('gr_str_to_tag: non-constant index at %s' % fn.loc(e))
                        inst = 'read str[%d] | selector=%d' % (j, k)
                        if j < 0 or j > L:
                            run.violated('TAGREAD', inst, fn.loc(e),
                                         'str[%d] is read where only strlen(str) >= %d is known (selector %s == %d): '
                                         'reads beyond the terminating NUL' % (j, L, fn.render(cond), k),
                                         {'selector': fn.render(cond), 'case': k, 'lower_bound': L})
                        else:
                            run.held('TAGREAD', inst, fn.loc(e), 'str[%d] read under strlen >= %d' % (j, L))
                    elif e['k'] == 'UnaryOperator' and e['op'] == '*':
                        base = fn.strip_all_casts(e['c'][0])
                        if base.get('vid') == strv:
                            raise AnalysisBroken('gr_str_to_tag: pointer-style read at %s (rule knows subscripts)' % fn.loc(e))
                    elif e['k'] == 'CompoundAssignOperator' and e['op'] == '|=':
                        tgtv = fn.strip(e['c'][0])
                        if tgtv['k'] != 'DeclRefExpr':
                            continue
                        res_vid = tgtv.get('vid')
                        d = _byte_term(fn, e['c'][1], strv)
                        if d is None:
                            run.broken('TAGREAD', 'term@%s' % e['ln'], 'accumulated term has an unknown shape: %s' % fn.render(e['c'][1]), fn.loc(e))
                            continue
                        j, shift, zext = d
                        inst = 'byte %d extension' % j
                        if not zext:
                            run.violated('TAGREAD', inst, fn.loc(e),
                                         'str[%d] (plain char) is widened without a zero-extending cast: bytes >= 0x80 '
                                         'sign-extend into the higher tag bytes' % j, {'term': fn.render(e['c'][1])})
                        else:
                            run.held('TAGREAD', inst, fn.loc(e), 'byte %d zero-extended' % j)
                        inst = 'byte %d position' % j
                        if shift != 24 - 8 * j:
                            run.violated('TAGREAD', inst, fn.loc(e), 'str[%d] lands at bit %d, expected %d' % (j, shift, 24 - 8 * j),
                                         {'term': fn.render(e['c'][1])})
                        else:
                            run.held('TAGREAD', inst, fn.loc(e), 'byte %d << %d' % (j, shift))
                        acc[j] = shift
            # which bytes must have been accumulated for the lengths that select k?
            if lens[0] == 'eq':
                want = set(range(min(lens[1], 4)))
                amb = False
            elif lens[0] == 'ge':
                want = set(range(min(lens[1], 4)))
                amb = lens[1] < 4
            else:   # ('le', n): lengths 0..n all come here: no single right answer unless n == 0
                want = None
                amb = True
            inst = 'accumulate | selector=%d' % k
            where = '%s:%s' % (fn.file, (fn.blocks[tgt].get('label') or {}).get('ln', fn.f['l0']))
            if amb:
                run.violated('TAGREAD', inst, where,
                             'selector %s == %d is taken by strings of several lengths (%s %d); the first '
                             'min(4,len) characters cannot be selected' % (fn.render(cond), k, lens[0], lens[1]),
                             {'accumulated_bytes': sorted(acc)})
            elif set(acc) != want:
                run.violated('TAGREAD', inst, where,
                             'strings with length %s %d accumulate bytes %s, expected %s'
                             % (lens[0], lens[1], sorted(acc), sorted(want)), None)
            else:
                run.held('TAGREAD', inst, where, 'length %s %d -> bytes %s' % (lens[0], lens[1], sorted(acc)))
    # what is returned is the accumulated tag itself: every return hands back the variable the bytes were or-ed into (or the
    # constant 0 before anything was read), not a value some function made of it (zeropad(res) turns 'abc ' into 'abc\\0')
    rets = [e for _, e in fn.elements() if e['k'] == 'ReturnStmt' and e.get('c')]
    for rn_, r in enumerate(rets):
        x = fn.strip_all_casts(fn.deref(r['c'][0]))
        ok = (x['k'] == 'DeclRefExpr' and res_vid is not None and x.get('vid') == res_vid) or x.get('v') == 0
        if ok:
            run.held('TAGREAD', 'result is the accumulated tag (return #%d)' % rn_, fn.loc(r), 'returns %s' % fn.render(x), False)
        elif any(y['k'] in ('CallExpr', 'CXXMemberCallExpr') for y in fn.walk(r['c'][0])) or x['k'] in ('BinaryOperator', 'ConditionalOperator', 'UnaryOperator'):
            run.violated('TAGREAD', 'result is the accumulated tag (return #%d)' % rn_, fn.loc(r), 'gr_str_to_tag returns %s, not the tag it assembled from the string bytes: the result is no '
                         'longer "the first min(4, length) characters, zero padded" for every string (a space in the fourth position, for example)' % fn.render(fn.N(r['c'][0])))
        else:
            run.broken('TAGREAD', 'result is the accumulated tag (return #%d)' % rn_, 'returned expression %s not classified' % fn.render(fn.N(r['c'][0])), fn.loc(r))
    if not rets:
        run.broken('TAGREAD', 'result is the accumulated tag', 'no return statement found', fn.where())
    # lengths > 4 with a min selector never exceed C: fine.  With 'strlen' selector lengths > 4 go to default.
    if kind == 'strlen':
        run.violated('TAGREAD', 'accumulate | selector>4', fn.where(),
                     'switch on strlen(str) itself: strings longer than 4 fall to default and lose their first four characters')
    if kind in ('min', 'max') and C != 4:
        run.violated('TAGREAD', 'selector-constant', fn.where(), 'selector clamps at %d, expected 4' % C)


def _selector(fn, cond, strv):
    def is_strlen(n):
        n = fn.strip_all_casts(n)
        if n['k'] == 'CallExpr' and n.get('fq') in ('strlen', 'std::strlen'):
            a = fn.strip_all_casts(n['args'][0])
            return a.get('vid') == strv
        return False
    if is_strlen(cond):
        return ('strlen', None)
    if cond['k'] == 'CallExpr' and cond.get('fq') in ('strnlen', 'std::strnlen') and len(cond.get('args') or []) == 2:
        # strnlen(str, N) is min(strlen(str), N) and, like strlen, reads nothing beyond the terminator
        a = fn.strip_all_casts(cond['args'][0])
        v = fn.strip_all_casts(cond['args'][1]).get('v')
        if v is None:
            for w in fn.walk(cond['args'][1]):
                if w.get('v') is not None:
                    v = w['v']
                    break
        if a.get('vid') == strv and v is not None:
            return ('min', v)
    if cond['k'] == 'CallExpr' and cond.get('fq') in ('graphite2::min', 'graphite2::max', 'std::min', 'std::max'):
        a, b = cond['args']
        kind = cond['fq'].split('::')[-1]
        for x, y in ((a, b), (b, a)):
            yv = fn.strip_all_casts(y)
            # the constant may be a materialised temporary
            v = yv.get('v')
            if v is None:
                for w in fn.walk(y):
                    if w.get('v') is not None:
                        v = w['v']
                        break
            if is_strlen(x) and v is not None:
                return (kind, v)
    return None


def _byte_term(fn, rhs, strv):
    """rhs == widen(str[j]) [<< S]  ->  (j, S, zero_extended)"""
    n = fn.strip(rhs)
    # outer integral casts to the accumulator type
    while n['k'].endswith('CastExpr') and n.get('ck') in ('IntegralCast', 'NoOp'):
        inner = fn.strip(n['c'][0])
        if inner['k'] in ('BinaryOperator',):
            n = inner
            continue
        break
    shift = 0
    if n['k'] == 'BinaryOperator' and n['op'] == '<<':
        s = fn.strip_all_casts(n['c'][1])
        if s.get('v') is None:
            return None
        shift = s['v']
        n = fn.N(n['c'][0])
    # n is now the cast chain over str[j]; walk inwards collecting the types
    chain = []
    while True:
        n = fn.N(n)
        if n['k'] in ('ParenExpr',):
            n = n['c'][0]
            continue
        if n['k'].endswith('CastExpr'):
            chain.append((n.get('ck'), n.get('t')))
            n = n['c'][0]
            continue
        break
    if n['k'] != 'ArraySubscriptExpr':
        return None
    base = fn.strip_all_casts(n['c'][0])
    if base.get('vid') != strv:
        return None
    j = fn.N(n['c'][1]).get('v')
    if j is None:
        return None
    # innermost first
    chain.reverse()
    cur = int_type(n.get('t'))          # (8, signed?) for char
    if cur is None:
        return None
    zext = None
    for ck, t in chain:
        if ck in ('LValueToRValue', 'NoOp') and int_type(t) == cur:
            continue
        it = int_type(t)
        if it is None:
            return None
        if it[0] > cur[0] and zext is None:
            zext = not cur[1]           # widening from the current 8-bit type: signed source => sext
        cur = it
    if zext is None:
        zext = not cur[1]
    return (j, shift, zext)


def _has_loop(fn):
    dom_ = fn.dominators()
    for b in fn.blocks:
        for s in fn.succs(b):
            if s in dom_[b]:
                return True
    return False


def tagwrite_loop(run, fx):
    from .tagabs import TagAbs
    fn = fx.one('gr_tag_to_str')
    paths = TagAbs(fn, 'write').run()
    n = 0
    for st in paths:
        if 'null' in st.notes and not st.stores:
            continue
        n += 1
        offs = sorted(st.stores)
        tagp = 'path%d%s' % (n, ' (remaining tag bytes zero)' if 'tag-remaining-zero' in st.notes else '')
        for o in offs:
            for v, loc in st.stores[o]:
                inst = 'store@%d %s' % (o, tagp)
                want = ('lane', ('b', 3 - o)) if 0 <= o <= 3 else None
                if want is None:
                    run.violated('TAGWRITE', inst, loc, 'gr_tag_to_str writes byte %d of the caller\'s buffer; the contract is exactly bytes 0..3' % o)
                elif v != want and v != ('vec', (0, 0, 0, ('b', 3 - o))):
                    run.violated('TAGWRITE', inst, loc, 'byte %d receives %s instead of tag byte %d (big-endian order)' % (o, v, 3 - o))
                else:
                    run.held('TAGWRITE', inst, loc, 'buf[%d] = tag byte %d' % (o, 3 - o))
        missing = [o for o in range(4) if o not in st.stores]
        if missing:
            run.violated('TAGWRITE', 'coverage ' + tagp, fn.where(), 'on the path where %s bytes %s of the buffer are never written: the contract is that exactly the four tag '
                         'bytes are stored, whatever their value (a zero-padded tag leaves stale bytes in the caller\'s buffer)'
                         % ('the remaining tag bytes are zero' if 'tag-remaining-zero' in st.notes else 'this path is taken', missing))
        else:
            run.held('TAGWRITE', 'coverage ' + tagp, fn.where(), 'offsets written: %s' % offs)
    if n == 0:
        raise AnalysisBroken('gr_tag_to_str: no non-null abstract path')


def tagread_loop(run, fx):
    from .tagabs import TagAbs
    fn = fx.one('gr_str_to_tag')
    paths = TagAbs(fn, 'read').run()
    for n, st in enumerate(paths):
        k = st.end if st.end is not None else 4
        tagp = 'strlen %s%d' % ('== ' if st.end is not None else '>= ', k)
        for off, ok, loc in st.reads:
            inst = 'read str[%d] | %s' % (off, tagp)
            if ok:
                run.held('TAGREAD', inst, loc, 'offsets below %d proved non-NUL' % off)
            else:
                run.violated('TAGREAD', inst, loc, 'str[%d] is read although not all of str[0..%d] are known to be non-NUL: reads beyond the terminator' % (off, off - 1))
        ret = getattr(st, 'ret', None)
        acc, flags = ({}, {})
        if ret and ret[0] == 'acc':
            acc, flags = ret[1], ret[2]
        elif ret and ret[0] == 'int' and ret[1] == 0:
            acc = {}
        elif ret is None or ret[0] not in ('acc', 'int'):
            run.broken('TAGREAD', 'result | %s' % tagp, 'returned value %s not classified' % (ret,), fn.where())
            continue
        want = {j: 24 - 8 * j for j in range(min(k, 4))}
        inst = 'accumulate | %s' % tagp
        if acc != want:
            run.violated('TAGREAD', inst, fn.where(), 'for %s the result is assembled from %s, expected %s (byte j at bit 24-8j, first min(4,len) characters)' % (tagp, acc, want))
        else:
            run.held('TAGREAD', inst, fn.where(), 'bytes %s' % sorted(acc))
        sx = sorted(j for j, z in flags.items() if not z)
        inst = 'extension | %s' % tagp
        if sx:
            run.violated('TAGREAD', inst, fn.where(), 'bytes %s are widened from plain char without a zero-extending cast: values >= 0x80 sign-extend into the higher tag bytes' % sx)
        elif acc:
            run.held('TAGREAD', inst, fn.where(), 'all bytes zero-extended')


def tagread_exec(run, fx):
    """TAGREAD by bounded execution (rules/ordint.py), whatever the form of the function (switch, loop, ladder of early returns):
    gr_str_to_tag is interpreted on strings of every length 0..6 held in EXACT-SIZE buffers (length + 1 cells: a read of any cell
    behind the terminator is a read outside the vector and stops the run), over byte patterns that make every position distinguishable
    and include values >= 0x80 (plain char is signed here, so they arrive as negative numbers).  The result is the big-endian tag of
    the first min(4, length) characters, zero-padded."""
    from . import ordint as O
    fn = fx.one('gr_str_to_tag')
    pats = ([0x41, 0x42, 0x43, 0x44, 0x45, 0x46], [0x80, 0xFF, 0x81, 0xFE, 0x90, 0xA0], [0x7F, 0x80, 0x01, 0xFF, 0x20, 0x61], [0xFF, 0x01, 0xFF, 0x01, 0xFF, 0x01])

    def strlen(I, f, e, obj, a):
        p_ = I.rv(a[0])
        n_ = 0
        while True:
            c_ = I.deref_it(O.It(p_.vec, p_.idx + n_, p_.gen), f, e).load()
            if c_ == 0:
                return n_
            n_ += 1
    nat = {'strlen': strlen, 'strnlen': lambda I, f, e, obj, a: min(strlen(I, f, e, obj, a[:1]), I.rv(a[1]))}
    cases = 0
    inst = 'every string of length 0..6 in an exact-size buffer (interpreted)'
    try:
        for L in range(0, 7):
            for pat in pats:
                bs = pat[:L]
                buf = O.Vec([b - 256 if b >= 128 else b for b in bs] + [0])
                it = O.Interp(fx, natives=nat)
                it.MAX_STEPS = 5000
                cases += 1
                desc = 'the %d-character string %s' % (L, ' '.join('%02X' % b for b in bs) or '""')
                try:
                    r = it.call(fn, None, [O.It(buf, 0)])
                except O.Violation as v:
                    run.violated('TAGREAD', inst, fn.where(), '%s in a buffer of %d bytes: %s (%s)%s' % (desc, L + 1, v.what, v.loc, '' if 'never written' in v.what else ' -- a byte behind the terminating NUL is read'))
                    return
                if not isinstance(r, int):
                    raise AnalysisBroken('gr_str_to_tag returns a %s' % type(r).__name__)
                r &= 0xFFFFFFFF
                want = 0
                for j, b in enumerate(bs[:4]):
                    want |= b << (24 - 8 * j)
                if r != want:
                    run.violated('TAGREAD', inst, fn.where(), '%s gives the tag %08X, expected %08X (the first min(4, length) characters, most significant first, zero-padded)' % (desc, r, want))
                    return
    except AnalysisBroken as ex:
        run.broken('TAGREAD', inst, str(ex), fn.where())
        return
    run.held('TAGREAD', inst, fn.where(), '%d strings' % cases)


def tagwrite_exec(run, fx):
    """TAGWRITE by bounded execution (rules/ordint.py), whatever the form of the function: gr_tag_to_str is interpreted on every tag
    whose four bytes are drawn from {00, 20, 41, 80, FF} (625 tags) with an exact-size buffer of four cells: it writes exactly the four
    tag bytes, most significant first, unchanged -- a zero byte stays a zero byte -- and no cell outside the buffer."""
    import itertools
    from . import ordint as O
    fn = fx.one('gr_tag_to_str')
    inst = 'every tag over {00,20,41,80,FF}^4 into an exact-size buffer (interpreted)'
    cases = 0
    try:
        for bs in itertools.product((0x00, 0x20, 0x41, 0x80, 0xFF), repeat=4):
            tag = (bs[0] << 24) | (bs[1] << 16) | (bs[2] << 8) | bs[3]
            buf = O.Vec(['?'] * 4)
            it = O.Interp(fx)
            it.MAX_STEPS = 3000
            cases += 1
            try:
                it.call(fn, None, [tag, O.It(buf, 0)])
            except O.Violation as v:
                run.violated('TAGWRITE', inst, fn.where(), 'tag %08X into a buffer of 4 bytes: %s (%s) -- a byte outside the caller\'s four is written' % (tag, v.what, v.loc))
                return
            got = [(x & 0xFF) if isinstance(x, int) else x for x in buf.items]
            if got != list(bs):
                run.violated('TAGWRITE', inst, fn.where(), 'tag %08X: the buffer holds %s afterwards, expected exactly the tag bytes %s' % (tag, ['%02X' % x if isinstance(x, int) else x for x in got], ['%02X' % b for b in bs]))
                return
    except AnalysisBroken as ex:
        run.broken('TAGWRITE', inst, str(ex), fn.where())
        return
    run.held('TAGWRITE', inst, fn.where(), '%d tags' % cases)


def apiattr(run):
    """the public declarations are part of the contract: a function that reads memory through a pointer argument must not be declared
    `__attribute__((const))` (result depends on the argument VALUES only) -- an optimising client may then merge or hoist two calls
    that pass the same pointer although the buffer changed in between (gr_str_to_tag(buf) after rewriting buf).  Every function
    declaration of include/graphite2/*.h is parsed (clang) and its attributes inspected."""
    import glob, json, os, subprocess
    from . import facts as F
    hdrs = sorted(glob.glob(os.path.join(F.REPO, 'include', 'graphite2', '*.h')))
    n, bad = 0, []
    for h in hdrs:
        p = subprocess.run(['clang', '-x', 'c++', '-std=gnu++11', '-fsyntax-only', '-Xclang', '-ast-dump=json', '-I' + os.path.join(F.REPO, 'include'), h], capture_output=True, text=True)
        if p.returncode != 0 or not p.stdout:
            raise AnalysisBroken('public header %s does not parse: %s' % (h, p.stderr[-200:]))
        doc = json.loads(p.stdout)
        st = [doc]
        while st:
            x = st.pop()
            if x.get('kind') == 'FunctionDecl' and (x.get('name') or '').startswith('gr_'):
                n += 1
                attrs = [a.get('kind') for a in x.get('inner', []) if a.get('kind', '').endswith('Attr')]
                ptr = [a for a in x.get('inner', []) if a.get('kind') == 'ParmVarDecl' and '*' in (a.get('type', {}).get('qualType') or '')]
                if 'ConstAttr' in attrs and ptr:
                    bad.append((x['name'], os.path.basename(h), x.get('loc', {}).get('line')))
            st.extend(c for c in x.get('inner', []) if isinstance(c, dict))
    inst = 'no pointer-taking API function is declared __attribute__((const))'
    if n < 60:
        run.broken('TAGREAD', inst, 'only %d gr_* declarations found in %d public headers' % (n, len(hdrs)))
    elif bad:
        run.violated('TAGREAD', inst, 'include/graphite2/%s:%s' % (bad[0][1], bad[0][2]), '%s is declared __attribute__((const)) although it reads the memory its pointer argument points to: '
                     'a client compiled with optimisation may reuse the result of an earlier call after the buffer has changed (the library binary is unchanged; the contract '
                     'the header states is what breaks)' % bad[0][0])
    else:
        run.held('TAGREAD', inst, 'include/graphite2', '%d gr_* declarations in %d headers' % (n, len(hdrs)))


def run(run):
    apiattr(run)
    fx = run.facts('Q0')
    try:
        if _has_loop(fx.one('gr_tag_to_str')):
            tagwrite_loop(run, fx)
        else:
            tagwrite(run, fx)
    except AnalysisBroken as ex:
        run.observe('TAGWRITE: the structural rule does not apply to this form of gr_tag_to_str (%s); decided by bounded execution' % ex)
    tagwrite_exec(run, fx)
    try:
        if _has_loop(fx.one('gr_str_to_tag')):
            tagread_loop(run, fx)
        else:
            tagread(run, fx)
    except AnalysisBroken as ex:
        # the byte-level rules know the switch form and the loop form; any other form is decided by the execution below alone
        run.observe('TAGREAD: the structural rule does not apply to this form of gr_str_to_tag (%s); decided by bounded execution' % ex)
    tagread_exec(run, fx)
    tagnorm.check(run, fx, 'TAGNORM')
    if not run.cfg_tag:
        # the same with tracing compiled in (what cmake builds unless GRAPHITE2_NTRACING is set), for the two units that take tags
        run.cfg_tag = 'traceapi'
        try:
            tagnorm.check(run, run.facts('traceapi'), 'TAGNORM')
        finally:
            run.cfg_tag = ''
