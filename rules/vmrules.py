"""Rules about the bytecode interpreter shared by C02 and C07:
SIG, TABLE, PARAMSZ, VMSTACK, STACKMODEL, DIVGUARD, NOSIGNEDOVF, DRIVERS."""
from .cfg import int_type
from .facts import AnalysisBroken
from .vm import VM
from . import opspec
from .vmsym import simp, show as vshow, has_opaque, K

IN_SCOPE = sorted(opspec.SPEC)


def get_vm(run, cfg='Q0'):
    key = '_vm_' + cfg
    if not hasattr(run, key):
        setattr(run, key, VM(run.facts(cfg)))
    return getattr(run, key)


# ----------------------------------------------------------------------------------------- merging
def merge_cells(leaves, depth=0):
    """if-convert the cells of leaves that share an exit kind back into one value per cell,
    following the binary decision structure of the path conditions."""
    if len(leaves) == 1:
        return dict(leaves[0].cells), []
    # all leaves agree on pc up to depth-1; split on pc[depth]
    if any(len(l.pc) <= depth for l in leaves):
        # identical prefixes but several leaves: loops unrolled; cells must agree
        base = leaves[0].cells
        for l in leaves[1:]:
            if l.cells != base:
                raise AnalysisBroken('cannot merge handler paths (loop-carried stack effects)')
        return dict(base), []
    cond = leaves[0].pc[depth][0]
    T = [l for l in leaves if l.pc[depth][1]]
    Fs = [l for l in leaves if not l.pc[depth][1]]
    if any(l.pc[depth][0] != cond for l in leaves):
        raise AnalysisBroken('cannot merge handler paths (conditions differ at the same depth)')
    if not T or not Fs:
        cells, guards = merge_cells(T or Fs, depth + 1)
        return cells, [(cond, bool(T))] + guards
    ct, gt = merge_cells(T, depth + 1)
    cf, gf = merge_cells(Fs, depth + 1)
    out = {}
    for off in set(ct) | set(cf):
        vt = ct.get(off, ('S', off) if off <= 0 else ('G', off))
        vf = cf.get(off, ('S', off) if off <= 0 else ('G', off))
        out[off] = simp(('sel', cond, vt, vf))
    return out, gt + gf


# --------------------------------------------------------------------------------------------- SIG
def sig(run, vm):
    rows = vm.tables['call']
    for n in IN_SCOPE:
        name, dsp, cells, nparam, exit_kind, deepest, doc = opspec.SPEC[n]
        inst = 'opcode %#04x %s' % (n, name)
        if vm.opnum.get(name) != n:
            run.violated('SIG', inst, vm.enum['file'] + ':%s' % vm.enum['ln'],
                         'enum opcode: %s has value %s, the on-disk opcode number is %#x' % (name, vm.opnum.get(name), n))
            continue
        if n >= len(rows):
            run.violated('SIG', inst, 'src/inc/opcode_table.h', 'opcode_table has no row %#x' % n)
            continue
        row = rows[n]
        hs = set(h for h in row['impl'] if h)
        if len(hs) != 1 or row['impl'][0] is None or row['impl'][1] is None:
            run.violated('SIG', inst, 'src/inc/opcode_table.h',
                         'row %#x (%s) must bind one handler for both action and constraint code, found %s' % (n, row['name'], row['impl']))
            continue
        h = row['impl'][0]
        if h not in vm.handlers:
            run.broken('SIG', inst, 'handler %s bound at row %#x is not defined in inc/opcodes.h' % (h, n))
            continue
        fn = vm.handlers[h]
        leaves = vm.sym(h)
        main = [l for l in leaves if l.exit == exit_kind]
        other = [l for l in leaves if l.exit != exit_kind]
        where = fn.where()
        problems = []
        if not main:
            run.violated('SIG', inst, where, 'handler %s never leaves through %s' % (h, exit_kind))
            continue
        # other exits are allowed only for DIV's guarded DIE
        if other and name != 'DIV':
            problems.append('unexpected %s exit' % sorted(set(l.exit for l in other)))
        sps = set(l.spoff for l in main)
        if sps != {dsp}:
            problems.append('net stack effect %s, spec %+d' % (sorted(sps), dsp))
        dps = set(l.dpoff for l in leaves)
        if dps != {nparam}:
            problems.append('claims %s operand bytes, spec %d' % (sorted(dps), nparam))
        try:
            got, guards = merge_cells(main)
        except AnalysisBroken as e:
            run.broken('SIG', inst, str(e), where)
            continue
        if any(has_opaque(v) for v in got.values()) and any('spdist' in vshow(v) for v in got.values()):
            # no opcode of the specification looks at how full the stack is: the bounds are the business of ENDOP and check_final_stack
            run.violated('SIG', inst, where, 'handler %s: what it leaves on the stack depends on the distance of the stack pointer from the stack base (%s): the opcode specification '
                         'has no such dependence -- a value silently dropped near the limit also keeps the overflow stop of ENDOP / check_final_stack from ever firing'
                         % (h, {k: vshow(v)[:80] for k, v in got.items()}))
            continue
        if any(has_opaque(v) for v in got.values()):
            run.broken('SIG', inst, 'handler %s: result depends on a value the normaliser cannot express: %s'
                       % (h, {k: vshow(v) for k, v in got.items()}), where)
            continue
        gotc = {off: opspec.canon(v) for off, v in got.items()}
        want = opspec.spec_cells(n)
        # cells above the final stack pointer are dead, cells written with their own old value are no-ops
        final_sp = dsp
        gotc = {o: v for o, v in gotc.items() if o <= final_sp and v != ('S', o)}
        want = {o: v for o, v in want.items() if v != ('S', o)}
        if gotc != want:
            for off in sorted(set(gotc) | set(want)):
                if gotc.get(off) != want.get(off):
                    problems.append('cell sp%+d = %s, spec %s' % (off, opspec.show(gotc[off]) if off in gotc else 'unchanged',
                                                                 opspec.show(want[off]) if off in want else 'unchanged'))
        calls = [c for l in main for c in l.calls]
        if calls:
            problems.append('side effects outside the stack on the normal path: %s' % sorted(set(c[0] for c in calls))[:3])
        reads = [r[0] for l in leaves for r in l.reads]
        low = min(reads) if reads else None
        if deepest is None and low is not None and low <= 0 and name not in ('POP_RET',):
            problems.append('reads stack cell sp%+d, spec reads none' % low)
        if deepest is not None and low is not None and low < deepest:
            problems.append('reads stack cell sp%+d, spec reads down to sp%+d' % (low, deepest))
        if problems:
            run.violated('SIG', inst, where, 'handler %s bound at opcode %#x (%s) deviates from the opcode spec "%s": %s'
                         % (h, n, name, doc, '; '.join(problems)),
                         {'handler': h, 'got': {str(k): opspec.show(v) for k, v in gotc.items()},
                          'spec': {str(k): opspec.show(v) for k, v in want.items()}})
        else:
            run.held('SIG', inst, where, '%s: sp%+d %s' % (h, dsp, {k: opspec.show(v) for k, v in want.items()}))


# ------------------------------------------------------------------------------------------- TABLE
def table(run, vm):
    fx = vm.fx
    consts = vm.enum['consts']
    # dense from 0 (TEMP_COPY aliases MAX_OPCODE)
    vals = sorted(set(c['v'] for c in consts))
    if vals == list(range(len(vals))):
        run.held('TABLE', 'enum opcode dense', '%s:%s' % (vm.enum['file'], vm.enum['ln']), '0..%d' % vals[-1], False)
    else:
        run.violated('TABLE', 'enum opcode dense', '%s:%s' % (vm.enum['file'], vm.enum['ln']), 'enum opcode values are not dense from 0: %s' % vals)
    if vm.opnum.get('TEMP_COPY') == vm.max_opcode:
        run.held('TABLE', 'TEMP_COPY == MAX_OPCODE', '', '', False)
    else:
        run.violated('TABLE', 'TEMP_COPY == MAX_OPCODE', vm.enum['file'], 'TEMP_COPY=%s MAX_OPCODE=%s' % (vm.opnum.get('TEMP_COPY'), vm.max_opcode))
    for variant, rows in vm.tables.items():
        inst = 'rows(%s)' % variant
        if len(rows) == vm.max_opcode + 1:
            run.held('TABLE', inst, 'src/inc/opcode_table.h', '%d rows == MAX_OPCODE+1' % len(rows), False)
        else:
            run.violated('TABLE', inst, 'src/inc/opcode_table.h', 'opcode_table has %d rows, MAX_OPCODE+1 is %d: the decoder indexes it '
                         'with every opcode < MAX_OPCODE and with TEMP_COPY' % (len(rows), vm.max_opcode + 1))
    # both drivers bind the same handler names / param sizes / names at every row
    c, d = vm.tables['call'], vm.tables['direct']
    for n in range(min(len(c), len(d))):
        inst = 'row %#04x agreement' % n
        if c[n] == d[n]:
            run.held('TABLE', inst, 'src/inc/opcode_table.h', '%s %s' % (c[n]['name'], c[n]['impl']), False)
        else:
            run.violated('TABLE', inst, 'src/inc/opcode_table.h', 'call-threaded row %s != direct-threaded row %s' % (c[n], d[n]))
    # the row name is the enum name (three-way agreement number / name / handler)
    byval = {}
    for cst in consts:
        byval.setdefault(cst['v'], []).append(cst['n'])
    alias = {'PUSH_BYTEU': 'PUSH_BYTE_U', 'PUSH_SHORTU': 'PUSH_SHORT_U', 'MIN_': 'MIN', 'MAX_': 'MAX', 'BITSET': 'BITSET'}
    for n, r in enumerate(c):
        names = byval.get(n, [])
        ok = any(r['name'] == nm or r['name'] == alias.get(nm) for nm in names)
        inst = 'row %#04x name' % n
        if ok:
            run.held('TABLE', inst, 'src/inc/opcode_table.h', '%s' % r['name'], False)
        else:
            run.violated('TABLE', inst, 'src/inc/opcode_table.h', 'row %#x is named %s but enum opcode calls %#x %s: table order and '
                         'on-disk numbering disagree' % (n, r['name'], n, names))
    # is_return's three enumerators index rows whose handlers always EXIT
    isr = fx.one('(anonymous namespace)::is_return')
    used = set()
    for _, e in isr.elements():
        if e['k'] == 'DeclRefExpr' and e.get('dk') == 'EnumConstant':
            used.add(e['d'].split('::')[-1])
    if not used:
        run.broken('TABLE', 'is_return', 'no opcode enumerators found in is_return', isr.where())
    for nm in sorted(used):
        n = vm.opnum.get(nm)
        inst = 'is_return %s' % nm
        h = c[n]['impl'][0] if n is not None and n < len(c) else None
        if h is None or h not in vm.handlers:
            run.violated('TABLE', inst, isr.where(), 'is_return names %s whose row has no handler' % nm)
            continue
        leaves = vm.sym(h)
        if all(l.exit == 'EXIT' for l in leaves):
            run.held('TABLE', inst, vm.handlers[h].where(), 'handler %s ends the program on every path' % h)
        else:
            run.violated('TABLE', inst, vm.handlers[h].where(), 'is_return treats %s as a return but handler %s can fall through to the next instruction' % (nm, h))
    # every handler that always EXITs must be known to is_return (else "missing_return" check is blind)
    for n, r in enumerate(c):
        h = r['impl'][0] or r['impl'][1]
        if h and h in vm.handlers and all(l.exit == 'EXIT' for l in vm.sym(h)):
            nm = [x for x in byval.get(n, [])]
            if not (set(nm) & used):
                run.violated('TABLE', 'is_return covers %s' % h, isr.where(), 'handler %s always exits but is_return does not list opcode %s' % (h, nm))
    # decoder rejects opcodes with no handler for the current code kind
    vo = fx.one('graphite2::vm::Machine::Code::decoder::validate_opcode')
    eo = fx.one('graphite2::vm::Machine::Code::decoder::emit_opcode')
    ok_vo = _tests_impl_null(vo)
    if ok_vo:
        run.held('TABLE', 'validate_opcode rejects NILOP rows', vo.loc(ok_vo), vo.render(ok_vo))
    else:
        run.violated('TABLE', 'validate_opcode rejects NILOP rows', vo.where(),
                     'validate_opcode no longer fails when opcode_table[opc].impl[constraint] is null: an unimplemented opcode '
                     'would be emitted as a null instruction pointer')
    ok_max = None
    for b in vo.blocks:
        cnd = vo.term_cond(b)
        if cnd is None:
            continue
        for x in vo.walk(cnd):
            if x['k'] == 'BinaryOperator' and x['op'] in ('>=', '>'):
                r = vo.strip_all_casts(x['c'][1])
                if r.get('d', '').endswith('MAX_OPCODE') and x['op'] == '>=':
                    ok_max = x
    if ok_max:
        run.held('TABLE', 'validate_opcode range', vo.loc(ok_max), vo.render(ok_max))
    else:
        run.violated('TABLE', 'validate_opcode range', vo.where(), 'validate_opcode has no `opc >= MAX_OPCODE` rejection: the table would be indexed out of range')


def _tests_impl_null(fn):
    for b in fn.blocks:
        c = fn.term_cond(b)
        if c is None:
            continue
        for x in fn.walk(c):
            if x['k'] == 'ArraySubscriptExpr':
                base = fn.strip_all_casts(x['c'][0])
                if base['k'] == 'MemberExpr' and base['d'].endswith('opcode_t::impl'):
                    return c
    return None


# ----------------------------------------------------------------------------------------- PARAMSZ
PARAMSZ_EXCEPTIONS = {
    'CNTXT_ITEM': (3, 2, 'the handler claims 3 bytes: emit_opcode appends the computed data_skip byte after the 2 on-disk operand bytes'),
    'ASSOC': ('var', 255, 'VARARGS: count byte + count slot references, the handler claims 1 + num'),
}


def paramsz(run, vm):
    rows = vm.tables['call']
    for n, r in enumerate(rows):
        hs = [h for h in r['impl'] if h]
        if not hs:
            continue
        for h in sorted(set(hs)):
            inst = 'row %#04x %s' % (n, r['name'])
            if h not in vm.handlers:
                run.broken('PARAMSZ', inst, 'handler %s not found' % h)
                continue
            leaves = vm.sym(h)
            claimed = sorted(set(l.dpoff for l in leaves))
            var = sorted(set(d[0] for l in leaves for d in l.dpvar))
            where = vm.handlers[h].where()
            exc = PARAMSZ_EXCEPTIONS.get(r['name'])
            if exc:
                want_claim, want_tab, why = exc
                if r['param_sz'] != want_tab:
                    run.violated('PARAMSZ', inst, 'src/inc/opcode_table.h', 'param_sz %s, expected %s (%s)' % (r['param_sz'], want_tab, why))
                elif want_claim == 'var' and (not var or claimed != [1]):
                    run.violated('PARAMSZ', inst, where, 'variable-length operand handling changed: claims %s var %s (%s)' % (claimed, var, why))
                elif want_claim != 'var' and claimed != [want_claim]:
                    run.violated('PARAMSZ', inst, where, 'handler claims %s bytes, expected %s (%s)' % (claimed, want_claim, why))
                else:
                    run.held('PARAMSZ', inst, where, 'tabled exception: %s' % why)
                continue
            if var:
                run.violated('PARAMSZ', inst, where, 'handler %s advances the data pointer by a run-time amount %s but the table row is fixed size %s'
                             % (h, var, r['param_sz']))
            elif claimed != [r['param_sz']]:
                run.violated('PARAMSZ', inst, where, 'handler %s claims %s operand bytes, opcode_table[%#x].param_sz is %s: the data pointer '
                             'desynchronises from the instruction stream' % (h, claimed, n, r['param_sz']),
                             {'handler': h, 'claimed': claimed, 'param_sz': r['param_sz']})
            else:
                # every operand byte read lies inside the claimed window
                used = sorted(set(p for l in leaves for p in l.params))
                if used and (min(used) < 0 or max(used) >= r['param_sz']):
                    run.violated('PARAMSZ', inst, where, 'handler %s reads operand byte(s) %s outside its %d claimed bytes' % (h, used, r['param_sz']))
                else:
                    run.held('PARAMSZ', inst, where, '%s claims %d == param_sz, reads bytes %s' % (h, r['param_sz'], used))


# ----------------------------------------------------------------------------------------- VMSTACK
def vmstack(run, vm):
    fx = vm.fx
    guard = stack_max = None
    for v in fx.raw['vars']:
        if v['q'] == 'graphite2::vm::Machine::STACK_GUARD':
            guard = _const_of(v)
        if v['q'] == 'graphite2::vm::Machine::STACK_MAX':
            stack_max = _const_of(v)
    for e_ in fx.raw['enums'].values():            # the same constants declared as enumerators (their type is then int: the ENDOP test below notices)
        for c_ in e_.get('consts', []):
            if c_.get('q', '').endswith('vm::Machine::STACK_GUARD') and guard is None:
                guard = c_.get('v')
            if c_.get('q', '').endswith('vm::Machine::STACK_MAX') and stack_max is None:
                stack_max = c_.get('v')
    if guard is None or stack_max is None:
        raise AnalysisBroken('Machine::STACK_GUARD / STACK_MAX constants not found')
    rec = fx.record('graphite2::vm::Machine')
    ext = [f for f in rec['fields'] if f['n'] == '_stack']
    if not ext or 'extent' not in ext[0]:
        raise AnalysisBroken('Machine::_stack array not found')
    ext = ext[0]['extent']
    if ext == stack_max + 2 * guard:
        run.held('VMSTACK', '_stack extent', rec['file'], '_stack[%d] == STACK_MAX + 2*STACK_GUARD (%d + 2*%d)' % (ext, stack_max, guard), False)
    else:
        run.violated('VMSTACK', '_stack extent', rec['file'], '_stack has %d cells, STACK_MAX + 2*STACK_GUARD = %d' % (ext, stack_max + 2 * guard))
    # every handler: starting with sp in [sb, sb+STACK_MAX-1], reads >= sp-GUARD... precisely:
    #   lowest cell touched  >= sp - STACK_GUARD   (sb = _stack+GUARD, so >= _stack)
    #   highest cell written <= sp + STACK_GUARD   (sp <= sb+STACK_MAX-1 so <= _stack+STACK_MAX+2*GUARD-1)
    seen = set()
    for n, r in enumerate(vm.tables['call']):
        for h in r['impl']:
            if not h or h in seen:
                continue
            seen.add(h)
            if h not in vm.handlers:
                run.broken('VMSTACK', 'handler %s' % h, 'handler bound in opcode_table is not defined')
                continue
            fn = vm.handlers[h]
            leaves = vm.sym(h)
            inst = 'handler %s' % h
            lo = min([r_[0] for l in leaves for r_ in l.reads] + [w[0] for l in leaves for w in l.writes] + [0])
            hi = max([w[0] for l in leaves for w in l.writes] + [r_[0] for l in leaves for r_ in l.reads] + [0])
            bad = [l for l in leaves if l.exit not in ('ENDOP', 'EXIT')]
            probs = []
            if lo < -guard:
                probs.append('touches stack cell sp%+d: deeper than the %d guard cells below the stack base' % (lo, guard))
            if hi > guard:
                probs.append('writes stack cell sp%+d: beyond the %d guard cells above the stack limit' % (hi, guard))
            if bad:
                probs.append('leaves through a path that is neither ENDOP nor EXIT (%s at %s)' % (bad[0].endop, bad[0].loc_exit))
            for l in leaves:
                if l.exit == 'ENDOP':
                    eo = l.endop
                    dt = eo.get('divisor_type')
                    if eo['sp_offset_used'] != l.spoff:
                        probs.append('ENDOP tests a stale stack pointer')
                    if dt is None or dt[1] is not False:
                        probs.append('ENDOP divides the stack distance by a SIGNED quantity: a negative distance no longer stops the program')
                    if eo['divisor'] != str(stack_max) or eo['cmp'] != '==' or eo['rhs'] != '0':
                        probs.append('ENDOP continue test is not (sp - sb)/STACK_MAX == 0: %s' % eo)
                    break
            if probs:
                run.violated('VMSTACK', inst, fn.where(), '; '.join(probs), {'lowest': lo, 'highest': hi, 'guard': guard})
            else:
                run.held('VMSTACK', inst, fn.where(), 'cells touched in [sp%+d, sp%+d] within the %d-cell guards; exits ENDOP/EXIT only' % (lo, hi, guard))
    # Machine::run epilogue (both drivers): ret read only when sp == _stack+STACK_GUARD+1
    for f in fx.fns_named('graphite2::vm::Machine::run'):
        inst = 'Machine::run epilogue (%s)' % f.f['unit']
        okk = False
        for _, e in f.elements():
            if e['k'] == 'ConditionalOperator':
                c = f.render(f.N(e['c'][0]))
                if 'STACK_GUARD' in c and '+ 1' in c and '==' in c:
                    okk = True
        chk = any(e.get('fq') == 'graphite2::vm::Machine::check_final_stack' for _, e in f.elements())
        if okk and chk:
            run.held('VMSTACK', inst, f.where(), 'result read only when sp == _stack+STACK_GUARD+1; check_final_stack called')
        else:
            run.violated('VMSTACK', inst, f.where(), 'Machine::run no longer guards the result read with sp == _stack+STACK_GUARD+1 or skips check_final_stack')
    # both run() variants analysed?  (direct and call units are both parsed in every configuration)
    return guard, stack_max


def _const_of(v):
    init = v.get('init')
    if not init:
        return None
    if init.get('v') is not None:
        return init['v']
    st = [init]
    while st:
        x = st.pop()
        if isinstance(x, dict):
            if x.get('v') is not None:
                return x['v']
            st.extend(x.get('c') or [])
    return None


# -------------------------------------------------------------------------------------- STACKMODEL
def decoder_model(vm):
    """For every `case OPC:` of fetch_opcode's switch: (delta of _stack_depth, minimum depth
    after the opcode on a non-failing path) derived from the CFG."""
    fx = vm.fx
    fn = fx.one('graphite2::vm::Machine::Code::decoder::fetch_opcode')
    sw = [b for b in fn.blocks if (fn.blocks[b].get('term') or {}).get('k') == 'SwitchStmt']
    if len(sw) != 1:
        raise AnalysisBroken('fetch_opcode: expected one switch')
    sw = sw[0]
    # join block: the block holding the final return
    model = {}
    for s in fn.blocks[sw]['succ']:
        if s is None:
            continue
        lab = fn.blocks[s].get('label') or {}
        if lab.get('k') != 'CaseStmt':
            continue
        # a case label block may be shared by stacked labels: walk label chain
        model[lab['lo']] = _walk_case(fn, s, sw)
    # stacked case labels (case A: case B: body) appear as successive label blocks each a successor of the switch
    return fn, model


def _depth_paths(fn, start, fx, level=0):
    """enumerate the paths from block `start` to a break / the function exit; returns [(delta of _stack_depth, constraints on
    (entry depth + offset), failed with underfull_stack)].  Calls of other decoder methods that touch _stack_depth (a helper such
    as `consume_operand()`) are summarised the same way and composed."""
    results = []
    summaries = {}

    def is_depth(n):
        n = fn.strip(n)
        return n['k'] == 'MemberExpr' and n['d'].endswith('decoder::_stack_depth')

    def helper_summary(fq):
        if fq in summaries:
            return summaries[fq]
        summaries[fq] = None
        if level >= 2 or fx is None:
            return None
        cands = [g for g in fx.fns_named(fq) if g.blocks]
        if len(cands) == 1 and cands[0] is not fn:
            g = cands[0]
            touches = any(e['k'] == 'MemberExpr' and e['d'].endswith('decoder::_stack_depth') for _, e in g.elements())
            if touches:
                summaries[fq] = _depth_paths(g, g.entry, fx, level + 1)
        return summaries[fq]

    def run_block(b, idx, delta, cons, failed, vals, seen):
        if len(results) > 4000:
            raise AnalysisBroken('fetch_opcode: too many paths in one case')
        blk = fn.blocks[b]
        els = blk['el']
        vals = dict(vals)
        while idx < len(els):
            e = els[idx]
            idx += 1
            k = e['k']
            if k == 'UnaryOperator' and e['op'] in ('pre++', 'pre--', 'post++', 'post--') and is_depth(e['c'][0]):
                d = 1 if '++' in e['op'] else -1
                vals[e['i']] = ('depth', delta if e['op'].startswith('post') else delta + d)
                delta += d
            elif k == 'CompoundAssignOperator' and is_depth(e['c'][0]) and e['op'] in ('+=', '-='):
                v = fn.strip_all_casts(e['c'][1]).get('v')
                if v is None:
                    raise AnalysisBroken('fetch_opcode: non-constant _stack_depth update at %s' % fn.loc(e))
                delta += v if e['op'] == '+=' else -v
            elif k == 'BinaryOperator' and e['op'] == '=' and is_depth(e['c'][0]):
                raise AnalysisBroken('fetch_opcode: _stack_depth assigned at %s' % fn.loc(e))
            elif k == 'ImplicitCastExpr' and e.get('ck') == 'LValueToRValue' and is_depth(e['c'][0]):
                src = e['c'][0]
                vals[e['i']] = vals.get(src, ('depth', delta)) if isinstance(src, int) and src in vals else ('depth', delta)
            elif k in ('ImplicitCastExpr', 'ParenExpr') and isinstance(e['c'][0], int) and e['c'][0] in vals:
                vals[e['i']] = vals[e['c'][0]]
            elif k == 'BinaryOperator' and e['op'] in ('<', '<=', '>', '>=', '==', '!='):
                a_ = vals.get(e['c'][0]) if isinstance(e['c'][0], int) else None
                b_ = vals.get(e['c'][1]) if isinstance(e['c'][1], int) else None
                cst = dom_cval(fn, e['c'][1])
                cst0 = dom_cval(fn, e['c'][0])
                if a_ is not None and a_[0] == 'depth' and cst is not None:
                    vals[e['i']] = ('cmp', e['op'], a_[1], cst)
                elif b_ is not None and b_[0] == 'depth' and cst0 is not None:
                    vals[e['i']] = ('cmp', {'<': '>', '>': '<', '<=': '>=', '>=': '<=', '==': '==', '!=': '!='}[e['op']], b_[1], cst0)
            elif k == 'CXXMemberCallExpr' and (e.get('fq') or '').endswith('decoder::failure'):
                arg = fn.strip_all_casts(e['args'][0]) if e.get('args') else {}
                if (arg.get('d') or '').endswith('underfull_stack'):
                    failed = True
            elif k == 'CXXMemberCallExpr' and '::decoder::' in (e.get('fq') or ''):
                sm = helper_summary(e['fq'])
                if sm:
                    for dg, cg, fg in sm:
                        run_block(b, idx, delta + dg, list(cons) + [(op, off + delta, cst, pol) for op, off, cst, pol in cg], failed or fg, vals, seen)
                    return
        succ = [s_ for s_ in blk['succ']]
        term = blk.get('term') or {}
        if term.get('k') == 'BreakStmt' or not succ or all(s_ is None for s_ in succ):
            results.append((delta, tuple(cons), failed))
            return
        if len(succ) == 1:
            enter(succ[0], delta, cons, failed, seen)
            return
        cond = term.get('cond')
        cv = vals.get(cond) if cond is not None else None
        neg = False
        if cv is None and cond is not None:
            # `!(--depth >= 0)` and similar: look through a logical not
            n = fn.strip(fn.nodes[cond]) if cond in fn.nodes else None
            while n is not None and n['k'] == 'UnaryOperator' and n['op'] == '!':
                neg = not neg
                inner = n['c'][0]
                cv = vals.get(inner) if isinstance(inner, int) else None
                n = fn.strip(fn.nodes[inner]) if isinstance(inner, int) and inner in fn.nodes and cv is None else None
        for idx2, pol in ((0, True), (1, False)):
            if succ[idx2] is None:
                continue
            c2 = list(cons)
            if cv is not None and cv[0] == 'cmp':
                c2.append((cv[1], cv[2], cv[3], pol != neg))
            enter(succ[idx2], delta, c2, failed, seen)

    def enter(b, delta, cons, failed, seen):
        if seen.get(b, 0) >= 2:
            return
        seen = dict(seen)
        seen[b] = seen.get(b, 0) + 1
        run_block(b, 0, delta, cons, failed, {}, seen)

    enter(start, 0, [], False, {})
    return results


def dom_cval(fn, x):
    from . import dom
    return dom._cval(fn, x)


def _walk_case(fn, start, sw):
    """(delta, minimum entry depth) of one `case` of fetch_opcode's switch over its non-failing paths"""
    results = _depth_paths(fn, start, getattr(fn, 'fx', None))
    ok = [(d, c) for d, c, f in results if not f]
    if not ok:
        return None
    deltas = set(d for d, _ in ok)
    # minimum depth-on-entry D such that some non-failing path is feasible for all larger D:
    # constraints are on (D + off) op const with polarity; compute the smallest D satisfying each path, take min over paths
    need = None
    for d, cons in ok:
        lo = -10
        for op, off, cst, pol in cons:
            # (D + off) op cst must be pol
            for D in range(-10, 50):
                pass
        # brute force small range
        feas = [D for D in range(0, 40) if all(_cmp(D + off, op, cst) == pol for op, off, cst, pol in cons)]
        if feas:
            m = min(feas)
            need = m if need is None else min(need, m)
    return {'deltas': sorted(deltas), 'min_entry_depth': need}


def _cmp(a, op, b):
    return {'<': a < b, '<=': a <= b, '>': a > b, '>=': a >= b, '==': a == b, '!=': a != b}[op]


def stackmodel(run, vm):
    fn, model = decoder_model(vm)
    rows = vm.tables['call']
    for n in IN_SCOPE:
        name = opspec.SPEC[n][0]
        inst = 'opcode %#04x %s' % (n, name)
        m = model.get(n)
        if m is None:
            run.violated('STACKMODEL', inst, fn.where(), 'fetch_opcode has no non-failing case for %s: the decoder model does not cover it' % name)
            continue
        h = rows[n]['impl'][0]
        if not h or h not in vm.handlers:
            continue
        leaves = vm.sym(h)
        eff = sorted(set(l.spoff for l in leaves if l.exit == 'ENDOP'))
        exits = [l for l in leaves if l.exit == 'EXIT']
        reads = [r[0] for l in leaves for r in l.reads]
        need = (-min(reads) + 1) if reads else 0
        probs = []
        if eff and m['deltas'] != eff:
            probs.append('decoder counts a stack delta of %s, the handler\'s net effect is %s' % (m['deltas'], eff))
        if not eff and exits:
            # returns: POP_RET pops one value (decoder -1), RET_* none
            pass
        if m['min_entry_depth'] is None or m['min_entry_depth'] < need:
            probs.append('decoder accepts the opcode with %s values on the stack, handler %s reads %d' % (m['min_entry_depth'], h, need))
        if probs:
            run.violated('STACKMODEL', inst, fn.where(), '; '.join(probs) + ': accepted programs can pop below the modelled stack',
                         {'decoder': m, 'handler_effect': eff, 'handler_needs': need})
        else:
            run.held('STACKMODEL', inst, fn.where(), 'decoder delta %s, requires depth >= %s; handler effect %s, needs %d'
                     % (m['deltas'], m['min_entry_depth'], eff, need))
    return model


# --------------------------------------------------------------------------------------- DIVGUARD
def divguard(run, vm):
    n = 0
    for h, fn in sorted(vm.handlers.items()):
        leaves = vm.sym(h)
        for l in leaves:
            for kind, loc, divisor, dividend in l.divs:
                n += 1
                inst = 'division in %s' % h
                lits = [(c, p) for c, p, _ in l.pc]
                nz_ok = any(c[0] == 'cmp' and c[1] in ('eq', 'ne') and divisor in (c[2], c[3]) and K(0, 32) in (c[2], c[3]) and
                            ((c[1] == 'eq' and not p) or (c[1] == 'ne' and p)) for c, p in lits)
                ovf_ok = True
                if kind == 's':
                    imin = K(0x80000000, 32)
                    m1 = K(0xFFFFFFFF, 32)
                    a_not_min = any(c[0] == 'cmp' and c[1] == 'eq' and dividend in (c[2], c[3]) and imin in (c[2], c[3]) and not p for c, p in lits)
                    b_not_m1 = any(c[0] == 'cmp' and c[1] == 'eq' and divisor in (c[2], c[3]) and m1 in (c[2], c[3]) and not p for c, p in lits)
                    ovf_ok = a_not_min or b_not_m1
                if nz_ok and ovf_ok:
                    run.held('DIVGUARD', inst, loc, 'divisor != 0 and not (INT_MIN / -1) on this path: %s' % [(vshow(c), p) for c, p in lits])
                else:
                    run.violated('DIVGUARD', inst, loc, 'integer division on VM values is reachable with %s' %
                                 ('a zero divisor' if not nz_ok else 'INT_MIN / -1 (signed overflow, SIGFPE on x86)'),
                                 {'path_condition': [(vshow(c), p) for c, p in lits]})
    if n == 0:
        run.broken('DIVGUARD', 'division', 'no integer division found in any handler (DIV handler changed shape?)')


def nosignedovf(run, vm, known_ok=()):
    for h, fn in sorted(vm.handlers.items()):
        leaves = vm.sym(h)
        seen = set()
        for l in leaves:
            for op, loc, text in l.signed_arith:
                if (op, loc) in seen:
                    continue
                seen.add((op, loc))
                if '64-bit' in text:
                    run.observe('64-bit signed arithmetic in %s at %s not flagged (32-bit stack value + pointer difference cannot overflow 64 bits)' % (h, loc))
                    continue
                run.violated('NOSIGNEDOVF', '%s %s' % (h, op), loc, 'undefined behaviour for accepted bytecode: %s' % text)
        if not seen:
            run.held('NOSIGNEDOVF', h, fn.where(), 'no signed 32-bit + - * neg << on VM-controlled operands', any(l.reads for l in leaves))
