"""C18 -- feature values are an isolated, range-checked map with font defaults.

Bit packing of several features into words and the label bytes are run-time values and NOT decided.  Decided:
  FAILATOMIC  FeatureRef::applyValToFeature writes nothing to the destination on a path that returns false; the masked
              write (clear ~m_mask, then or val << m_bits, both on pDest[m_index]) is dominated by val <= maxVal(), a
              face, the map-identity test and the resize that makes m_index valid
  READGUARD   getFeatureVal reads feats[m_index] only under m_index < size, a face and the same identity test
  NOSETTINGS  a feature without settings gets maxVal 0xffffffff (any 16-bit value is accepted), one with settings the
              maximum computed by readFeatureSettings
  SETTINGZEXT readFeatureSettings compares the 16-bit setting value with the running maximum after zero-extension
              (values >= 0x8000 are large settings, not negative ones)
  NOSTRADDLE  the FeatureRef constructor moves the running bit offset to the next chunk on every path on which the field's
              end falls into a later chunk than its start (necessary for fields not to straddle / overlap)
  CLONE       gr_featureval_clone and SillMap::cloneFeatures copy through Features' copy constructor (vector and map)
  LANGMATCH   cloneFeatures returns the Sill entry whose tag equals the (normalised) argument, else the defaults
  INDEXTESTS  gr_fref_value keeps its setting-index test
  TAGNORM     (shared with C20) language / feature tags are normalised before they are compared with font values
"""
from . import dom, tagnorm
from .cfg import int_type
from .facts import AnalysisBroken
from .util import calls_in, find_decl

LEVEL = 'other'
EXPLANATION = ('Failure-atomicity and guard rules on the CFG of FeatureRef::applyValToFeature / getFeatureVal, dataflow of the maximum '
               'value from readFeats, a cast-chain typing rule on the setting comparison, copy-constructor use at the two clone sites, '
               'the language match, and the shared tag-normalisation rule.  How need_bits are packed into 32-bit chunks and which bytes '
               'a label has are value-level and not decided.')
FLOORS = {'NOSTRADDLE': 3, 'FAILATOMIC': 6, 'READGUARD': 1, 'NOSETTINGS': 1, 'SETTINGZEXT': 1, 'CLONE': 3, 'LANGMATCH': 8, 'INDEXTESTS': 1, 'TAGNORM': 3, 'NARROWREAD': 1, 'LABELENC': 4}


def failatomic(run, fx):
    fn = fx.one('graphite2::FeatureRef::applyValToFeature')
    dest = [p for p in fn.f['params'] if 'FeatureVal' in p['t']]
    if not dest:
        raise AnalysisBroken('applyValToFeature: destination parameter not found')
    dn = dest[0]['n']
    # writes to the destination: assignments through pDest.*, resize, operator[] compound assignments
    writes = []
    for _, e in fn.elements():
        if e['k'] in ('BinaryOperator', 'CompoundAssignOperator') and e['op'].endswith('=') and e['op'] not in ('==', '!=', '<=', '>='):
            l = fn.render(fn.N(e['c'][0]))
            if l.startswith(dn + '.') or l.startswith(dn + '[') or ('operator[](' + dn) in l:
                writes.append(e)
        if e['k'] == 'CXXMemberCallExpr' and (e.get('fq') or '').endswith('::resize') and fn.render(fn.N(e['obj'])).startswith(dn):
            writes.append(e)
    if len(writes) < 4:
        run.broken('FAILATOMIC', 'destination writes', 'expected >= 4 writes to the destination (map pointer, resize, clear, set), found %d' % len(writes), fn.where())
    falses = [e for _, e in fn.elements() if e['k'] == 'ReturnStmt' and fn.strip_all_casts(e['c'][0]).get('v') == 0]
    for r in falses:
        rb = fn.block_of[r['i']]
        dirty = [w for w in writes if rb in fn.reachable_from(fn.block_of[w['i']]) and fn.block_of[w['i']] != rb]
        inst = 'return false @%s' % r['ln']
        if dirty:
            run.violated('FAILATOMIC', inst, fn.loc(r), 'a failing set_feature_value has already modified the caller\'s feature values (%s executes before this return)'
                         % fn.render(dirty[0])[:80])
        else:
            run.held('FAILATOMIC', inst, fn.loc(r), 'no write to the destination can precede this failure')
    masked = [w for w in writes if w['k'] == 'CompoundAssignOperator' and w['op'] in ('&=', '|=')]
    for w in masked:
        fs = [f[:3] for f in dom.facts_at(fn, w['i'])]
        need = {'range': lambda f: f[0] == fn.f['params'][0]['n'] and f[1] == '<=' and ('maxVal()' in f[2] or f[2] == 'this->m_max'),
                'face': lambda f: f[0] == 'this->m_face' and f[1] == '!=' and f[2] == '0'}
        missing = [k for k, p in need.items() if not any(p(f) for f in fs)]
        ident = dom.must_pass(fn, fn.entry, fn.block_of[w['i']], lambda f: ('m_pMap' in f[0] and f[1] == '==' and (f[2] == '0' or 'theFeatureMap()' in f[2])))
        idx = fn.render(w)
        inst = 'masked write %s @%s' % (w['op'], w['ln'])
        if missing or not ident or 'this->m_index' not in idx:
            run.violated('FAILATOMIC', inst, fn.loc(w), 'the feature word is modified without %s%s%s' % (
                missing or '', '' if ident else ' the map-identity test', '' if 'this->m_index' in idx else ' (index is not m_index)'), {'facts': fs})
        else:
            run.held('FAILATOMIC', inst, fn.loc(w), 'dominated by val <= maxVal(), m_face, map identity; on word m_index')
    clr = [w for w in masked if w['op'] == '&=' and '~this->m_mask' in fn.render(w).replace(' ', '')]
    st = [w for w in masked if w['op'] == '|=' and 'this->m_bits' in fn.render(w) and '<<' in fn.render(w)]
    rs = [w for w in writes if w['k'] == 'CXXMemberCallExpr']
    okr = rs and any(any(f[0] == 'this->m_index' and f[1] == '>=' and 'size()' in f[2] for f in dom.facts_at(fn, r['i'])) for r in rs) and \
        '(this->m_index + 1)' in fn.render(rs[0])
    if clr and st and okr:
        run.held('FAILATOMIC', 'masked write shape', fn.where(), 'resize(m_index+1) when needed; word &= ~m_mask; word |= val << m_bits')
    else:
        run.violated('FAILATOMIC', 'masked write shape', fn.where(), 'the masked write is no longer clear-then-set on a word made valid by resize(m_index + 1) '
                     '(clear %s, set %s, resize %s): other features sharing the word change' % (bool(clr), bool(st), bool(okr)))


def readguard(run, fx):
    fn = fx.one('graphite2::FeatureRef::getFeatureVal')
    rd = [e for _, e in fn.elements() if e['k'] == 'CXXOperatorCallExpr' and (e.get('fq') or '').endswith('operator[]')]
    if not rd:
        raise AnalysisBroken('getFeatureVal: feats[...] read not found')
    fs = [f[:3] for f in dom.facts_at(fn, rd[0]['i'])]
    ok = any(f[0] == 'this->m_index' and f[1] == '<' and 'size()' in f[2] for f in fs) and any(f[0] == 'this->m_face' and f[1] == '!=' for f in fs) and \
        any('theFeatureMap()' in f[0] and 'm_pMap' in f[2] and f[1] == '==' for f in fs)
    if ok:
        run.held('READGUARD', 'getFeatureVal', fn.loc(rd[0]), 'read under m_index < size(), m_face and map identity')
    else:
        run.violated('READGUARD', 'getFeatureVal', fn.loc(rd[0]), 'feats[m_index] is read without the size / face / map-identity guard', {'facts': fs})


def nosettings(run, fx):
    """the max_val handed to each FeatureRef: 0xffffffff on the paths on which the feature has no settings, the maximum computed by
    readFeatureSettings on the others -- decided on the definitions of the variable that reach the constructor call"""
    from .util import reaches_avoiding
    fn = fx.one('graphite2::FeatureMap::readFeats')
    ctor = [e for _, e in fn.elements() if e['k'] == 'CXXConstructExpr' and (e.get('fq') or '') == 'graphite2::FeatureRef::FeatureRef' and len(e.get('c') or []) >= 8]
    if not ctor:
        raise AnalysisBroken('readFeats: FeatureRef construction not found')
    use = ctor[0]
    arg = fn.strip_all_casts(use['c'][2])
    if arg['k'] != 'DeclRefExpr' or arg.get('vid') is None:
        run.violated('NOSETTINGS', 'maxVal', fn.loc(use), 'the maximum handed to FeatureRef is `%s`, not the per-feature maximum variable' % fn.render(arg))
        return
    vid = arg['vid']
    defs = []
    for _, d in fn.elements():
        if d['k'] == 'DeclStmt':
            defs.extend((d, x_['init']) for x_ in d.get('decls', []) if x_.get('vid') == vid and x_.get('init') is not None)
        elif d['k'] == 'BinaryOperator' and d.get('op') == '=' and fn.strip_all_casts(d['c'][0])['k'] == 'DeclRefExpr' and fn.strip_all_casts(d['c'][0]).get('vid') == vid:
            defs.append((d, d['c'][1]))
    big = [(d, r) for d, r in defs if fn.strip_all_casts(r).get('v') == 0xffffffff or fn.deref(r).get('v') == 0xffffffff]
    rd = [(d, r) for d, r in defs if any((y.get('fq') or '').endswith('readFeatureSettings') for y in fn.walk(r))]
    other = [(d, r) for d, r in defs if (d, r) not in big and (d, r) not in rd]
    ns = 'num_settings'
    zero = dom.edges_with(fn, lambda f: f[0] == ns and f[1] == '==' and f[2] == '0')
    nonzero = lambda d: any(dom.implies(f[:3], (ns, '!=', '0')) or dom.implies(f[:3], (ns, '>', '0')) for f in dom.facts_at(fn, d['i']))
    problems = []
    if not big:
        problems.append('no definition with 0xffffffff')
    if not rd:
        problems.append('no definition from readFeatureSettings')
    for d, r in other:
        if reaches_avoiding(fn, d, use, [x for x, _ in defs if x is not d]):
            problems.append('`%s` (line %s) reaches the constructor' % (fn.render(fn.N(r))[:40], d.get('ln')))
    for d, r in rd:
        if not nonzero(d):
            problems.append('the maximum from the settings is taken also when there are none (line %s)' % d.get('ln'))
    for d, r in big:
        # 0xffffffff may reach the constructor only along an edge num_settings == 0 (or be assigned under it)
        if any(f[:3] == (ns, '==', '0') for f in dom.facts_at(fn, d['i'])):
            continue
        seen, st, leak = set(), [(fn.block_of[d['i']], True)], False
        stops = {fn.block_of[x['i']] for x, _ in rd}
        ub = fn.block_of[use['i']]
        while st:
            b, first = st.pop()
            if (b in seen) or (b in stops and not first):
                continue
            seen.add(b)
            if b == ub and not first:
                leak = True
                break
            for idx, s_ in enumerate(fn.blocks[b]['succ']):
                if s_ is not None and (b, idx) not in zero:
                    st.append((s_, False))
        if leak and fn.block_of[d['i']] != ub:
            problems.append('0xffffffff (line %s) can reach the constructor on a path on which the feature has settings and readFeatureSettings did not run' % d.get('ln'))
    if not problems:
        run.held('NOSETTINGS', 'maxVal', fn.loc(big[0][0]), 'num_settings == 0 => 0xffffffff, else readFeatureSettings(...); passed to FeatureRef')
    else:
        run.violated('NOSETTINGS', 'maxVal', fn.where(), 'the largest accepted value is no longer 0xffffffff exactly for features without settings: %s' % '; '.join(problems))


def settingzext(run, fx):
    fn = fx.one('(anonymous namespace)::readFeatureSettings')
    cmps = [e for _, e in fn.elements() if e['k'] == 'BinaryOperator' and e['op'] in ('>', '>=', '<', '<=') and 'max_val' in fn.render(e)]
    if not cmps:
        raise AnalysisBroken('readFeatureSettings: comparison with max_val not found')
    for e in cmps:
        side = e['c'][0] if 'max_val' not in fn.render(fn.N(e['c'][0])) else e['c'][1]
        # walk the cast chain from the variable outwards
        chain = []
        n = fn.N(side)
        while True:
            if n['k'] in ('ParenExpr',) or n['k'].endswith('CastExpr'):
                chain.append((n.get('ck'), n.get('t')))
                n = fn.N(n['c'][0])
                continue
            break
        src = int_type(n.get('t'))
        chain.reverse()
        cur = src
        zext = None
        for ck, t in chain:
            it = int_type(t)
            if it is None or ck == 'LValueToRValue':
                continue
            if cur and it[0] > cur[0] and zext is None:
                zext = not cur[1]
            cur = it
        if zext is None:
            zext = bool(cur) and not cur[1]
        if src and src[0] == 16 and zext:
            run.held('SETTINGZEXT', 'setting value comparison', fn.loc(e), '16-bit setting value zero-extended before it is compared with the maximum')
        else:
            run.violated('SETTINGZEXT', 'setting value comparison', fn.loc(e), 'the int16 setting value is compared with the running maximum after SIGN extension: settings '
                         '>= 0x8000 never raise the maximum, so set_feature_value rejects defined settings and font defaults >= 0x8000 are dropped')


def clone(run, fx):
    sites = [(fx.one('gr_featureval_clone'), 'gr_featureval_clone'), (fx.one('graphite2::SillMap::cloneFeatures'), 'cloneFeatures')]
    for fn, name in sites:
        news = [e for _, e in fn.elements() if e['k'] == 'CXXNewExpr' and 'FeatureVal' in (e.get('aty') or '')]
        copies = [e for e in news if e.get('init') is not None and fn.N(e['init']).get('copyctor')]
        defaults = [e for e in news if e.get('init') is not None and not fn.N(e['init']).get('copyctor')]
        inst = '%s copies' % name
        if len(copies) >= 1 and (name == 'gr_featureval_clone' or not defaults):
            run.held('CLONE', inst, fn.where(), '%d clone(s) through Features\' copy constructor' % len(copies))
        else:
            run.violated('CLONE', inst, fn.where(), '%s no longer clones through the copy constructor (%d copy-constructed, %d otherwise)' % (name, len(copies), len(defaults)))
    rec = fx.record('graphite2::FeatureVal')
    cc = [m for m in rec['methods'] if m.get('copyctor')]
    user = [m for m in cc if m.get('user')]
    if not user:
        run.held('CLONE', 'FeatureVal copy constructor', rec['file'], 'implicit member-wise copy (vector base and m_pMap)', False)
    else:
        f = [x for x in fx.fns_named('graphite2::FeatureVal::FeatureVal') if 'const graphite2::FeatureVal &' in x.f['sig']]
        ok = f and any(e['k'] == 'Init' and (e.get('field') or '').endswith('m_pMap') for _, e in f[0].elements())
        if ok:
            run.held('CLONE', 'FeatureVal copy constructor', rec['file'], 'user copy constructor copies m_pMap', False)
        else:
            run.violated('CLONE', 'FeatureVal copy constructor', rec['file'], 'the user-provided copy constructor does not copy the map identity')


def langmatch(run, fx):
    """what cloneFeatures copies: the features of the entry whose tag equals the argument, or the defaults -- followed through a local
    `source` pointer if there is one"""
    fn = fx.one('graphite2::SillMap::cloneFeatures')
    lang = fn.f['params'][0]['n']
    kinds = set()
    bad = []

    def classify(node, at, depth=0):
        n = fn.deref(node)
        if n['k'] == 'UnaryOperator' and n['op'] in ('*', '&') and n.get('c'):
            return classify(n['c'][0], at, depth)
        if n['k'] == 'MemberExpr' and n['d'].endswith('m_defaultFeatures'):
            return {'default'}
        if n['k'] == 'MemberExpr' and n['d'].endswith('m_pFeatures') and n.get('c'):
            base = fn.render(fn.deref(n['c'][0]), resolve=True).replace('->', '.').lstrip('*')
            fs = [f[:3] for f in dom.facts_at(fn, at)]
            for f in fs:
                l = f[0].replace('->', '.').lstrip('*')
                if f[1] == '==' and f[2] == lang and l.endswith('.m_lang') and l[:-len('.m_lang')].strip('()') == base.strip('()'):
                    return {'entry'}
            return {'unguarded entry (%s)' % base}
        if n['k'] == 'DeclRefExpr' and n.get('vid') is not None and depth < 3:
            out = set()
            ndef = 0
            for _, e in fn.elements():
                if e['k'] == 'DeclStmt':
                    for d in e.get('decls', []):
                        if d.get('vid') == n['vid'] and d.get('init') is not None:
                            out |= classify(d['init'], e['i'], depth + 1)
                            ndef += 1
                elif e['k'] == 'BinaryOperator' and e['op'] == '=' and fn.strip_all_casts(e['c'][0]).get('vid') == n['vid']:
                    out |= classify(e['c'][1], e['i'], depth + 1)
                    ndef += 1
            return out if ndef else {'unknown local'}
        return {'other: ' + fn.render(n)[:40]}
    for _, e in fn.elements():
        if e['k'] == 'CXXNewExpr' and 'FeatureVal' in (e.get('aty') or '') and e.get('init') is not None:
            init = fn.N(e['init'])
            args = [a for a in (init.get('args') or init.get('c') or []) if a is not None]
            if not args:
                bad.append('default-constructed copy')
                continue
            kinds |= classify(args[0], e['i'])
    odd = sorted(k for k in kinds if k not in ('entry', 'default'))
    if 'entry' in kinds and 'default' in kinds and not odd and not bad:
        run.held('LANGMATCH', 'cloneFeatures', fn.where(), 'copies the entry with m_lang == %s, otherwise the defaults' % lang)
    else:
        run.violated('LANGMATCH', 'cloneFeatures', fn.where(), 'SillMap::cloneFeatures no longer returns the entry whose tag equals the argument / the defaults otherwise '
                     '(match %s, default %s%s)' % ('entry' in kinds, 'default' in kinds, ', also: %s' % (odd + bad) if odd or bad else ''))


def indextests(run, fx):
    fn = fx.one('gr_fref_value')
    gs = calls_in(fn, 'graphite2::FeatureRef::getSettingValue')
    ok = gs and any(f[0] == 'settingno' and f[1] == '<' and 'getNumSettings()' in f[2] for f in dom.facts_at(fn, gs[0]['i']))
    if ok:
        run.held('INDEXTESTS', 'gr_fref_value', fn.loc(gs[0]), 'settingno < getNumSettings()')
    else:
        run.violated('INDEXTESTS', 'gr_fref_value', fn.where(), 'gr_fref_value reads a setting without the settingno < getNumSettings() test')


def nostraddle(run, fx):
    ct = [f for f in fx.fns_named('graphite2::FeatureRef::FeatureRef') if len(f.f['params']) >= 8]
    if len(ct) != 1:
        raise AnalysisBroken('FeatureRef constructor not found')
    fn = ct[0]
    bump = [e for _, e in fn.elements() if e['k'] == 'BinaryOperator' and e['op'] == '=' and fn.render(fn.N(e['c'][0])) == 'bits_offset'
            and 'this->m_index' in fn.render(fn.N(e['c'][1])) and 'SIZEOF_CHUNK' in fn.render(fn.N(e['c'][1]))]
    edges = dom.edges_with(fn, lambda f: f[0] == 'this->m_index' and f[1] == '>' and 'bits_offset' in f[2] and ('SIZEOF_CHUNK' in f[2] or '/ 32' in f[2]))
    if not bump or not edges:
        run.violated('NOSTRADDLE', 'chunk bump', fn.where(), 'the FeatureRef constructor no longer moves bits_offset to the next chunk when the field would straddle a word '
                     '(bump %s, test %s)' % (bool(bump), bool(edges)))
        return
    # the running bit offset covers every feature of the table: m_numFeats is a 16-bit count and every feature takes at least one bit,
    # so the offset (the constructor's in/out parameter and the caller's variable bound to it) is at least 16 bits wide
    from .cfg import int_type
    bo = [p_ for p_ in fn.f['params'] if p_['n'] == 'bits_offset' or ((p_.get('t') or '').rstrip().endswith('&') and int_type((p_.get('t') or '').replace('&', '').strip()))]
    if len(bo) != 1:
        run.broken('NOSTRADDLE', 'bit offset width', 'the in/out bit-offset parameter of the FeatureRef constructor was not recognised', fn.where())
    else:
        w_ = int_type((bo[0].get('t') or '').replace('&', '').strip())
        if w_ and w_[0] >= 16:
            run.held('NOSTRADDLE', 'bit offset width', fn.where(), '%s' % bo[0].get('t'))
        else:
            run.violated('NOSTRADDLE', 'bit offset width', fn.where(), 'the running bit offset of the feature values is a `%s`: it wraps after %d bits, so the features of a font that needs more '
                         'are laid over the bits of earlier ones -- writing one changes another' % (bo[0].get('t'), 1 << (w_[0] if w_ else 8)))
    bb = fn.block_of[bump[0]['i']]
    ok = True
    for (b, idx) in edges:
        s0 = fn.blocks[b]['succ'][idx]
        seen, st = set(), [s0]
        while st:
            x = st.pop()
            if x in seen or x == bb:
                continue
            seen.add(x)
            if x == fn.exit:
                ok = False
                break
            st.extend(fn.succs(x))
    idx_def = [e for _, e in fn.elements() if e['k'] == 'BinaryOperator' and e['op'] == '=' and fn.render(fn.N(e['c'][0])) == 'this->m_index']
    okdef = idx_def and fn.render(fn.N(idx_def[0]['c'][1])).replace(' ', '') == '((bits_offset+need_bits)/graphite2::FeatureRef::SIZEOF_CHUNK)'
    # the shift is taken from the offset the feature finally gets: the bump cannot run after m_bits was computed, the advance over
    # the feature's own bits cannot run before it
    from .effrules import _elem_reaches
    shift = [e for _, e in fn.elements() if e['k'] == 'BinaryOperator' and e['op'] == '=' and fn.render(fn.N(e['c'][0])) == 'this->m_bits'
             and any(x['k'] == 'DeclRefExpr' and x.get('n', fn.render(x)) == 'bits_offset' or fn.render(x) == 'bits_offset' for x in fn.walk(e['c'][1]))]
    adv = [e for _, e in fn.elements() if (e['k'] == 'CompoundAssignOperator' and e['op'] == '+=' and fn.render(fn.N(e['c'][0])) == 'bits_offset') or
           (e['k'] == 'BinaryOperator' and e['op'] == '=' and fn.render(fn.N(e['c'][0])) == 'bits_offset' and e not in bump)]
    if not shift or not adv:
        run.broken('NOSTRADDLE', 'shift from final offset', 'm_bits = f(bits_offset) (%d) / the advance of bits_offset (%d) not found' % (len(shift), len(adv)), fn.where())
    else:
        stale = [b_ for b_ in bump for s_ in shift if _elem_reaches(fn, s_, b_)]
        early = [a_ for a_ in adv for s_ in shift if _elem_reaches(fn, a_, s_)]
        if stale:
            run.violated('NOSTRADDLE', 'shift from final offset', fn.loc(shift[0]), 'm_bits is computed from bits_offset at line %s, before the move to the next chunk at line %s: '
                         'a feature that was moved keeps the shift of its old position, its mask is shifted out of the word or onto a later feature\'s bits'
                         % (shift[0].get('ln'), stale[0].get('ln')))
        elif early:
            run.violated('NOSTRADDLE', 'shift from final offset', fn.loc(shift[0]), 'bits_offset is advanced over the feature\'s own bits (line %s) before m_bits is taken from it'
                         % early[0].get('ln'))
        else:
            run.held('NOSTRADDLE', 'shift from final offset', fn.loc(shift[0]), 'm_bits is computed after the chunk bump and before the advance')
    if ok and okdef:
        run.held('NOSTRADDLE', 'chunk bump', fn.loc(bump[0]), 'whenever (bits_offset + need_bits) / CHUNK exceeds bits_offset / CHUNK the offset moves to the start of that chunk')
    else:
        run.violated('NOSTRADDLE', 'chunk bump', fn.loc(bump[0]), 'a feature whose end falls into the next 32-bit chunk is not always moved to the start of that chunk (an extra '
                     'condition guards the bump, or m_index is computed differently): its bits are stored in one word at the shift of another, and later '
                     'features overlap it')


def lenunit(run, fx):
    """NameTable::getName reports the label's length in code units of the encoding it returns: when the returned buffer is not the
    UTF-16 source itself, the length is what the converting iterator wrote (a difference of positions in that buffer), not the
    UTF-16 length -- a surrogate pair is one UTF-32 unit and up to four UTF-8 units"""
    fn = fx.one('graphite2::NameTable::getName')
    lp = [p for p in fn.f['params'] if (p.get('t') or '').replace('graphite2::', '') in ('unsigned int &', 'uint32 &')]
    if len(lp) != 1:
        raise AnalysisBroken('NameTable::getName: the length out-parameter not found')
    lv = lp[0]['vid']
    n = 0
    for _, r in fn.elements():
        if r['k'] != 'ReturnStmt' or not r.get('c') or fn.is_null(r['c'][0]):
            continue
        buf = fn.strip_all_casts(r['c'][0])
        if buf['k'] != 'DeclRefExpr' or buf.get('vid') is None:
            continue
        et = (buf.get('t') or '').replace('graphite2::', '').replace('const ', '').rstrip(' *')
        # the assignment to length that reaches this return: the last one in a dominating block
        asg = [e for _, e in fn.elements() if e['k'] == 'BinaryOperator' and e['op'] == '=' and fn.strip_all_casts(e['c'][0]).get('vid') == lv
               and (fn.block_of[e['i']] in fn.dominators()[fn.block_of[r['i']]])]
        if not asg:
            run.violated('LANGMATCH', 'label length unit @%s' % r['ln'], fn.loc(r), 'getName returns a label without setting its length')
            continue
        a = max(asg, key=lambda e: (len(fn.dominators()[fn.block_of[e['i']]]), fn.pos_of[e['i']]))
        n += 1
        inst = 'label length unit (%s buffer) @%s' % (et, r['ln'])
        uses_buf = any(x['k'] == 'DeclRefExpr' and x.get('vid') == buf['vid'] for x in fn.walk(a['c'][1])) and \
            any(x['k'] == 'BinaryOperator' and x.get('op') == '-' for x in fn.walk(a['c'][1]))
        if et in ('unsigned short', 'uint16', 'utf16::codeunit_t'):
            run.held('LANGMATCH', inst, fn.loc(a), 'the UTF-16 source is returned with its own length', False)
        elif uses_buf:
            run.held('LANGMATCH', inst, fn.loc(a), 'length = %s: units written into the returned buffer' % fn.render(a['c'][1])[:60])
        else:
            run.violated('LANGMATCH', inst, fn.loc(a), 'getName returns a %s buffer but reports length = `%s`, which is not the number of units the conversion wrote into it: '
                         'for labels with characters outside the BMP the length is too long (stale bytes before the terminator) and the three encodings of one label '
                         'no longer agree' % (et, fn.render(a['c'][1])[:80]))
    if n < 3:
        run.broken('LANGMATCH', 'label length unit', 'expected the three encoding branches of getName, found %d' % n, fn.where())


def idorder(run, fx):
    """feature and language ids are arbitrary 32-bit values (tags, or small numbers such as the language-id feature 1): code that
    orders them (a sorted table, a bisection) compares the ids themselves, never the sign of their wrapped difference"""
    from .util import signdiff_sites
    files = ('src/FeatureMap.cpp', 'src/inc/FeatureMap.h', 'src/inc/FeatureVal.h', 'src/gr_features.cpp', 'src/NameTable.cpp', 'src/inc/NameTable.h')
    nf = 0
    for fn in fx.all_fns():
        if fn.file not in files or not fn.blocks:
            continue
        nf += 1
        for e, txt in signdiff_sites(fn):
            run.violated('INDEXTESTS', 'id order in %s' % fn.q.split('::')[-1], fn.loc(e), '%s decides an order by the sign of `%s` taken as a signed number: both operands are '
                         'unsigned 32-bit ids, and for ids 2^31 or more apart (a tag against the numeric feature id 1) the sign is the opposite of their order -- a feature that '
                         'is present is reported as not found, its Sill overrides are dropped' % (fn.q, txt))
    if nf < 20:
        run.broken('INDEXTESTS', 'id order', 'only %d feature/name functions scanned' % nf, '')
    else:
        run.held('INDEXTESTS', 'id order', '', '%d feature/name functions: no ordering by the sign of a wrapped unsigned difference' % nf)


def maskexec(run, fx):
    """a feature's mask is mask_over_val(largest setting): all ones from the top set bit down.  Every instantiation of mask_over_val
    in the program is interpreted (rules/ordint.py) on values at both ends of every bit length of its type and must give
    2^bitlength(v) - 1: a mask with holes makes a set value read back differently and spill into the neighbouring feature."""
    from . import ordint as O
    from .cfg import int_type
    fns = []
    for k, f in fx.raw['functions'].items():
        if f['q'] == 'graphite2::mask_over_val' and f.get('blocks') and len(f.get('params') or []) == 1:
            fns.append(fx.fn(k))
    seen, n = set(), 0
    for fn in fns:
        t = int_type(fn.f['params'][0].get('t'))
        if not t or fn.f['params'][0].get('t') in seen:
            continue
        seen.add(fn.f['params'][0].get('t'))
        bits = t[0]
        vals = sorted({0, 1, 2, 3, 5} | {x for b in range(1, bits + 1) for x in ((1 << b) - 1, 1 << (b - 1), (1 << (b - 1)) + 1) if x < (1 << bits)})
        inst = 'mask_over_val<%s> has no holes' % fn.f['params'][0].get('t')
        n += 1
        prob = None
        try:
            for v in vals:
                it = O.Interp(fx)
                it.MAX_STEPS = 3000
                r = it.call(fn, None, [v])
                want = (1 << v.bit_length()) - 1
                if not isinstance(r, int) or (r & ((1 << bits) - 1)) != want:
                    prob = 'mask_over_val(%#x) gives %s, expected %#x' % (v, ('%#x' % r) if isinstance(r, int) else repr(r), want)
                    break
        except O.Violation as v_:
            prob = '%s (%s)' % (v_.what, v_.loc)
        except (AnalysisBroken, O.AnalysisBroken) as ex:
            run.broken('NOSTRADDLE', inst, str(ex), fn.where())
            continue
        if prob:
            run.violated('NOSTRADDLE', inst, fn.where(), prob + ': a feature whose largest setting has that shape reserves too few bits -- a value that was set reads back differently and '
                         'writes spill into the neighbouring feature')
        else:
            run.held('NOSTRADDLE', inst, fn.where(), '%d values at both ends of every bit length' % len(vals))
    if n < 1:
        run.broken('NOSTRADDLE', 'mask_over_val has no holes', 'no instantiation of graphite2::mask_over_val found')


def inoutlang(run, fx):
    """NameTable::getName takes the wanted language in `languageId` and answers the language found through the same reference.  The
    request must be read before the answer is written: no read of that in/out parameter is reachable from a store to it (a reset to 0
    at the top makes the same-primary-language fallback compare against 0, so fr-CA no longer finds fr-FR and the caller gets the
    English string in all three encodings)."""
    from .util import reaches_avoiding
    fn = fx.one('graphite2::NameTable::getName')
    ps = [p_ for p_ in fn.f['params'] if (p_.get('t') or '').rstrip().endswith('&') and 'short' in (p_.get('t') or '')]
    n = 0
    for p_ in ps:
        refs = [e for _, e in fn.elements() if e['k'] == 'DeclRefExpr' and e.get('vid') == p_['vid']]
        par = fn.parents()
        stores, reads = [], []
        for r in refs:
            pp = [fn.N(x) for x in par.get(r['i'], [])]
            st = [x for x in pp if x['k'] in ('BinaryOperator', 'CompoundAssignOperator') and x.get('op') == '=' and x['c'][0] == r['i']]
            if st:
                stores.append(st[0])
                continue
            # handed on by reference to a helper that only writes it (`return noName(languageId, length)`): a store at that call
            call = [x for x in pp if x['k'] in ('CallExpr', 'CXXMemberCallExpr') and r['i'] in (x.get('args') or [])]
            if call:
                j = call[0]['args'].index(r['i'])
                key = call[0].get('fm')
                if key not in fx.raw['functions']:
                    key = '%s@%s' % (key, fn.f.get('unit'))
                if key in fx.raw['functions']:
                    g = fx.fn(key)
                    gps = g.f.get('params') or []
                    if j < len(gps) and (gps[j].get('t') or '').rstrip().endswith('&') and 'const' not in (gps[j].get('t') or ''):
                        gpar = g.parents()
                        grefs = [y for _, y in g.elements() if y['k'] == 'DeclRefExpr' and y.get('vid') == gps[j]['vid']]
                        gread = [y for y in grefs if not any(z['k'] in ('BinaryOperator', 'CompoundAssignOperator') and z.get('op') == '=' and z['c'][0] == y['i'] for z in (g.N(w) for w in gpar.get(y['i'], [])))]
                        if grefs and not gread:
                            stores.append(call[0])
                            continue
            reads.append(r)
        if not stores or not reads:
            continue
        n += 1
        inst = 'getName reads its in/out parameter %s before it writes it' % p_['n']
        bad = [(s_, r) for s_ in stores for r in reads if reaches_avoiding(fn, s_, r, avoid=())]
        if bad:
            s_, r = bad[0]
            run.violated('LANGMATCH', inst, fn.loc(r), '`%s` is overwritten at line %s and read again at line %s: the function compares with the value it has just written, not with the '
                         'language the caller asked for' % (p_['n'], s_['ln'], r['ln']))
        else:
            run.held('LANGMATCH', inst, fn.where(), '%d read(s), none reachable from a store' % len(reads))
    if n < 1:
        run.broken('LANGMATCH', 'getName in/out language', 'the in/out language parameter of NameTable::getName was not recognised', fn.where())


def langfresh(run, fx):
    """LANGMATCH, the table side: "the font's defaults overridden by the Sill entry of that language".  In SillMap::readSill every
    applyValToFeature() writes into an object that was created from m_defaultFeatures inside the same iteration of the language loop
    (a fresh copy per language): an object that lives across iterations carries the overrides of the languages before it."""
    from .util import loop_bodies
    fn = fx.one('graphite2::SillMap::readSill')
    if len(calls_in(fn, 'graphite2::FeatureRef::applyValToFeature')) < 2:
        fn = fx.inl(fn)              # the per-language work moved into a helper: look at readSill with its helpers inlined
    lb = loop_bodies(fn)
    n = 0
    for e in calls_in(fn, 'graphite2::FeatureRef::applyValToFeature'):
        n += 1
        inst = 'language overrides applied to a fresh copy of the defaults @%s%s' % (e['ln'], (' (helper called at %s)' % e['site']) if e.get('site') else '')
        a = fn.strip_all_casts(fn.N(e['args'][1]))
        while a['k'] == 'UnaryOperator' and a.get('op') == '*':
            a = fn.strip_all_casts(fn.N(a['c'][0]))
        if a['k'] != 'DeclRefExpr' or a.get('vid') is None:
            run.violated('LANGMATCH', inst, fn.loc(e), 'the feature values written for a language are `%s`, not a local copy of the defaults' % fn.render(a))
            continue
        decl = [(d, x) for _, d in fn.elements() if d['k'] == 'DeclStmt' for x in d.get('decls', []) if x.get('vid') == a['vid']]
        if len(decl) != 1 or decl[0][1].get('init') is None:
            run.broken('LANGMATCH', inst, 'declaration of %s not found' % fn.render(a), fn.loc(e))
            continue
        d, x = decl[0]
        for _hop in range(4):                 # a reference local (a helper's `Features & feats` after inlining) stands for what it is bound to
            if not (x.get('t') or '').rstrip().endswith('&'):
                break
            b_ = fn.strip_all_casts(fn.N(x['init']))
            while b_['k'] == 'UnaryOperator' and b_.get('op') == '*':
                b_ = fn.strip_all_casts(fn.N(b_['c'][0]))
            nxt = [(d2, x2) for _, d2 in fn.elements() if d2['k'] == 'DeclStmt' for x2 in d2.get('decls', []) if b_['k'] == 'DeclRefExpr' and x2.get('vid') == b_.get('vid')]
            if len(nxt) != 1 or nxt[0][1].get('init') is None:
                break
            d, x = nxt[0]
        cb, db = fn.block_of[e['i']], fn.block_of[d['i']]
        loops = [h for h, body in lb.items() if cb in body]
        outer = max(loops, key=lambda h: len(lb[h])) if loops else None
        init = fn.render(fn.N(x['init']), resolve=True)
        if outer is None:
            run.broken('LANGMATCH', inst, 'the language loop around the call was not found', fn.loc(e))
        elif not any(w['k'] == 'MemberExpr' and (w.get('d') or '').endswith('m_defaultFeatures') for w in fn.walk(x['init'])):
            run.violated('LANGMATCH', inst, fn.loc(d), 'the per-language values `%s` are initialised from `%s`, not from the font\'s defaults' % (fn.render(a), init[:80]))
        elif db not in lb[outer]:
            run.violated('LANGMATCH', inst, fn.loc(d), '`%s` is created once, outside the loop over the Sill languages, and every language\'s overrides are applied to it: language i also carries '
                         'the overrides of languages 0..i-1 (gr_face_featureval_for_lang returns another language\'s setting for a feature this language leaves at its default)' % fn.render(a))
        else:
            run.held('LANGMATCH', inst, fn.loc(d), 'created from m_defaultFeatures inside the language loop')
    if n < 2:
        run.broken('LANGMATCH', 'fresh copy per language', 'expected the two applyValToFeature calls of SillMap::readSill, found %d' % n, fn.where())


def applyval_exec(run, fx, rule='FAILATOMIC'):
    """FeatureRef::applyValToFeature by bounded execution (rules/ordint.py; graphite2::Vector's own code from List.h, as in rules/vecmodel.py):
    for every word index 0..2 of the feature, every destination of 0..3 words (capacity exact, so a store behind the last word is a store
    outside the block) with and without a map, and values up to and just above the maximum -- the call succeeds exactly when the value is
    at most the maximum and the map is this face's (or none yet); on success the destination has max(old size, index + 1) words, word
    `index` has the field replaced by the value, every other old word is untouched and every new word is zero; on failure the
    destination is unchanged."""
    from . import ordint as O
    from . import vecmodel as VM_
    fn = fx.one('graphite2::FeatureRef::applyValToFeature')
    FR, FV = 'graphite2::FeatureRef::', 'graphite2::FeatureVal::'
    rec = fx.record('graphite2::FeatureRef')
    inst = 'applyValToFeature: success, growth and the written word (interpreted)'
    cases = 0
    try:
        themap, other = O.Rec({'#map': 1}), O.Rec({'#map': 2})
        for idx in range(0, 3):
            for size in range(0, 4):
                for mapk in ('none', 'own', 'other'):
                    for bits, width in ((0, 2), (4, 3)):
                        mx = (1 << width) - 2
                        mask = ((1 << width) - 1) << bits
                        for val in (0, 1, mx, mx + 1, 0xFFFF):
                            old = [0x11111111 * (k + 1) & 0xFFFFFFFF for k in range(size)]
                            v, heap = VM_._mkvec(list(old), size)
                            v[FV + 'm_pMap'] = O.Ptr({'none': None, 'own': themap, 'other': other}[mapk])
                            fr = O.Rec()
                            for f in rec['fields']:
                                fr[FR + f['n']] = O.Ptr(None) if f.get('ptr') else 0
                            fr[FR + 'm_face'] = O.Ptr(O.Rec({'#face': 1}))
                            fr[FR + 'm_index'], fr[FR + 'm_bits'], fr[FR + 'm_mask'], fr[FR + 'm_max'] = idx, bits, mask, mx
                            nat = dict(VM_._natives(heap))
                            nat['graphite2::Face::theSill'] = lambda I, f, e, obj, a: O.Rec({'#sill': 1})
                            nat['graphite2::SillMap::theFeatureMap'] = lambda I, f, e, obj, a: O.LV([themap], 0)
                            it = O.Interp(fx, natives=nat)
                            it.raw_vectors = True
                            it.MAX_STEPS = 8000
                            desc = 'feature word %d, field %#x, max %d, value %d, destination of %d word(s), %s' % (idx, mask, mx, val, size, {'none': 'no map yet', 'own': 'this face\'s map', 'other': 'another face\'s map'}[mapk])
                            cases += 1
                            try:
                                r = it.call(fn, fr, [val, O.LV([v], 0)])
                                got = VM_._contents(v)
                            except O.Violation as ex:
                                run.violated(rule, inst, fn.where(), '%s: %s (%s)' % (desc, ex.what, ex.loc))
                                return
                            ok = val <= mx and mapk != 'other'
                            if bool(r) != ok:
                                run.violated(rule, inst, fn.where(), '%s: the call %s, expected it to %s' % (desc, 'succeeds' if r else 'fails', 'succeed' if ok else 'fail'))
                                return
                            want = list(old)
                            if ok:
                                want += [0] * max(0, idx + 1 - size)
                                want[idx] = (want[idx] & ~mask & 0xFFFFFFFF) | (val << bits)
                            got = [g & 0xFFFFFFFF if isinstance(g, int) else g for g in got]
                            if got != want:
                                run.violated(rule, inst, fn.where(), '%s: the destination is %s afterwards, expected %s' % (desc, [hex(g) if isinstance(g, int) else repr(g) for g in got], [hex(w) for w in want]))
                                return
    except AnalysisBroken as ex:
        run.broken(rule, inst, str(ex), fn.where())
        return
    run.held(rule, inst, fn.where(), '%d abstract executions' % cases)


def labelvalidate_exec(run, fx, rule='LABELENC'):
    """NameTable::getName hands a label to the converters only when utf16::validate accepts it: interpreted (rules/ordint.py) on every
    name string of 1..3 units over the classes the codec distinguishes.  A string is refused exactly when its LAST unit is a lead
    surrogate (a pair cut off by the length field); a label that ends in a complete pair, or in any other unit, is a valid label and
    must come through (gr_fref_label / gr_fref_value_label return NULL otherwise)."""
    import itertools
    from . import ordint as O
    keys = [k for k in fx.raw['functions'] if k.startswith('_ZN9graphite23utfItE8validate') and k.endswith('@NameTable.cpp')]
    if len(keys) != 1:
        run.broken(rule, 'a label ending in a complete surrogate pair is accepted', 'utf<uint16>::validate as instantiated in NameTable.cpp was not found')
        return
    fn = fx.fn(keys[0])
    units = (0x0041, 0xD7FF, 0xD800, 0xDBFF, 0xDC00, 0xDFFF, 0xE000, 0xFFFF)
    cases = 0
    inst = 'a label ending in a complete surrogate pair is accepted'
    try:
        for n in (1, 2, 3):
            for us in itertools.product(units, repeat=n):
                buf = O.Vec(list(us))
                it = O.Interp(fx)
                it.MAX_STEPS = 4000
                cases += 1
                try:
                    r = it.call(fn, None, [O.It(buf, 0), O.It(buf, n)])
                except O.Violation as v:
                    run.violated(rule, inst, fn.where(), 'units %s: %s (%s)' % (' '.join('%04X' % u for u in us), v.what, v.loc))
                    return
                want = not (0xD800 <= us[-1] <= 0xDBFF)
                if bool(r) != want:
                    run.violated(rule, inst, fn.where(), 'the %d-unit name string %s is %s by utf16::validate, expected it to be %s (only a lead surrogate in last place is a cut-off pair): '
                                 '%s' % (n, ' '.join('%04X' % u for u in us), 'accepted' if r else 'refused', 'accepted' if want else 'refused',
                                         'NameTable::getName returns no label for it in any encoding' if want else 'the converters run into the cut-off pair'))
                    return
    except AnalysisBroken as ex:
        run.broken(rule, inst, str(ex), fn.where())
        return
    run.held(rule, inst, fn.where(), '%d strings of 1..3 units' % cases)


def sillexec(run, fx):
    """LANGMATCH, the table side, by bounded execution: SillMap::readSill is interpreted on byte-addressed Sill tables (real big-endian bytes,
    be::read interpreted from Endian.h; bytes the format does not define are 0x7E) with 1..2 languages of 0..3
    settings each, laid out as the format says (12-byte header, 8-byte language entries, 8-byte settings: feature id, value, two
    reserved bytes).  Every language ends up with exactly its own settings applied, in order, followed by the language id on feature 1:
    "the font's defaults overridden by the Sill entry of that language"."""
    import itertools
    from . import ordint as O
    fn = fx.one('graphite2::SillMap::readSill')
    PSM, PLF, PFM = 'graphite2::SillMap::', 'graphite2::SillMap::LangFeaturePair::', 'graphite2::FeatureMap::'
    inst = 'readSill applies to every language exactly its own settings (interpreted)'
    POISON = 0x7E7E
    cases = 0
    try:
        for counts in itertools.chain(itertools.product(range(0, 4), repeat=1), [(2, 1), (1, 3), (3, 0), (0, 2), (0, 0, 1), ('share', 1, 2), ('share', 2, 2), ('share', 3, 1)]):
            share = bool(counts) and counts[0] == 'share'          # the languages' lists start at the same offset (one is a prefix of the other)
            if share:
                counts = counts[1:]
            nl = len(counts)
            cells = [0x7E] * (12 + 8 * nl + 8 * sum(counts) + 4)       # real bytes, big-endian; whatever the format does not define is 0x7E

            def put(off, val, w=4):
                for k_ in range(w):
                    cells[off + k_] = (val >> (8 * (w - 1 - k_))) & 0xFF
            put(0, 0x00010000)
            put(4, nl, 2)
            setoff = 12 + 8 * nl
            want = {}
            base_off = setoff
            for i, ns in enumerate(counts):
                lid = 0x6C610000 + i
                put(12 + 8 * i, lid)
                put(12 + 8 * i + 4, ns, 2)
                put(12 + 8 * i + 6, base_off if share else setoff, 2)
                want[lid] = []
                for j in range(ns):
                    fid = 100 + j if share else 100 + 10 * i + j
                    o_ = base_off + 8 * j if share else setoff
                    put(o_, fid)          # feature id
                    put(o_ + 4, 7 + j, 2)               # value
                    want[lid].append((fid, 7 + j))
                    if not share:
                        setoff += 8
                want[lid].append((1, lid))
            if share:
                setoff = base_off + 8 * max(counts)
            total = setoff
            vec = O.Vec(cells[:total])
            fm = O.Rec({PFM + 'm_numFeats': 5, PFM + 'm_defaultFeatures': O.Rec({'#defaults': 1})})
            sm = O.Rec({PSM + 'm_langFeats': O.Ptr(None), PSM + 'm_numLanguages': 0, PSM + 'm_FeatureMap': fm})

            def applyval(I, f, e, obj, a):
                feats = I.rv(a[1])
                feats.setdefault('#applied', []).append((obj['#feat'], I.rv(a[0])))
                return True
            nat = {'graphite2::Face::Table::Table': lambda I, f, e, obj, a: O.Rec({'#table': 'Sill'}),
                   'graphite2::TtfUtil::Tag::Tag': lambda I, f, e, obj, a: O.Rec(),
                   'graphite2::Face::Table::operator const unsigned char *': lambda I, f, e, obj, a, vec=vec: O.It(vec, 0),
                   'graphite2::Face::Table::size': lambda I, f, e, obj, a, total=total: total,
                   'graphite2::Face::Table::~Table': lambda I, f, e, obj, a: None,
                   'graphite2::FeatureVal::FeatureVal': lambda I, f, e, obj, a: O.Rec({'#applied': []}),
                   'graphite2::SillMap::LangFeaturePair::LangFeaturePair': lambda I, f, e, obj, a: O.Rec({PLF + 'm_lang': 0, PLF + 'm_pFeatures': O.Ptr(None)}),
                   'graphite2::FeatureMap::findFeatureRef': lambda I, f, e, obj, a: O.Ptr(O.Rec({'#feat': I.rv(a[0])})) if isinstance(I.rv(a[0]), int) and (I.rv(a[0]) == 1 or 100 <= I.rv(a[0]) < 200) else O.Ptr(None),
                   'graphite2::FeatureRef::applyValToFeature': applyval}
            it = O.Interp(fx, natives=nat)
            it.MAX_STEPS = 20000
            cases += 1
            desc = 'a Sill table with %d language(s) of %s setting(s)%s' % (nl, list(counts), ', all lists starting at the same offset' if share else '')
            try:
                r = it.call(fn, sm, [O.Rec({'#face': 1})])
            except O.Violation as v:
                run.violated('LANGMATCH', inst, fn.where(), '%s: %s (%s)' % (desc, v.what, v.loc))
                return
            if not r:
                run.violated('LANGMATCH', inst, fn.where(), '%s: readSill rejects the well-formed table' % desc)
                return
            lf = sm[PSM + 'm_langFeats']
            got = {}
            if isinstance(lf, O.It):
                for ent in lf.vec.items[:sm[PSM + 'm_numLanguages']]:
                    pf = ent[PLF + 'm_pFeatures']
                    got[ent[PLF + 'm_lang']] = list(pf.rec.get('#applied', [])) if isinstance(pf, O.Ptr) and pf.rec is not None else None
            if got != want:
                run.violated('LANGMATCH', inst, fn.where(), '%s: the per-language feature sets get %s, expected %s (feature id, value) -- a setting read from the wrong offset is ignored or misapplied, and '
                             'gr_face_featureval_for_lang no longer gives the font\'s defaults overridden by the language\'s entry' %
                             (desc, {('%X' % k): v for k, v in got.items()}, {('%X' % k): v for k, v in want.items()}))
                return
    except AnalysisBroken as ex:
        run.broken('LANGMATCH', inst, str(ex), fn.where())
        return
    run.held('LANGMATCH', inst, fn.where(), '%d abstract executions' % cases)


def perfeature(run, fx):
    """"a value is accepted ... up to the feature's maximum, any 16-bit value if it defines none": what FeatureMap::readFeats hands to
    the constructor of each FeatureRef BY VALUE is computed for that feature in that iteration of the loop over the Feat records: a local
    declared outside the loop reaches the construction only through an assignment made in the same iteration, on every path (the bit
    offset is handed over by reference and accumulates on purpose).  A maximum hoisted in front of the loop and reset only for features
    WITH settings gives a feature without settings the maximum of the one before it."""
    from .util import loop_bodies
    fn = fx.one('graphite2::FeatureMap::readFeats')
    inst = 'each FeatureRef is built from values computed for that feature'
    ctors = [e for _, e in fn.elements() if e['k'] in ('CXXConstructExpr', 'CXXTemporaryObjectExpr') and (e.get('fq') or '').endswith('FeatureRef::FeatureRef') and len(e.get('args') or e.get('c') or []) >= 6]
    lb = loop_bodies(fn)
    if len(ctors) != 1:
        run.broken('SETRANGE', inst, 'the FeatureRef construction of readFeats was not found (%d candidates)' % len(ctors), fn.where())
        return
    ce = ctors[0]
    cb = fn.block_of[ce['i']]
    loops = [(h, body) for h, body in lb.items() if cb in body]
    if not loops:
        run.broken('SETRANGE', inst, 'the FeatureRef construction is not inside a loop', fn.loc(ce))
        return
    h, body = min(loops, key=lambda x: len(x[1]))
    key = ce.get('fm')
    callee = fx.fn(key) if key in fx.raw['functions'] else None
    cps = (callee.f.get('params') or []) if callee else []
    args = ce.get('args') if ce.get('args') is not None else ce.get('c')
    n, bad = 0, None
    for j, a in enumerate(args or []):
        if a is None:
            continue
        x = fn.strip_all_casts(fn.N(a))
        if x['k'] != 'DeclRefExpr' or x.get('dk') != 'Var' or x.get('vid') is None:
            continue
        if j < len(cps) and (cps[j].get('t') or '').rstrip().endswith('&') and 'const' not in (cps[j].get('t') or ''):
            continue                    # handed over by reference: the callee advances it (the running bit offset)
        decl = [d for _, d in fn.elements() if d['k'] == 'DeclStmt' and any(y.get('vid') == x['vid'] for y in d.get('decls', []))]
        if not decl or fn.block_of[decl[0]['i']] in body:
            continue                    # declared per iteration
        n += 1
        asg = {fn.block_of[u['i']] for _, u in fn.elements() if u['k'] in ('BinaryOperator', 'CompoundAssignOperator') and u.get('op') == '=' and fn.strip(u['c'][0]).get('vid') == x['vid']
               and fn.block_of[u['i']] in body}
        # from the loop head to the construction, staying inside the body, without passing an assignment
        seen, todo, leak = set(), [h], False
        while todo:
            b_ = todo.pop()
            if b_ in seen or b_ not in body or b_ in asg:
                continue
            seen.add(b_)
            if b_ == cb:
                leak = True
                break
            todo += [s_ for s_ in fn.blocks[b_]['succ'] if s_ is not None]
        if leak:
            bad = bad or (x, decl[0])
    if bad:
        x, d = bad
        run.violated('SETRANGE', inst, fn.loc(ce), 'FeatureMap::readFeats builds a FeatureRef from `%s`, which is declared in front of the loop (%s) and is not assigned on every path of the iteration: a feature '
                     'for which that assignment is skipped is built with the value of the feature before it -- e.g. a feature without settings gets the previous feature\'s maximum instead of "any 16-bit value", '
                     'and the language id readSill stores in feature 1 is refused' % (fn.render(x), fn.loc(d)))
    else:
        run.held('SETRANGE', inst, fn.loc(ce), 'by-value arguments are per-iteration locals%s' % (' (%d declared outside, assigned on every path)' % n if n else ''))


def findref_exec(run, fx):
    """LANGMATCH / "a feature is found by the id the font gives it": FeatureMap::findFeatureRef is what readSill resolves the settings of
    a language with, by the ids as the Sill table spells them (tags coming in through the API are normalised before they get here, in
    gr_face_find_fref).  It is interpreted (rules/ordint.py) on maps of 1..4 features whose ids differ only in their padding -- numeric
    ids ending in 0x20, space- and zero-padded spellings of one tag -- sorted and unsorted: every id in the map finds its own feature,
    and an id that is not in the map finds none."""
    import itertools
    from . import ordint as O
    fn = fx.one('graphite2::FeatureMap::findFeatureRef')
    PM, PN = 'graphite2::FeatureMap::', 'graphite2::NameAndFeatureRef::'
    inst = 'findFeatureRef finds the feature with exactly that id (interpreted)'
    ids = (0x00000400, 0x00000420, 0x61622020, 0x61620000, 0x20202020, 0, 0x61626364, 1)
    cases = 0
    try:
        for n in (1, 2, 3, 4):
            for combo in itertools.permutations(ids, n) if n <= 2 else itertools.combinations(ids, n):
                refs = [O.Rec({'#feat': i_}) for i_ in combo]
                vec = O.Vec([O.Rec({PN + 'm_name': i_, PN + 'm_pFRef': O.Ptr(r_)}) for i_, r_ in zip(combo, refs)])
                fm = O.Rec({PM + 'm_numFeats': n, PM + 'm_pNamedFeats': O.It(vec, 0), PM + 'm_feats': O.Ptr(None)})
                for q in ids:
                    it = O.Interp(fx)
                    it.MAX_STEPS = 3000
                    cases += 1
                    r = it.call(fn, fm, [q])
                    got = r.rec['#feat'] if isinstance(r, O.Ptr) and r.rec is not None else None
                    want = q if q in combo else None
                    if got != want:
                        run.violated('LANGMATCH', inst, fn.where(), 'a feature map with the ids %s: findFeatureRef(%08X) finds %s, expected %s -- a language\'s setting in the Sill table is '
                                     'applied to another feature (or to none): gr_face_featureval_for_lang no longer returns the defaults overridden by that language\'s entry' %
                                     (['%08X' % i_ for i_ in combo], q, 'the feature %08X' % got if got is not None else 'nothing', 'the feature %08X' % want if want is not None else 'nothing'))
                        return
    except O.Violation as v:
        run.violated('LANGMATCH', inst, fn.where(), '%s (%s)' % (v.what, v.loc))
        return
    except O.AnalysisBroken as ex:
        run.broken('LANGMATCH', inst, str(ex), fn.where())
        return
    run.held('LANGMATCH', inst, fn.where(), '%d lookups' % cases)


def run(run):
    fx = run.facts('Q0')
    maskexec(run, fx)
    inoutlang(run, fx)
    langfresh(run, fx)
    sillexec(run, fx)
    findref_exec(run, fx)
    perfeature(run, fx)
    from . import c01 as c01n_
    from .util import OnlyRules as _OnlyN
    from . import c11 as c11n_
    c11n_.derefadvance(run, fx, 'LABELENC')            # a label is transcoded by iterators that are dereferenced before they are advanced (shared with C11)
    c01n_.namebound(_OnlyN(run, ['VALIDATOR'], {'VALIDATOR': 'LABELENC'}), fx)        # a label is built from bytes of the name table only (shared with C01)
    from . import ordint as O_
    cf_ = fx.one('graphite2::SillMap::cloneFeatures')
    inst_ = 'cloneFeatures finds the language in any table order (interpreted)'
    try:
        cases_, bad_ = langexec(run, fx)
        if bad_:
            run.violated('LANGMATCH', inst_, cf_.where(), bad_)
        else:
            run.held('LANGMATCH', inst_, cf_.where(), '%d abstract executions' % cases_)
    except O_.AnalysisBroken as ex:
        run.broken('LANGMATCH', inst_, str(ex), cf_.where())
    lenunit(run, fx)
    idorder(run, fx)
    failatomic(run, fx)
    nostraddle(run, fx)
    readguard(run, fx)
    nosettings(run, fx)
    settingzext(run, fx)
    clone(run, fx)
    langmatch(run, fx)
    indextests(run, fx)
    tagnorm.check(run, fx, 'TAGNORM')
    if not run.cfg_tag:
        run.cfg_tag = 'traceapi'         # the same with tracing compiled in, for the units that take tags (shared with C20)
        try:
            tagnorm.check(run, run.facts('traceapi'), 'TAGNORM')
        finally:
            run.cfg_tag = ''
    from . import vecmodel
    vecmodel.check(run, fx, 'FAILATOMIC')
    applyval_exec(run, fx)     # applyValToFeature grows the value vector with resize(): the words it appends must be zero, the others untouched
    from . import c11
    labelvalidate_exec(run, fx)
    c11.decodeexact(run, fx, 'LABELENC')     # 'labels ... identical in all three encodings': the converters between them are exact on a grid of scalar values (shared with C11)
    from . import c13
    c13.narrowread(run, fx)        # a language tag / feature id / setting read from Feat or Sill is not truncated on its way into the map (shared with C01, C13)


def langexec(run, fx):
    """LANGMATCH by bounded execution: SillMap::cloneFeatures is interpreted on every ORDER of up to 3 language entries (the Sill table is
    stored in file order; nothing sorts it) and every query -- each stored tag, tags below / between / above them, and 0: it returns a
    copy of the entry with that tag, and a copy of the font's defaults for any other tag."""
    import itertools
    from . import ordint as O
    fn = fx.one('graphite2::SillMap::cloneFeatures')
    PSM, PLF, PFM = 'graphite2::SillMap::', 'graphite2::SillMap::LangFeaturePair::', 'graphite2::FeatureMap::'
    tags = (5, 9, 13)
    cases = 0
    for n in range(0, 4):
        for perm in itertools.permutations(tags, n):
            for q in (0, 1, 5, 7, 9, 11, 13, 20):
                ents = O.Vec()
                for t in perm:
                    ents.items.append(O.Rec({PLF + 'm_lang': t, PLF + 'm_pFeatures': O.Ptr(O.Rec({'#id': 'lang %d' % t}))}))
                fm = O.Rec({PFM + 'm_defaultFeatures': O.Rec({'#id': 'defaults'})})
                sm = O.Rec({PSM + 'm_langFeats': O.It(ents, 0), PSM + 'm_numLanguages': n, PSM + 'm_FeatureMap': fm})
                it = O.Interp(fx)
                it.MAX_STEPS = 2000
                cases += 1
                desc = 'Sill entries in file order %s, language %d' % (list(perm), q)
                try:
                    r = it.call(fn, sm, [q])
                except O.Violation as v:
                    return cases, '%s: %s (%s)' % (desc, v.what, v.loc)
                got = r.rec.get('#id') if isinstance(r, O.Ptr) and r.rec is not None else None
                want = 'lang %d' % q if q in perm else 'defaults'
                if got != want:
                    return cases, '%s: gr_face_featureval_for_lang gets a copy of %s, expected %s' % (desc, got or 'nothing', want)
    return cases, None
