"""INLINE: a helper function that the frozen tables do not know (it was introduced after the pinned tree: `extract function`) is
spliced into the CFG facts of its callers, so that every rule sees the caller as it was before the extraction.

Only small, non-recursive helpers defined in the library are expanded (free / static functions, and member functions called on
`this`); parameters bound by reference must receive a plain variable, value parameters become locals of the caller, `return E`
becomes an assignment to a synthetic result local that stands where the call stood.  Anything else is left as a call."""

REF_LISTS = ('c', 'args', 'place')
REF_ONE = ('obj', 'init', 'asize', 'defarg', 'of', 'cond')
MAX_ELEMS = 80


def _map_refs(x, f):
    """apply f to every element reference (int) inside x, recursively"""
    if isinstance(x, dict):
        for k in REF_LISTS:
            if k in x and x[k]:
                x[k] = [f(v) if isinstance(v, int) and not isinstance(v, bool) else (_map_refs(v, f) or v) for v in x[k]]
        for k in REF_ONE:
            v = x.get(k)
            if isinstance(v, int) and not isinstance(v, bool):
                x[k] = f(v)
            elif isinstance(v, dict):
                _map_refs(v, f)
        if isinstance(x.get('condx'), dict):
            _map_refs(x['condx'], f)
        for d in x.get('decls') or []:
            if isinstance(d.get('init'), int) and not isinstance(d.get('init'), bool):
                d['init'] = f(d['init'])
            elif isinstance(d.get('init'), dict):
                _map_refs(d['init'], f)
    return x


def _walk_dicts(x):
    if isinstance(x, dict):
        yield x
        for v in x.values():
            if isinstance(v, (dict, list)):
                for y in _walk_dicts(v):
                    yield y
    elif isinstance(x, list):
        for v in x:
            if isinstance(v, (dict, list)):
                for y in _walk_dicts(v):
                    yield y


def _strip(elems, i):
    n = elems.get(i)
    for _ in range(8):
        if n is None:
            return None
        if (n['k'].endswith('CastExpr') or n['k'] in ('ParenExpr', 'MaterializeTemporaryExpr', 'ExprWithCleanups')) and n.get('c') and isinstance(n['c'][0], int):
            n = elems.get(n['c'][0])
            continue
        break
    return n


def _copy(x):
    import copy
    return copy.deepcopy(x)


def inline_call(F, bidx, pos, G):
    """splice G at the call F.blocks[bidx].el[pos]; returns True when done"""
    B = F['blocks'][bidx]
    call = B['el'][pos]
    elems = {e['i']: e for b in F['blocks'] for e in b['el']}
    gparams = G.get('params') or []
    args = [a for a in (call.get('args') or [])]
    if len(args) != len(gparams) or any(not isinstance(a, int) for a in args):
        return False
    if call['k'] == 'CXXMemberCallExpr':
        o = _strip(elems, call.get('obj')) if isinstance(call.get('obj'), int) else None
        if o is None or o['k'] != 'CXXThisExpr':
            return False
    gel = [e for b in G['blocks'] for e in b['el']]
    if len(gel) > MAX_ELEMS or any(e.get('fq') == G['q'] for e in gel):
        return False
    IO = max(elems) + 1 if elems else 0
    BO = max(b['id'] for b in F['blocks']) + 1
    vids = [d.get('vid') for d in _walk_dicts(F['blocks']) if isinstance(d.get('vid'), int)] + [p.get('vid') for p in F.get('params') or []]
    VO = (max([v for v in vids if v is not None]) + 1) if vids else 0
    gmax_i = max([e['i'] for e in gel]) if gel else 0
    gmax_b = max(b['id'] for b in G['blocks'])
    gvids = [d.get('vid') for d in _walk_dicts(G['blocks']) if isinstance(d.get('vid'), int)] + [p['vid'] for p in gparams]
    gmax_v = max(gvids) if gvids else 0
    # parameter binding
    alias, byval = {}, []
    for p, a in zip(gparams, args):
        t = (p.get('t') or '')
        an = _strip(elems, a)
        if t.endswith('&'):
            if an is not None and an['k'] == 'DeclRefExpr' and an.get('vid') is not None:
                alias[p['vid']] = an
            else:
                byval.append((p, a))         # bound to an lvalue expression (`*feats`, a member): a reference local `T & p = <argument>` in the caller
        else:
            byval.append((p, a))
    nb = [_copy(b) for b in G['blocks']]
    ret_vid = VO + gmax_v + 1
    ret_name = '__ret_' + G['q'].split('::')[-1]
    ret_t = G.get('ret') or 'void'
    nxt = [IO + gmax_i + 1]

    def fresh():
        nxt[0] += 1
        return nxt[0] - 1
    B2_id = BO + gmax_b + 1
    for b in nb:
        b['id'] += BO
        b['succ'] = [s + BO if s is not None else None for s in b['succ']]
        if 'term' in b:
            _map_refs(b['term'], lambda v: v + IO)
        new_el = []
        for e in b['el']:
            e['i'] += IO
            e.setdefault('site', '%s:%s' % (call.get('ln'), call.get('col')))       # where the helper was called from
            _map_refs(e, lambda v: v + IO)
            for d in _walk_dicts(e):
                if isinstance(d.get('vid'), int):
                    if d['vid'] in alias and d.get('k') == 'DeclRefExpr':
                        a_ = alias[d['vid']]
                        d['vid'], d['d'] = a_['vid'], a_['d']
                        for kk in ('dk', 'dt', 'pi'):
                            if kk in a_:
                                d[kk] = a_[kk]
                            elif kk in d:
                                del d[kk]
                    else:
                        d['vid'] += VO
                        if 'pi' in d:
                            del d['pi']
                            d['dk'] = 'Var'
            if e['k'] == 'ReturnStmt':
                if e.get('c') and ret_t != 'void':
                    r = fresh()
                    new_el.append({'k': 'DeclRefExpr', 'i': r, 'vid': ret_vid, 'd': ret_name, 'dk': 'Var', 'lv': True, 't': ret_t, 'ln': e.get('ln'), 'col': e.get('col')})
                    new_el.append({'k': 'BinaryOperator', 'op': '=', 'i': e['i'], 'c': [r, e['c'][0]], 't': ret_t, 'lv': True, 'ln': e.get('ln'), 'col': e.get('col'),
                                   'inlined_return': True})
                else:
                    new_el.append({'k': 'NullStmt', 'i': e['i'], 'ln': e.get('ln'), 'col': e.get('col')})
                continue
            new_el.append(e)
        b['el'] = new_el
    g_entry, g_exit = G['entry'] + BO, G['exit'] + BO
    for b in nb:
        if b['id'] == g_exit:
            b['succ'] = [B2_id]
    # split the caller block
    pre, post = B['el'][:pos], B['el'][pos + 1:]
    syn = []
    if ret_t != 'void':
        syn.append({'k': 'DeclStmt', 'i': fresh(), 'ln': call.get('ln'), 'col': call.get('col'),
                    'decls': [{'dk': 'Var', 'n': ret_name, 't': ret_t, 'vid': ret_vid}]})
    for p, a in byval:
        syn.append({'k': 'DeclStmt', 'i': fresh(), 'ln': call.get('ln'), 'col': call.get('col'),
                    'decls': [{'dk': 'Var', 'n': p['n'], 't': p.get('t'), 'vid': p['vid'] + VO, 'init': a, 'const': (p.get('t') or '').startswith('const ') or (p.get('t') or '').endswith(' const')}]})
    if ret_t != 'void':
        r = fresh()
        repl = [{'k': 'DeclRefExpr', 'i': r, 'vid': ret_vid, 'd': ret_name, 'dk': 'Var', 'lv': True, 't': ret_t, 'ln': call.get('ln'), 'col': call.get('col')},
                {'k': 'ImplicitCastExpr', 'ck': 'LValueToRValue', 'i': call['i'], 'c': [r], 't': ret_t, 'ln': call.get('ln'), 'col': call.get('col'), 'inlined_call': G['q']}]
    else:
        repl = [{'k': 'NullStmt', 'i': call['i'], 'ln': call.get('ln'), 'col': call.get('col'), 'inlined_call': G['q']}]
    B2 = {'id': B2_id, 'el': repl + post, 'succ': B['succ']}
    if 'term' in B:
        B2['term'] = B.pop('term')
    B['el'] = pre + syn
    B['succ'] = [g_entry]
    F['blocks'] = F['blocks'][:bidx + 1] + nb + [B2] + F['blocks'][bidx + 1:]
    return True


def new_helpers(merged, known_q):
    if '_new_q' in merged:
        return merged['_new_q'], merged['_by_q']
    by_q = {}
    for k, f in merged['functions'].items():
        by_q.setdefault(f['q'], []).append(k)
    new_q = {q for q in by_q if q not in known_q and all((merged['functions'][k].get('file') or '').startswith('src/') and merged['functions'][k].get('blocks')
                                                          for k in by_q[q])}
    new_q = {q for q in new_q if len({(merged['functions'][k].get('file'), merged['functions'][k].get('sig'), merged['functions'][k].get('l0')) for k in by_q[q]}) == 1
             and 'operator' not in q.split('::')[-1]
             and not q.split('::')[-1].startswith('~')}
    merged['_new_q'], merged['_by_q'] = new_q, by_q
    return new_q, by_q


def inlined_copy(merged, F, known_q):
    """a copy of function facts F with the calls of new helpers expanded (the original stays as it is); (copy, [helpers])"""
    new_q, by_q = new_helpers(merged, known_q)
    done = []
    if not new_q or not F.get('blocks'):
        return F, done
    F = _copy(F)
    progress = True
    while progress and len(done) < 12:
        progress = False
        for bi, b in enumerate(F['blocks']):
            for pi, e in enumerate(b['el']):
                if e.get('k') in ('CallExpr', 'CXXMemberCallExpr') and e.get('fq') in new_q and e['fq'] != F['q']:
                    G = merged['functions'][by_q[e['fq']][0]]
                    if inline_call(F, bi, pi, G):
                        done.append(e['fq'])
                        progress = True
                        break
            if progress:
                break
    return F, done
