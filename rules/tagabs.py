"""Bounded abstract interpretation of the two tag/string conversion functions when they are written
with loops (the straight-line / switch forms are handled directly in c20.py).

Domain: integer locals hold constants; the 32-bit tag is a vector of four symbolic byte lanes that
shifts by multiples of 8 move around; the string pointer is `str + k`; for the input string the set
NZ of offsets proved non-NUL by a branch on `str[j]` / `*str` is tracked, and a read at offset j is
in bounds iff offsets 0..j-1 are all in NZ (then j <= strlen).  Conditions on constants are decided,
conditions on a lane vector / an input byte fork.  Loops are unrolled (each block at most 8 times per
path); a path that would need more is `broken`.  Nothing is executed: every path is a symbolic one.
"""
from .cfg import int_type
from .facts import AnalysisBroken


class St:
    def __init__(self):
        self.env = {}        # vid -> ('int', c) | ('vec', lanes) | ('ptr', off) | ('byte', j, zext?) | ('acc', {j: shift}, flags)
        self.nz = set()      # offsets of the input string known non-NUL
        self.end = None      # offset known to hold the NUL
        self.stores = {}     # buffer offset -> value descr
        self.reads = []      # (offset, ok, loc)
        self.notes = []

    def clone(self):
        n = St()
        n.env = dict(self.env)
        n.nz = set(self.nz)
        n.end = self.end
        n.stores = dict(self.stores)
        n.reads = list(self.reads)
        n.notes = list(self.notes)
        return n


class TagAbs:
    def __init__(self, fn, mode):
        self.fn = fn
        self.mode = mode           # 'write' (gr_tag_to_str) or 'read' (gr_str_to_tag)
        self.paths = []
        ps = fn.f['params']
        if mode == 'write':
            self.v_tag, self.v_str = ps[0]['vid'], ps[1]['vid']
        else:
            self.v_str = ps[0]['vid']
            self.v_tag = None

    def run(self):
        uses_strlen = self.mode == 'read' and any(e['k'] == 'CallExpr' and (e.get('fq') or '').split('::')[-1] == 'strlen' for _, e in self.fn.elements())
        # strlen(str): the analysis is repeated under each assumption strlen == 0, 1, 2, 3 and strlen >= 4 (which fixes which
        # offsets are known to be non-NUL)
        for k in (range(5) if uses_strlen else (None,)):
            st = St()
            self.len_assume = k
            if self.mode == 'write':
                st.env[self.v_tag] = ('vec', (('b', 3), ('b', 2), ('b', 1), ('b', 0)))
            st.env[self.v_str] = ('ptr', 0)
            if k is not None:
                st.nz = set(range(k))
                st.end = k if k < 4 else None
            self._go(self.fn.entry, st, {}, {})
        return self.paths

    def _go(self, b, st, val, visits):
        fn = self.fn
        while True:
            visits = dict(visits)
            visits[b] = visits.get(b, 0) + 1
            if visits[b] > 8:
                raise AnalysisBroken('%s: a loop needs more than 8 iterations in the abstract interpreter' % fn.q)
            if len(self.paths) > 512:
                raise AnalysisBroken('%s: too many abstract paths' % fn.q)
            blk = fn.blocks[b]
            for e in blk['el']:
                if self._ev(e, st, val) == 'ret':
                    self.paths.append(st)
                    return
            succ = blk['succ']
            if b == fn.exit or not succ:
                self.paths.append(st)
                return
            if len(succ) == 1:
                if succ[0] is None:
                    return
                b = succ[0]
                continue
            cond = (blk.get('term') or {}).get('cond')
            cv = val.get(cond) if cond is not None else None
            dec = self._decide(cv, st)
            for idx, pol in ((0, True), (1, False)):
                if succ[idx] is None:
                    continue
                if dec is not None and dec != pol:
                    continue
                s2 = st.clone()
                self._assume(cv, pol, s2)
                self._go(succ[idx], s2, dict(val), visits)
            return

    def _decide(self, cv, st):
        if cv is None:
            return None
        if cv[0] == 'int':
            return cv[1] != 0
        if cv[0] == 'bool':
            return cv[1]
        if cv[0] == 'vec':
            return False if all(l == 0 for l in cv[1]) else None
        if cv[0] == 'byte':
            j = cv[1]
            if j in st.nz:
                return True
            if st.end == j:
                return False
            return None
        if cv[0] == 'not':
            d = self._decide(cv[1], st)
            return None if d is None else (not d)
        if cv[0] == 'and':
            a, b = self._decide(cv[1], st), self._decide(cv[2], st)
            if a is False or b is False:
                return False
            if a is True and b is True:
                return True
            return None
        if cv[0] == 'ptrnull':
            return None
        return None

    def _assume(self, cv, pol, st):
        if cv is None:
            return
        if cv[0] == 'byte':
            if pol:
                st.nz.add(cv[1])
            else:
                st.end = cv[1]
        elif cv[0] == 'not':
            self._assume(cv[1], not pol, st)
        elif cv[0] == 'and' and pol:
            self._assume(cv[1], True, st)
            self._assume(cv[2], True, st)
        elif cv[0] == 'vec' and not pol:
            st.notes.append('tag-remaining-zero')
        elif cv[0] == 'ptrnull':
            st.notes.append('null' if pol == cv[1] else 'nonnull')

    def _ev(self, e, st, val):
        fn = self.fn
        k, i = e['k'], e['i']
        c = e.get('c') or []

        def V(x):
            return val.get(x) if isinstance(x, int) else (('int', fn.N(x)['v']) if fn.N(x).get('v') is not None else None)
        if e.get('v') is not None and not e.get('lv') and k not in ('DeclStmt',):
            val[i] = ('int', e['v'])
            return
        if k == 'DeclRefExpr':
            val[i] = ('int', e['v']) if (e.get('v') is not None and e.get('vid') is None) else ('lv', e.get('vid'))
            return
        if k in ('ParenExpr', 'ExprWithCleanups'):
            val[i] = V(c[0])
            return
        if k.endswith('CastExpr'):
            ck = e.get('ck')
            s = V(c[0])
            if ck == 'LValueToRValue':
                if s and s[0] == 'lv':
                    val[i] = st.env.get(s[1])
                elif s and s[0] == 'cell':
                    val[i] = self._read(s[1], st, fn.loc(e), fn.N(c[0]).get('t'))
                else:
                    val[i] = s
            elif ck in ('IntegralCast', 'NoOp'):
                ft, tt = int_type(fn.N(c[0]).get('t')), int_type(e.get('t'))
                if s and s[0] == 'byte' and ft and tt and tt[0] > ft[0] and s[2] is None:
                    s = ('byte', s[1], not ft[1])         # widening decides zero- vs sign-extension
                if s and s[0] == 'byte' and ft and tt and tt[0] == ft[0] and s[2] is None and not tt[1]:
                    s = ('byte', s[1], None, True)        # became an unsigned 8-bit type first
                if s and s[0] == 'byte' and len(s) == 4 and tt and ft and tt[0] > ft[0]:
                    s = ('byte', s[1], True)
                if s and s[0] == 'vec' and tt and tt[0] == 8:
                    s = ('lane', s[1][3])
                val[i] = s
            elif ck in ('IntegralToBoolean', 'PointerToBoolean'):
                if s and s[0] == 'ptr':
                    val[i] = ('ptrnull', False)
                else:
                    val[i] = s
            else:
                val[i] = s
            return
        if k == 'UnaryOperator':
            op = e['op']
            s = V(c[0])
            if op in ('post++', 'pre++', 'post--', 'pre--') and s and s[0] == 'lv':
                cur = st.env.get(s[1])
                d = 1 if '++' in op else -1
                if cur and cur[0] == 'ptr':
                    st.env[s[1]] = ('ptr', cur[1] + d)
                    val[i] = cur if op.startswith('post') else ('lv', s[1])
                elif cur and cur[0] == 'int':
                    st.env[s[1]] = ('int', cur[1] + d)
                    val[i] = cur if op.startswith('post') else ('lv', s[1])
                else:
                    raise AnalysisBroken('%s: increment of an untracked value at %s' % (fn.q, fn.loc(e)))
                return
            if op == '*':
                p = s
                if p and p[0] == 'lv':
                    p = st.env.get(p[1])
                if p and p[0] == 'ptr':
                    val[i] = ('cell', p[1])
                else:
                    raise AnalysisBroken('%s: dereference of an untracked pointer at %s' % (fn.q, fn.loc(e)))
                return
            if op == '!':
                val[i] = ('not', s)
                return
            if op == '-' and s and s[0] == 'int':
                val[i] = ('int', -s[1])
                return
            val[i] = None
            return
        if k == 'ConditionalOperator' and len(c) == 3:
            # only the arm evaluated on this path has a value
            arms = [x for x in (c[1], c[2]) if isinstance(x, int) and x in val]
            v_ = val.get(arms[-1]) if len(arms) >= 1 else None
            if v_ and v_[0] == 'lv':
                v_ = st.env.get(v_[1])
            val[i] = v_
            return
        if k == 'ArraySubscriptExpr':
            p, ix = V(c[0]), V(c[1])
            if ix and ix[0] == 'lv':
                ix = st.env.get(ix[1])
            if p and p[0] == 'lv':
                p = st.env.get(p[1])
            if p and p[0] == 'ptr' and ix and ix[0] == 'int':
                val[i] = ('cell', p[1] + ix[1])
            else:
                raise AnalysisBroken('%s: subscript that is not str[constant] at %s' % (fn.q, fn.loc(e)))
            return
        if k == 'DeclStmt':
            for d in e['decls']:
                if d.get('dk') == 'Var' and d.get('init') is not None:
                    st.env[d['vid']] = V(d['init'])
            return
        if k in ('BinaryOperator', 'CompoundAssignOperator'):
            op = e['op']
            a, b = V(c[0]), V(c[1])
            if op == '=':
                self._assign(a, b, st, fn.loc(e))
                val[i] = a
                return
            if op == '&&':
                val[i] = ('and', a, b if b is not None else ('bool', True))
                return
            if op == ',':
                val[i] = b
                return
            base = op[:-1] if k == 'CompoundAssignOperator' else op
            la = a
            if k == 'CompoundAssignOperator':
                la = st.env.get(a[1]) if a and a[0] == 'lv' else (self._read(a[1], st, fn.loc(e), None) if a and a[0] == 'cell' else None)
            r = self._arith(base, la, b, e, st)
            if k == 'CompoundAssignOperator':
                self._assign(a, r, st, fn.loc(e))
                val[i] = a
            else:
                val[i] = r
            return
        if k == 'ReturnStmt':
            st.ret = V(c[0]) if c else None
            if st.ret and st.ret[0] == 'lv':
                st.ret = st.env.get(st.ret[1])
            return 'ret'
        if k == 'CallExpr' and (e.get('fq') or '').split('::')[-1] == 'strlen' and getattr(self, 'len_assume', None) is not None:
            a0 = V(e['args'][0]) if e.get('args') else None
            if a0 and a0[0] == 'lv':
                a0 = st.env.get(a0[1])
            if a0 == ('ptr', 0):
                val[i] = ('int', self.len_assume) if self.len_assume < 4 else ('len4',)
                return
        if k == 'CallExpr' and (e.get('fq') or '').split('::')[-1] in ('min', 'max') and len(e.get('args') or []) == 2:
            a_, b_ = V(e['args'][0]), V(e['args'][1])
            for x_ in ('a_', 'b_'):
                pass
            if a_ and a_[0] == 'lv':
                a_ = st.env.get(a_[1])
            if b_ and b_[0] == 'lv':
                b_ = st.env.get(b_[1])
            isn = (e['fq'].split('::')[-1] == 'min')
            if a_ and b_ and a_[0] == 'int' and b_[0] == 'int':
                val[i] = ('int', min(a_[1], b_[1]) if isn else max(a_[1], b_[1]))
                return
            for p_, q_ in ((a_, b_), (b_, a_)):
                if p_ == ('len4',) and q_ and q_[0] == 'int' and q_[1] <= 4:
                    val[i] = ('int', q_[1]) if isn else ('len4',)
                    return
        if k in ('CallExpr',):
            raise AnalysisBroken('%s: call to %s inside a loop-form tag function (unknown shape)' % (fn.q, e.get('fq')))
        val[i] = None

    def _read(self, off, st, loc, ty):
        if self.mode == 'read':
            ok = all(j in st.nz for j in range(off)) and off >= 0
            st.reads.append((off, ok, loc))
            return ('byte', off, None)
        raise AnalysisBroken('%s: read through the output buffer at %s' % (self.fn.q, loc))

    def _assign(self, lv, v, st, loc):
        if lv is None:
            return
        if lv[0] == 'lv':
            st.env[lv[1]] = v
        elif lv[0] == 'cell':
            if self.mode == 'write':
                st.stores.setdefault(lv[1], []).append((v, loc))
            else:
                raise AnalysisBroken('%s: store through the input string at %s' % (self.fn.q, loc))

    def _arith(self, op, a, b, e, st):
        fn = self.fn
        # strlen(str) >= 4, compared with a small constant
        for x_, y_, flip in ((a, b, False), (b, a, True)):
            if x_ == ('len4',) and y_ and y_[0] == 'int' and op in ('<', '<=', '>', '>=', '==', '!='):
                o = {'<': '>', '>': '<', '<=': '>=', '>=': '<='}.get(op, op) if flip else op
                c_ = y_[1]
                if o == '<' and c_ <= 4:
                    return ('bool', False)
                if o == '<=' and c_ < 4:
                    return ('bool', False)
                if o == '>=' and c_ <= 4:
                    return ('bool', True)
                if o == '>' and c_ < 4:
                    return ('bool', True)
                if o == '==' and c_ < 4:
                    return ('bool', False)
                if o == '!=' and c_ < 4:
                    return ('bool', True)
                raise AnalysisBroken('%s: strlen(str) compared with %d: undecided for strings of 4 or more characters' % (fn.q, c_))
        if a and b and a[0] == 'int' and b[0] == 'int':
            f = {'+': lambda x, y: x + y, '-': lambda x, y: x - y, '*': lambda x, y: x * y, '<<': lambda x, y: x << y, '>>': lambda x, y: x >> y,
                 '&': lambda x, y: x & y, '|': lambda x, y: x | y,
                 '<': lambda x, y: x < y, '>': lambda x, y: x > y, '<=': lambda x, y: x <= y, '>=': lambda x, y: x >= y,
                 '==': lambda x, y: x == y, '!=': lambda x, y: x != y}.get(op)
            if f is None:
                return None
            r = f(a[1], b[1])
            return ('bool', r) if isinstance(r, bool) else ('int', r)
        if a and a[0] == 'vec' and b and b[0] == 'int' and op in ('<<', '>>') and b[1] % 8 == 0 and 0 <= b[1] <= 32:
            n = b[1] // 8
            lanes = list(a[1])
            if op == '<<':
                lanes = lanes[n:] + [0] * n
            else:
                lanes = [0] * n + lanes[:4 - n]
            return ('vec', tuple(lanes))
        if a and a[0] == 'vec' and b and b[0] == 'int' and op == '&' and b[1] == 0xff:
            return ('lane', a[1][3])
        if a and a[0] == 'ptr' and b and b[0] == 'int' and op in ('+', '-'):
            return ('ptr', a[1] + (b[1] if op == '+' else -b[1]))
        if op == '<<' and a and a[0] == 'byte' and b and b[0] == 'int':
            return ('term', a[1], b[1], a[2] if len(a) == 3 else True)
        if op == '|' and (a is None or a[0] in ('int', 'acc', 'term', 'byte')) and b and b[0] in ('term', 'byte', 'acc'):
            acc = dict(a[1]) if a and a[0] == 'acc' else {}
            flags = dict(a[2]) if a and a[0] == 'acc' else {}
            for t in (a, b):
                if t and t[0] == 'term':
                    acc[t[1]] = t[2]
                    flags[t[1]] = t[3]
                elif t and t[0] == 'byte':
                    acc[t[1]] = 0
                    flags[t[1]] = t[2] if len(t) == 3 else True
                elif t and t[0] == 'acc' and t is b:
                    acc.update(t[1])
                    flags.update(t[2])
            return ('acc', acc, flags)
        return None
