"""ORD engine for interval code: an abstract interpreter over the exported CFGs whose value domain is the *order type*
of the floating-point coordinates involved.

Why this is an abstract interpretation and not a test: `Zones::insert/remove` and their helpers never do arithmetic on
the interval end points -- they compare them, take min/max, copy them, and (in `outcode`) compare a difference with the
constant 0.  A function with that discipline cannot distinguish two inputs with the same weak ordering of their
coordinates, so its behaviour on ALL real inputs is determined by its behaviour on one representative per order type.
The interpreter enforces the discipline itself: a coordinate is a tagged value `Co`; the only operations defined on it are
comparison with another coordinate, subtraction of two coordinates giving a `Df` (difference) that may only be compared
with the literal 0, min/max/select/copy.  Any other use (addition, multiplication, comparison of a difference with a
non-zero value, conversion to int) raises AnalysisBroken -- the order-type argument would no longer be sound, and the rule
says so instead of guessing.  Weights (`c`, `sm`, `smx`) are multisets of symbolic tags: `+=` is multiset union, nothing
else is defined on them.  Other floats (costs, the quotient in test_position) are `Op` (opaque): every comparison on an
opaque value is a non-deterministic choice, explored both ways.

Nothing of Graphite2 is compiled or executed: the interpreter walks the clang CFG elements exported by grfacts from /repo's
current source (three-address typed expressions), inlining callees from their own facts; only `graphite2::Vector<T>`'s
begin/end/insert/erase/size/operator[]/push_back/clear/front are modelled natively (as a Python list with index iterators,
where a stale `end()` snapshot stays stale, exactly like the pointer it stands for).
"""
from .facts import AnalysisBroken


class Violation(Exception):
    def __init__(self, what, loc):
        Exception.__init__(self, what)
        self.what = what
        self.loc = loc


class Co:
    """a coordinate, known only through its position in the order type (a rational representative)"""
    __slots__ = ('v',)

    def __init__(self, v):
        self.v = v

    def __repr__(self):
        return 'Co(%s)' % self.v


class Df:
    """difference of two coordinates: only its sign may be observed"""
    __slots__ = ('v',)

    def __init__(self, v):
        self.v = v


class W:
    """a weight: multiset of symbolic contributions"""
    __slots__ = ('tags',)

    def __init__(self, tags):
        self.tags = tuple(sorted(tags))

    def __repr__(self):
        return 'W%s' % (self.tags,)


class Op:
    """an opaque float (cost, quotient); `kind` carries what little is tracked: 'max' = FLT_MAX sentinel, 'ltmax' = known < FLT_MAX"""
    __slots__ = ('kind', 'facts')

    def __init__(self, kind='any'):
        self.kind = kind
        self.facts = []          # ('>=' | '<=', representative) learned from comparisons with coordinates

    def __repr__(self):
        return 'Op(%s)' % self.kind


class Lz:
    """an unknown integer (a byte / code unit of the input) that is only ever compared with constants: it takes, lazily and
    non-deterministically, one representative of each class of the partition those constants induce"""
    __slots__ = ('cands', 'v')

    def __init__(self, cands):
        self.cands = cands
        self.v = None

    def __repr__(self):
        return 'Lz(%s)' % (self.v,)


class Rec(dict):
    """an object: field (qualified name) -> value; identity matters"""
    __hash__ = object.__hash__

    def __eq__(self, o):
        return self is o


class _Undef:
    """a cell of a local array that was declared without an initialiser and not written since"""
    def __repr__(self):
        return 'UNDEF'


UNDEF = _Undef()


class Vec:
    def __init__(self, items=None):
        self.items = items or []
        self.gen = 0                 # bumped by every operation that may move the storage (insert, push_back, reserve, clear)


class It:
    """pointer into a Vec (index may be out of range until it is dereferenced); `gen` is the storage generation it was taken
    from: graphite2::Vector::insert/push_back may realloc, after which every earlier pointer dangles"""
    __slots__ = ('vec', 'idx', 'gen')

    def __init__(self, vec, idx, gen=None):
        self.vec, self.idx = vec, idx
        self.gen = vec.gen if gen is None else gen


class Ptr:
    """pointer to one object"""
    __slots__ = ('rec',)

    def __init__(self, rec):
        self.rec = rec


class EndPtr(Ptr):
    """one past the end of the table that starts at `rec`: `end - start` is the table's byte length"""
    __slots__ = ('size',)

    def __init__(self, rec, size):
        self.rec, self.size = rec, size


class LV:
    __slots__ = ('box', 'key', 'it')

    def __init__(self, box, key, it=None):
        self.box, self.key, self.it = box, key, it

    def load(self):
        return self.box[self.key]

    def store(self, v):
        self.box[self.key] = v


class PtrLV:
    """pointer to one scalar cell (the address of a local: `&rangeKey`)"""
    __slots__ = ('lv',)

    def __init__(self, lv):
        self.lv = lv


class Poly:
    """a float quantity as an exact polynomial over named symbolic inputs (rational coefficients): what a positioning function computes
    from its inputs, whatever their values.  Comparisons of a non-constant polynomial are explored both ways (memoised per run)."""
    __slots__ = ('t',)

    def __init__(self, t=None):
        self.t = {k: v for k, v in (t or {}).items() if v}

    @staticmethod
    def sym(name):
        from fractions import Fraction
        return Poly({(name,): Fraction(1)})

    @staticmethod
    def of(x):
        from fractions import Fraction
        if isinstance(x, Poly):
            return x
        return Poly({(): Fraction(x)})

    def __add__(self, o):
        o = Poly.of(o)
        t = dict(self.t)
        for k, v in o.t.items():
            t[k] = t.get(k, 0) + v
        return Poly(t)

    def __neg__(self):
        return Poly({k: -v for k, v in self.t.items()})

    def __sub__(self, o):
        return self + (-Poly.of(o))

    def __mul__(self, o):
        o = Poly.of(o)
        t = {}
        for k1, v1 in self.t.items():
            for k2, v2 in o.t.items():
                k = tuple(sorted(k1 + k2))
                t[k] = t.get(k, 0) + v1 * v2
        return Poly(t)

    def const(self):
        """the number, when the polynomial is one"""
        if not self.t:
            return 0
        if list(self.t) == [()]:
            return self.t[()]
        return None

    def key(self):
        return tuple(sorted(self.t.items()))

    def __eq__(self, o):
        return isinstance(o, (Poly, int, float)) and self.key() == Poly.of(o).key()

    def __ne__(self, o):
        return not self == o

    def __hash__(self):
        return hash(self.key())

    def __repr__(self):
        if not self.t:
            return '0'
        out = []
        for k, v in sorted(self.t.items()):
            c = ('%s' % v) if v.denominator != 1 else '%d' % v
            out.append((c + '*' if (c != '1' or not k) and k else (c if not k else '')) + '*'.join(k))
        return ' + '.join(out).replace('+ -', '- ')


class Fnref:
    def __init__(self, e):
        self.e = e


class Chooser:
    """replayable non-determinism: depth-first enumeration of all choice sequences"""

    def __init__(self):
        self.prefix = []
        self.trace = []
        self.pos = 0

    def start(self):
        self.trace = []
        self.pos = 0

    def choose(self, n):
        if n <= 1:
            return 0
        if self.pos < len(self.prefix):
            c = self.prefix[self.pos]
        else:
            c = 0
        self.trace.append((c, n))
        self.pos += 1
        return c

    def advance(self):
        """prepare the next sequence; False when exhausted"""
        t = self.trace
        while t and t[-1][0] + 1 >= t[-1][1]:
            t.pop()
        if not t:
            return False
        self.prefix = [c for c, _ in t[:-1]] + [t[-1][0] + 1]
        return True


def copy_rec(r):
    n = Rec()
    for k, v in r.items():
        n[k] = v
    return n


class Interp:
    MAX_STEPS = 20000

    def __init__(self, fx, chooser=None, natives=None, opaque_fields=()):
        self.fx = fx
        self.ch = chooser or Chooser()
        self.natives = natives or {}
        self.steps = 0
        self.derefs = 0
        self.trace_calls = []
        self.read_log = None         # set to [] to record every (vector, index) that is dereferenced

    # ---- helpers ---------------------------------------------------------------------------------
    def broken(self, fn, e, why):
        raise AnalysisBroken('%s at %s: %s' % (fn.q, fn.loc(e), why))

    def fresh(self, it, fn, e, what):
        if it.gen != it.vec.gen:
            raise Violation('%s through an iterator taken before an insertion that may have moved the vector\'s storage (dangling after realloc)' % what, fn.loc(e))

    def deref_it(self, it, fn, e):
        if not isinstance(it, It):
            self.broken(fn, e, 'dereference of something that is not a vector iterator')
        self.fresh(it, fn, e, 'access')
        if not (0 <= it.idx < len(it.vec.items)):
            raise Violation('an iterator is dereferenced outside [begin, end): index %d of %d' % (it.idx, len(it.vec.items)), fn.loc(e))
        self.derefs += 1
        if self.read_log is not None:
            self.read_log.append((it.vec, it.idx))
        return LV(it.vec.items, it.idx, it)

    def truth(self, v, fn, e):
        if isinstance(v, bool):
            return v
        if isinstance(v, int):
            return v != 0
        if isinstance(v, Op):
            return self.ch.choose(2) == 0
        if isinstance(v, Lz):
            if v.v is None:
                v.v = v.cands[self.ch.choose(len(v.cands))]          # `while (n && usv)`: an input unit used as a truth value is compared with 0
            return v.v != 0
        if isinstance(v, Ptr):
            return v.rec is not None
        if isinstance(v, (It, PtrLV)):
            return True
        if v is None:
            self.broken(fn, e, 'condition without a value')
        self.broken(fn, e, 'condition on a %s' % type(v).__name__)

    def compare(self, op, a, b, fn, e):
        if isinstance(a, bool):
            a = int(a)
        if isinstance(b, bool):
            b = int(b)
        for z in (a, b):
            if isinstance(z, Lz) and z.v is None:
                z.v = z.cands[self.ch.choose(len(z.cands))]
        if isinstance(a, Lz):
            a = a.v
        if isinstance(b, Lz):
            b = b.v
        if isinstance(a, Poly) or isinstance(b, Poly):
            if not isinstance(a, (Poly, int, float)) or not isinstance(b, (Poly, int, float)):
                self.broken(fn, e, 'comparison %s of %s and %s' % (op, type(a).__name__, type(b).__name__))
            d = Poly.of(a) - Poly.of(b)
            x = d.const()
            if x is None:
                # a factor known to be positive (the font scale) does not change the sign: s*p and p are the same question
                for pa in getattr(self, 'poly_positive', ()):
                    while d.t and all(pa in k for k in d.t):
                        t2 = {}
                        for k, v in d.t.items():
                            kk = list(k)
                            kk.remove(pa)
                            t2[tuple(kk)] = v
                        d = Poly(t2)
                x = d.const()
            if x is None:
                # sign of a non-constant polynomial: both ways (equality has measure zero), the same answer every time in one run
                memo = self.__dict__.setdefault('poly_sign', {})
                kk = d.key()
                if kk not in memo:
                    nk = (-d).key()
                    memo[kk] = -memo[nk] if nk in memo else (1, -1)[self.ch.choose(2)]
                x = memo[kk]
            y = 0
        elif isinstance(a, Co) and isinstance(b, Co):
            x, y = a.v, b.v
        elif isinstance(a, Df) and isinstance(b, (int, float)) and b == 0:
            x, y = a.v, 0
        elif isinstance(b, Df) and isinstance(a, (int, float)) and a == 0:
            x, y = 0, b.v
        elif isinstance(a, (int, float)) and isinstance(b, (int, float)):
            x, y = a, b
        elif isinstance(a, It) and isinstance(b, It):
            if a.vec is not b.vec:
                self.broken(fn, e, 'iterators of different vectors compared')
            self.fresh(a, fn, e, 'comparison')
            self.fresh(b, fn, e, 'comparison')
            x, y = a.idx, b.idx
        elif op in ('==', '!=') and ((isinstance(a, It) and (isinstance(b, Ptr) and b.rec is None or isinstance(b, int) and b == 0)) or
                                     (isinstance(b, It) and (isinstance(a, Ptr) and a.rec is None or isinstance(a, int) and a == 0))):
            return op == '!='            # a pointer into a vector is not null
        elif isinstance(a, Ptr) and isinstance(b, Ptr) and op in ('==', '!='):
            return (a.rec is b.rec) == (op == '==')
        elif isinstance(a, Ptr) and isinstance(b, Ptr) and a.rec is b.rec:
            return op in ('<=', '>=')            # the same pointer (two null ends of an empty vector in an assert): ordered as equal
        elif op in ('==', '!=') and ((isinstance(a, PtrLV) and (isinstance(b, Ptr) and b.rec is None or isinstance(b, int) and b == 0)) or
                                     (isinstance(b, PtrLV) and (isinstance(a, Ptr) and a.rec is None or isinstance(a, int) and a == 0))):
            return op == '!='            # the address of a local is not null
        elif op in ('==', '!=') and ((callable(a) and (isinstance(b, Ptr) and b.rec is None or isinstance(b, int) and b == 0)) or
                                     (callable(b) and (isinstance(a, Ptr) and a.rec is None or isinstance(a, int) and a == 0))):
            return op == '!='            # a function the harness supplied is not a null function pointer
        elif isinstance(a, Ptr) and isinstance(b, int) and b == 0 and op in ('==', '!='):
            return (a.rec is None) == (op == '==')
        elif isinstance(b, Ptr) and isinstance(a, int) and a == 0 and op in ('==', '!='):
            return (b.rec is None) == (op == '==')
        elif isinstance(a, Op) or isinstance(b, Op):
            return self.opaque_compare(op, a, b, fn, e)
        elif isinstance(a, W) and isinstance(b, (int, float)) or isinstance(b, W) and isinstance(a, (int, float)):
            # sign test of an accumulated weight (sm < 0): value-level, both ways
            return self.ch.choose(2) == 0
        elif (isinstance(a, Co) and isinstance(b, (int, float))) or (isinstance(b, Co) and isinstance(a, (int, float))):
            self.broken(fn, e, 'a coordinate is compared with a constant: not order-type invariant')
        elif isinstance(a, Df) or isinstance(b, Df):
            self.broken(fn, e, 'a coordinate difference is compared with something other than 0: not order-type invariant')
        else:
            self.broken(fn, e, 'comparison %s of %s and %s' % (op, type(a).__name__, type(b).__name__))
        return {'<': x < y, '>': x > y, '<=': x <= y, '>=': x >= y, '==': x == y, '!=': x != y}[op]

    def opaque_compare(self, op, a, b, fn, e):
        # FLT_MAX sentinel logic: max vs ltmax is decided, everything else is a free choice
        ka = a.kind if isinstance(a, Op) else None
        kb = b.kind if isinstance(b, Op) else None
        if ka == 'max' and kb == 'max':
            return {'<': False, '>': False, '<=': True, '>=': True, '==': True, '!=': False}[op]
        if ka == 'ltmax' and kb == 'max':
            return {'<': True, '>': False, '<=': True, '>=': False, '==': False, '!=': True}[op]
        if ka == 'max' and kb == 'ltmax':
            return {'<': False, '>': True, '<=': False, '>=': True, '==': False, '!=': True}[op]
        r = self.ch.choose(2) == 0
        # an opaque position compared with a coordinate: remember on which side it lies
        for p_, q_, o_ in ((a, b, op), (b, a, {'<': '>', '>': '<', '<=': '>=', '>=': '<='}.get(op, op))):
            if isinstance(p_, Op) and isinstance(q_, Co) and o_ in ('<', '>', '<=', '>='):
                below = (o_ in ('<', '<=')) == r
                p_.facts.append(('<=' if below else '>=', q_.v))
        # remember what a strict comparison with the sentinel teaches
        if isinstance(a, Op) and isinstance(b, Op):
            lt = (op == '<' and r) or (op == '>=' and not r)
            gt = (op == '>' and r) or (op == '<=' and not r)
            if kb == 'max' and lt and ka == 'any':
                a.kind = 'ltmax'
            if ka == 'max' and gt and kb == 'any':
                b.kind = 'ltmax'
        return r

    def arith(self, op, a, b, fn, e):
        if isinstance(a, bool):
            a = int(a)
        if isinstance(b, bool):
            b = int(b)
        if getattr(self, 'exact_floats', False) and (isinstance(a, float) or isinstance(b, float)) and isinstance(a, (int, float, Poly)) and isinstance(b, (int, float, Poly)):
            a, b = Poly.of(a), Poly.of(b)         # float constants are exact rationals
        if isinstance(a, int) and isinstance(b, int):
            f = {'+': lambda x, y: x + y, '-': lambda x, y: x - y, '*': lambda x, y: x * y, '<<': lambda x, y: x << y,
                 '>>': lambda x, y: x >> y, '&': lambda x, y: x & y, '|': lambda x, y: x | y, '^': lambda x, y: x ^ y,
                 '/': lambda x, y: x // y if y else 0, '%': lambda x, y: x % y if y else 0}.get(op)
            if f is None:
                self.broken(fn, e, 'integer operator %s' % op)
            return f(a, b)
        for z in (a, b):
            if isinstance(z, Lz):
                other = b if z is a else a
                if getattr(self, 'lz_arith_ok', False):
                    if z.v is None:
                        z.v = z.cands[self.ch.choose(len(z.cands))]
                    a = a.v if isinstance(a, Lz) else a
                    b = b.v if isinstance(b, Lz) else b
                    if isinstance(a, Lz) or isinstance(b, Lz):
                        continue
                    return self.arith(op, a, b, fn, e)
                if op != '&' or not isinstance(other, int):
                    self.broken(fn, e, 'an input code unit is used in arithmetic (%s) other than masking with a constant: the value partition is no longer exact' % op)
                if z.v is None:
                    z.v = z.cands[self.ch.choose(len(z.cands))]
                return z.v & other
        if isinstance(a, Poly) or isinstance(b, Poly):
            if isinstance(a, (Poly, int, float)) and isinstance(b, (Poly, int, float)):
                if op == '+':
                    return Poly.of(a) + b
                if op == '-':
                    return Poly.of(a) - b
                if op == '*':
                    return Poly.of(a) * b
                if op == '/' and isinstance(b, Poly) and b.const() is not None:
                    b = b.const()
                if op == '/' and not isinstance(b, Poly) and b == 0:
                    raise Violation('a float is divided by zero (the quotient is infinite or NaN)', fn.loc(e))
                if op == '/' and not isinstance(b, Poly) and b != 0:
                    from fractions import Fraction
                    return Poly.of(a) * (Fraction(1) / Fraction(b))
            self.broken(fn, e, 'operator %s on %s and %s: not a polynomial of the symbolic inputs' % (op, type(a).__name__, type(b).__name__))
        if isinstance(a, It) and isinstance(b, int) and op in ('+', '-'):
            return It(a.vec, a.idx + (b if op == '+' else -b), a.gen)
        if isinstance(a, It) and isinstance(b, It) and op == '-':
            return a.idx - b.idx
        if isinstance(a, Ptr) and isinstance(b, Ptr) and a.rec is None and b.rec is None and op == '-':
            return 0
        if isinstance(a, EndPtr) and isinstance(b, Ptr) and not isinstance(b, EndPtr) and a.rec is b.rec and op == '-':
            return a.size
        if isinstance(a, Ptr) and a.rec is None and isinstance(b, int) and op in ('+', '-') and b == 0:
            return a
        if isinstance(a, Co) and isinstance(b, Co) and op == '-':
            return Df(a.v - b.v)
        if isinstance(a, W) and isinstance(b, W) and op == '+':
            return W(a.tags + b.tags)
        if isinstance(a, (Co, Df)) or isinstance(b, (Co, Df)):
            if getattr(self, 'coords_may_feed_costs', False):
                return Op()
            self.broken(fn, e, 'arithmetic (%s) on an interval coordinate: the function is not comparison-only' % op)
        if isinstance(a, (Op, W, float, int)) and isinstance(b, (Op, W, float, int)):
            return Op()
        self.broken(fn, e, 'operator %s on %s and %s' % (op, type(a).__name__, type(b).__name__))

    # ---- the interpreter ---------------------------------------------------------------------------
    def call(self, fn, this, args, depth=0):
        if depth > 12:
            raise AnalysisBroken('%s: call depth' % fn.q)
        env = {}
        ps = fn.f.get('params') or []
        if len(ps) != len(args):
            raise AnalysisBroken('%s: %d arguments for %d parameters' % (fn.q, len(args), len(ps)))
        for p, a in zip(ps, args):
            t = p.get('t') or ''
            if t.rstrip().endswith('&'):
                if not isinstance(a, LV):
                    box = [a]
                    a = LV(box, 0)
                env[p['vid']] = ('alias', a)
            else:
                if isinstance(a, LV):
                    a = a.load()
                if isinstance(a, Rec):
                    a = copy_rec(a)
                env[p['vid']] = a
        b = fn.entry
        val = {}
        while True:
            blk = fn.blocks[b]
            for e in blk['el']:
                self.steps += 1
                if self.steps > self.MAX_STEPS:
                    raise Violation('the abstract run does not terminate within %d steps (a loop never reaches its exit)' % self.MAX_STEPS, fn.loc(e))
                r = self.ev(fn, e, env, val, this, depth)
                val.setdefault('#st', {})[e['i']] = self.steps
                if r is not None and r[0] == 'ret':
                    return r[1]
            succ = blk['succ']
            if b == fn.exit or not succ:
                return None
            t = blk.get('term') or {}
            if len(succ) == 1:
                b = succ[0]
                continue
            if t.get('cond') is None and t.get('condx') is None and t.get('k') != 'SwitchStmt' and len([x for x in succ if x is not None]) == 1:
                b = [x for x in succ if x is not None][0]          # `for (;;)`: the exit edge does not exist
                continue
            if t.get('k') == 'SwitchStmt':
                sv = val.get(t.get('cond'))
                if isinstance(sv, bool):
                    sv = int(sv)
                if not isinstance(sv, int):
                    self.broken(fn, t, 'switch on a non-integer')
                tgt = None
                dflt = None
                for s in succ:
                    if s is None:
                        continue
                    lab = fn.blocks[s].get('label') or {}
                    if lab.get('k') == 'CaseStmt':
                        lo, hi = lab.get('lo'), lab.get('hi', lab.get('lo'))
                        if lo is not None and lo <= sv <= hi:
                            tgt = s
                            break
                    elif lab.get('k') == 'DefaultStmt':
                        dflt = s
                if tgt is None:
                    tgt = dflt if dflt is not None else succ[-1]
                if tgt is None:
                    # clang prunes the edge to `default:` when the cases cover every enumerator; a value outside the enumeration still goes there
                    cands = [x for x in fn.blocks if (fn.blocks[x].get('label') or {}).get('k') == 'DefaultStmt' and not fn.preds.get(x)]
                    if len(cands) != 1:
                        self.broken(fn, t, 'switch value %r matches no case and the default arm cannot be located' % (sv,))
                    tgt = cands[0]
                b = tgt
                continue
            cond = t.get('cond')
            cx = t.get('condx')

            def inline_truth(x):
                """truth of a condition that the extractor kept as an inline tree over already evaluated elements"""
                if isinstance(x, int):
                    if x not in val:
                        return None
                    return self.truth(self.rv(val[x]), fn, fn.N(x))
                k_ = x.get('k')
                if k_ in ('ExprWithCleanups', 'ParenExpr', 'ImplicitCastExpr', 'MaterializeTemporaryExpr', 'CXXBindTemporaryExpr') and x.get('c'):
                    return inline_truth(x['c'][0])
                if k_ == 'UnaryOperator' and x.get('op') == '!' and x.get('c'):
                    r_ = inline_truth(x['c'][0])
                    return None if r_ is None else (not r_)
                if k_ == 'BinaryOperator' and x.get('op') in ('&&', '||'):
                    a_ = inline_truth(x['c'][0])
                    if a_ is None:
                        return None
                    if (x['op'] == '&&' and not a_) or (x['op'] == '||' and a_):
                        return a_
                    b_ = inline_truth(x['c'][1])
                    return a_ if b_ is None else b_
                if x.get('v') is not None:
                    return bool(x['v'])
                return None
            if cond is None and isinstance(cx, dict):
                tr = inline_truth(cx)
                if tr is None:
                    self.broken(fn, t, 'two-way branch whose inline condition could not be evaluated')
                nxt = succ[0] if tr else succ[1]
                if nxt is None:
                    return None
                b = nxt
                continue
            if cond is None or cond not in val:
                self.broken(fn, t or blk['el'][-1] if blk['el'] else {'ln': fn.f.get('l0')}, 'two-way branch without an evaluated condition')
            v = val[cond]
            if isinstance(v, LV):
                v = v.load()
            if v is None and fn.N(cond).get('v') is not None:
                v = fn.N(cond)['v']                 # a condition the compiler folded (sizeof(T) > 1): its value is in the node
            if v is None and len([x for x in succ if x is not None]) == 1:
                b = [x for x in succ if x is not None][0]        # ... and the edge it can never take was pruned from the graph
                continue
            tr = self.truth(v, fn, fn.N(cond))
            nxt = succ[0] if tr else succ[1]
            if nxt is None:
                return None
            b = nxt

    def rv(self, v):
        return v.load() if isinstance(v, LV) else v

    def ev(self, fn, e, env, val, this, depth):
        k, i = e['k'], e['i']
        c = e.get('c') or []

        def V(x):
            if isinstance(x, int):
                return val.get(x)
            n = fn.N(x)
            if n.get('v') is not None:
                return n['v']
            if n.get('k') in ('ExprWithCleanups', 'ParenExpr', 'MaterializeTemporaryExpr', 'CXXBindTemporaryExpr', 'ConstantExpr') and n.get('c'):
                return V(n['c'][0])          # wrappers that the extractor keeps inline
            return None

        if k in ('SubstNonTypeTemplateParmExpr', 'ConstantExpr', 'SizeOfPackExpr') and e.get('v') is not None:
            val[i] = e['v']
            return
        if k in ('CXXNullPtrLiteralExpr', 'GNUNullExpr'):
            val[i] = Ptr(None)
            return
        if k == 'UnaryExprOrTypeTraitExpr' and e.get('v') is not None:
            val[i] = e['v']
            return
        if k in ('IntegerLiteral', 'CXXBoolLiteralExpr', 'CharacterLiteral'):
            val[i] = e.get('v') if k != 'CXXBoolLiteralExpr' else bool(e.get('v'))
            return
        if k == 'FloatingLiteral':
            fv = e.get('fv')
            val[i] = fv if fv is not None else Op()
            return
        if k == 'DeclRefExpr':
            if e.get('vid') is not None:
                cur = env.get(e['vid'])
                if isinstance(cur, tuple) and cur and cur[0] == 'alias':
                    val[i] = cur[1]
                else:
                    val[i] = LV(env, e['vid'])
            elif e.get('v') is not None:
                val[i] = e['v']
            else:
                g = self.const_global(e.get('d')) if e.get('dk') == 'Var' else None
                val[i] = g if g is not None else Fnref(e)
            return
        if k == 'CXXThisExpr':
            val[i] = Ptr(this)
            return
        if k == 'InitListExpr':
            # aggregate initialisation of a plain struct: one initialiser per field, in declaration order; a reference field is bound
            tq = (e.get('t') or '').replace('const ', '').replace('struct ', '').strip()
            import re as _re
            ma_ = _re.search(r'\[(\d+)\]$', tq)
            if ma_ and int(ma_.group(1)) <= 64 and self.fx.raw['records'].get(tq[:ma_.start()].strip()) is None:
                # brace initialisation of a fixed-size array of scalars: the listed values, then zeros
                n_ = int(ma_.group(1))
                vals_ = [self.rv(V(ci)) for ci in c][:n_]
                vec_ = Vec(vals_ + [0] * (n_ - len(vals_)))
                vec_.u8 = bool(_re.match(r'(graphite2::)?(byte|uint8|unsigned char|gr_uint8)\b', tq))
                val[i] = It(vec_, 0)
                return
            rc = self.fx.raw['records'].get(tq)
            if rc is None or len(rc['fields']) != len(c):
                self.broken(fn, e, 'aggregate initialisation of %s' % tq)
            r_ = Rec()
            for f_, ci in zip(rc['fields'], c):
                v_ = V(ci)
                if (f_.get('t') or '').rstrip().endswith('&'):
                    if isinstance(v_, LV) and isinstance(v_.load(), Rec):
                        v_ = v_.load()
                    elif not isinstance(v_, (LV, Rec)):
                        self.broken(fn, e, 'reference field %s bound to a %s' % (f_['n'], type(v_).__name__))
                else:
                    v_ = self.rv(v_)
                r_[rc['q'] + '::' + f_['n']] = v_
            val[i] = r_
            return
        if k in ('ParenExpr', 'ExprWithCleanups', 'MaterializeTemporaryExpr', 'CXXBindTemporaryExpr', 'CXXFunctionalCastExpr', 'ConstantExpr', 'SubstNonTypeTemplateParmExpr') and c:
            val[i] = V(c[0])
            return
        if k.endswith('CastExpr'):
            ck = e.get('ck')
            s = V(c[0])
            if ck == 'LValueToRValue':
                if isinstance(s, LV):
                    s = s.load()
                if s is UNDEF:
                    raise Violation('a cell of a local array is read that was never written on this path (its value is whatever the stack held)', fn.loc(e))
                val[i] = s
            elif ck in ('IntegralCast', 'IntegralToBoolean', 'NoOp', 'FunctionToPointerDecay', 'FloatingCast', 'ArrayToPointerDecay',
                        'ConstructorConversion', 'UserDefinedConversion', 'DerivedToBase', 'UncheckedDerivedToBase', 'BuiltinFnToFnPtr'):
                if ck == 'IntegralToBoolean' and isinstance(s, int):
                    s = bool(s)
                if ck == 'IntegralCast' and isinstance(s, (Co, Lz)):
                    from .cfg import int_type
                    tt = int_type(e.get('t'))
                    ft = int_type(fn.N(c[0]).get('t'))
                    if tt and ft and (tt[0] < ft[0] or (tt[1] and not ft[1] and tt[0] <= ft[0])):
                        if isinstance(s, Lz) and s.v is not None and getattr(self, 'lz_arith_ok', False):
                            v_ = s.v & ((1 << tt[0]) - 1)          # a chosen representative converts like the number it is
                            s = v_ - (1 << tt[0]) if (tt[1] and v_ >= (1 << (tt[0] - 1))) else v_
                        else:
                            s = Op()             # truncation / reinterpretation as signed: order is not preserved, the value is opaque from here on
                if ck == 'IntegralCast' and isinstance(s, int) and not isinstance(s, bool):
                    from .cfg import int_type
                    tt = int_type(e.get('t'))
                    if tt and not tt[1]:
                        s &= (1 << tt[0]) - 1
                    elif tt and tt[1]:
                        s &= (1 << tt[0]) - 1
                        if s >= (1 << (tt[0] - 1)):
                            s -= (1 << tt[0])            # two's-complement reinterpretation (size_t difference stored in a ptrdiff_t)
                val[i] = s
            elif ck in ('IntegralToFloating',):
                if getattr(self, 'exact_floats', False) and isinstance(s, int):
                    s = Poly.of(int(s))           # a float from here on: `/` is float division, not integer division
                val[i] = s if isinstance(s, (int, float, Poly)) else Op()
            elif ck in ('FloatingToIntegral', 'FloatingToBoolean'):
                if isinstance(s, (Co, Df)):
                    self.broken(fn, e, 'a coordinate is converted to an integer')
                if isinstance(s, Poly):
                    if s.const() is None:
                        self.broken(fn, e, 'a symbolic float is converted to an integer: not a polynomial')
                    import math as _m
                    s = int(_m.trunc(s.const())) if ck == 'FloatingToIntegral' else (s.const() != 0)          # an exact constant truncates like the number it is
                    if ck == 'FloatingToIntegral' and abs(s) >= 2 ** 31:
                        raise Violation('a float of magnitude %.3g is converted to int: undefined behaviour' % float(s), fn.loc(e))
                val[i] = s if isinstance(s, (int, float)) else Op()
            elif ck == 'PointerToBoolean':
                val[i] = (s.rec is not None) if isinstance(s, Ptr) else True      # It, PtrLV: non-null
            elif ck == 'NullToPointer':
                val[i] = Ptr(None)
            elif ck == 'BitCast' and isinstance(s, Ptr) and s.rec is not None and '#flat' in s.rec and 'short' in (e.get('t') or ''):
                val[i] = It(s.rec['#flat'], 0)         # a table struct laid over an array of 16-bit cells, viewed as that array
            else:
                val[i] = s
            return
        if k == 'MemberExpr':
            base = V(c[0]) if c else None
            if e.get('dk') in ('CXXMethod', 'CXXConstructor', 'CXXDestructor', 'CXXConversion'):
                val[i] = ('bound', base, e)
                return
            if e.get('arrow'):
                p = self.rv(base)
                if isinstance(p, It):
                    rec = self.deref_it(p, fn, e).load()
                elif isinstance(p, Ptr):
                    if p.rec is None:
                        raise Violation('a null pointer is dereferenced (%s)' % fn.render(e), fn.loc(e))
                    rec = p.rec
                else:
                    self.broken(fn, e, '-> on a %s' % type(p).__name__)
            else:
                rec = self.rv(base)
            if not isinstance(rec, Rec):
                self.broken(fn, e, 'field access on a %s' % type(rec).__name__)
            if e['d'] not in rec:
                self.broken(fn, e, 'object has no modelled field %s' % e['d'])
            val[i] = LV(rec, e['d'])
            return
        if k == 'UnaryOperator':
            op = e['op']
            s = V(c[0])
            if op == '*':
                p = self.rv(s)
                if isinstance(p, It):
                    val[i] = self.deref_it(p, fn, e)
                elif isinstance(p, PtrLV):
                    val[i] = p.lv
                elif isinstance(p, Ptr):
                    if p.rec is None:
                        raise Violation('a null pointer is dereferenced', fn.loc(e))
                    val[i] = LV([p.rec], 0)
                elif callable(p):
                    val[i] = p                 # *fp of a function pointer is the function
                else:
                    self.broken(fn, e, 'dereference of a %s' % type(p).__name__)
                return
            if op in ('pre++', 'pre--', 'post++', 'post--'):
                if not isinstance(s, LV):
                    self.broken(fn, e, 'increment of a non-lvalue')
                cur = s.load()
                d = 1 if '++' in op else -1
                if isinstance(cur, It):
                    new = It(cur.vec, cur.idx + d, cur.gen)
                elif isinstance(cur, int):
                    new = cur + d
                else:
                    self.broken(fn, e, 'increment of a %s' % type(cur).__name__)
                s.store(new)
                val[i] = s if op.startswith('pre') else cur
                return
            if op == '!':
                val[i] = not self.truth(self.rv(s), fn, e)
                return
            if op == '-':
                s = self.rv(s)
                if isinstance(s, (int, float)):
                    val[i] = -s
                elif isinstance(s, Poly):
                    val[i] = -s
                elif isinstance(s, (Co, Df)):
                    self.broken(fn, e, 'negation of a coordinate')
                else:
                    val[i] = Op()
                return
            if op == '&':
                if isinstance(s, Fnref):
                    val[i] = s
                    return
                if isinstance(s, LV) and s.it is not None and not isinstance(s.load(), Rec):
                    val[i] = It(s.it.vec, s.it.idx, s.it.gen)
                    return
                if isinstance(s, LV) and not isinstance(s.load(), Rec):
                    val[i] = PtrLV(s)
                    return
                if isinstance(s, LV) and isinstance(s.box, list) and isinstance(s.load(), Rec):
                    val[i] = Ptr(s.load())
                elif isinstance(s, LV) and isinstance(s.load(), Rec):
                    val[i] = Ptr(s.load())
                else:
                    self.broken(fn, e, 'address of a non-object')
                return
            if op == '~':
                s = self.rv(s)
                r = ~s if isinstance(s, int) else Op()
                if isinstance(r, int):
                    from .cfg import int_type
                    tt = int_type(e.get('t'))
                    if tt and not tt[1]:
                        r &= (1 << tt[0]) - 1          # ~ of an unsigned value stays in its width
                val[i] = r
                return
            self.broken(fn, e, 'unary operator %s' % op)
        if k == 'ArraySubscriptExpr':
            base, ix = self.rv(V(c[0])), self.rv(V(c[1]))
            if isinstance(ix, It) and isinstance(base, int):
                base, ix = ix, base
            if isinstance(base, It) and isinstance(ix, int):
                val[i] = self.deref_it(It(base.vec, base.idx + ix, base.gen), fn, e)
                return
            if isinstance(base, Ptr) and base.rec is None and isinstance(ix, int):
                raise Violation('a null pointer is subscripted (element %d of a block that was never allocated)' % ix, fn.loc(e))
            self.broken(fn, e, 'subscript of a %s by a %s' % (type(base).__name__, type(ix).__name__))
        if k == 'ConditionalOperator':
            arms = [x for x in c[1:3] if isinstance(x, int) and x in val]
            # only the arm on the executed path has been evaluated *after* the condition; pick by the condition's truth
            cv = self.rv(V(c[0]))
            if cv is None and arms:
                # the condition is a short-circuit expression spread over several blocks (no value of its own): the arm that was
                # evaluated on this path -- in a loop: most recently -- is the one the condition chose
                st_ = val.get('#st', {})
                val[i] = V(max(arms, key=lambda a_: st_.get(a_, -1)))
                return
            tr = self.truth(cv, fn, e) if not isinstance(cv, Op) else None
            if tr is None:
                self.broken(fn, e, 'conditional operator on an opaque value')
            pick = c[1] if tr else c[2]
            val[i] = V(pick)
            return
        if k == 'DeclStmt':
            for d in e['decls']:
                if d.get('dk') != 'Var':
                    continue
                if d.get('init') is None:
                    import re as _re
                    m_ = _re.search(r'\[(\d+)\]$', (d.get('t') or '').strip())
                    if m_ and int(m_.group(1)) <= 64 and not (d.get('t') or '').strip().endswith(']['):
                        # a fixed-size local array of scalars: cells hold UNDEF until written (reading one is a Violation); the array
                        # value is the pointer to its first cell
                        vec_ = Vec([UNDEF] * int(m_.group(1)))
                        vec_.u8 = bool(_re.match(r'(const )?(graphite2::)?(byte|uint8|unsigned char|gr_uint8)\b', (d.get('t') or '').strip()))
                        env[d['vid']] = It(vec_, 0)
                        continue
                    env[d['vid']] = None
                    continue
                v = V(d['init'])
                t = (d.get('t') or '').rstrip()
                if t.endswith('&'):
                    if not isinstance(v, LV):
                        v = LV([v], 0)
                    env[d['vid']] = ('alias', v)
                else:
                    v = self.rv(v)
                    if isinstance(v, Rec):
                        v = copy_rec(v)
                    env[d['vid']] = v
            return
        if k in ('BinaryOperator', 'CompoundAssignOperator'):
            op = e['op']
            a, b = V(c[0]), V(c[1])
            if op == '=':
                if not isinstance(a, LV):
                    self.broken(fn, e, 'assignment to a non-lvalue')
                bv = self.rv(b)
                if isinstance(bv, Rec):
                    bv = copy_rec(bv)
                a.store(bv)
                val[i] = a
                return
            if op == ',':
                val[i] = b
                return
            if op in ('&&', '||'):
                # value of a short-circuit operator that is not itself a terminator: its operands were evaluated (or skipped) in earlier
                # blocks of this path; an operand that is not in `val` was short-circuited away
                def logic(x):
                    if isinstance(x, int):
                        if x not in val:
                            return None
                        return self.truth(self.rv(val[x]), fn, e)
                    if x.get('k') == 'BinaryOperator' and x.get('op') in ('&&', '||'):
                        a_ = logic(x['c'][0])
                        if a_ is None:
                            return None
                        if (x['op'] == '&&' and not a_) or (x['op'] == '||' and a_):
                            return a_
                        b_ = logic(x['c'][1])
                        return a_ if b_ is None else b_
                    if x.get('k') in ('ParenExpr', 'ImplicitCastExpr') and x.get('c'):
                        return logic(x['c'][0])
                    if x.get('v') is not None:
                        return bool(x['v'])
                    return None
                r = logic(e)
                if r is None:
                    self.broken(fn, e, 'a logical expression whose operands were not evaluated on this path')
                val[i] = r
                return
            if k == 'CompoundAssignOperator':
                base = op[:-1]
                if not isinstance(a, LV):
                    self.broken(fn, e, 'compound assignment to a non-lvalue')
                r = self.arith(base, a.load(), self.rv(b), fn, e)
                if isinstance(r, int) and not isinstance(r, bool):
                    from .cfg import int_type
                    tt = int_type(e.get('t'))
                    if tt and not tt[1]:
                        r &= (1 << tt[0]) - 1          # `size_t n += ptrdiff_t(-1)` wraps back into range
                a.store(r)
                val[i] = a
                return
            av, bv = self.rv(a), self.rv(b)
            if op in ('<', '>', '<=', '>=', '==', '!='):
                val[i] = self.compare(op, av, bv, fn, e)
            else:
                r = self.arith(op, av, bv, fn, e)
                if isinstance(r, int) and not isinstance(r, bool):
                    from .cfg import int_type
                    tt = int_type(e.get('t'))
                    if tt and not tt[1]:
                        r &= (1 << tt[0]) - 1          # unsigned arithmetic wraps (size_t p - 1 at p == 0)
                val[i] = r
            return
        if k == 'ReturnStmt':
            v = V(c[0]) if c else None
            rt = (fn.f.get('ret') or '').rstrip()
            if not rt.endswith('&'):
                v = self.rv(v)
                if isinstance(v, Rec):
                    v = copy_rec(v)
            return ('ret', v)
        if k in ('CXXConstructExpr', 'CXXTemporaryObjectExpr'):
            args = [V(x) for x in (e.get('args') if e.get('args') is not None else c)]
            k_ = self.lookup(fn, e)
            user = k_ is not None and not self.fx.raw['functions'][k_].get('implicit') and self.fx.raw['functions'][k_].get('blocks')
            if (e.get('copyctor') or e.get('movector')) and not (user and (e.get('fq') or '') not in self.natives and getattr(self, 'run_user_copies', False)):
                src = self.rv(args[0])
                if not isinstance(src, Rec):
                    self.broken(fn, e, 'copy construction from a %s' % type(src).__name__)
                val[i] = copy_rec(src)
                return
            nat = self.natives.get(e.get('fq') or '')
            if nat is not None:
                val[i] = nat(self, fn, e, None, args)
                return
            key = self.lookup(fn, e)
            if key is None:
                self.broken(fn, e, 'constructor %s has no facts' % e.get('fq'))
            obj = self.new_object(self.fx.raw['functions'][key].get('cls') or e.get('t'), fn, e)
            self.call(self.fx.fn(key), obj, args, depth + 1)
            val[i] = obj
            return
        if k == 'Init':
            v = self.rv(V(e['init'])) if e.get('init') is not None else None
            if isinstance(v, Rec) and not (e.get('ft') or '').rstrip().endswith('&'):
                v = copy_rec(v)              # a reference member aliases the object, a value member copies it
            if e.get('field') is None:
                if isinstance(v, Rec):
                    this.update(v)           # a base-class initialiser: the base sub-object's members are members of this object
                return
            this[e['field']] = v
            return
        if k in ('CallExpr', 'CXXMemberCallExpr', 'CXXOperatorCallExpr'):
            val[i] = self.do_call(fn, e, env, val, this, depth)
            return
        if k == 'CXXNewExpr' and not e.get('nplace') and not e.get('place') and e.get('asize') is None and e.get('init') is not None:
            iv = self.rv(V(e['init']))
            if isinstance(iv, Rec):
                val[i] = Ptr(copy_rec(iv))          # `new T(args)`: a fresh object holding what the constructor produced
                return
            self.broken(fn, e, 'new of a %s' % type(iv).__name__)
        if k == 'CXXNewExpr' and not e.get('nplace') and not e.get('place') and e.get('asize') is not None:
            n_ = self.rv(V(e['asize']))
            if not isinstance(n_, int) or n_ < 0 or n_ > 4096:
                self.broken(fn, e, 'array new of a non-constant or large size')
            iv = self.rv(V(e['init'])) if e.get('init') is not None else None
            val[i] = It(Vec([copy_rec(iv) if isinstance(iv, Rec) else (Rec() if iv is None else iv) for _ in range(n_)]), 0)     # `new T[n]`: n default-constructed cells
            return
        if k == 'CXXNewExpr' and e.get('nplace') == 1 and e.get('place'):
            tgt = self.rv(V(e['place'][0]))
            iv = self.rv(V(e['init'])) if e.get('init') is not None else None
            if isinstance(iv, Rec):
                iv = copy_rec(iv)
            if isinstance(tgt, It):
                self.deref_it(tgt, fn, e).store(iv)
                val[i] = tgt
                return
            if isinstance(tgt, Ptr) and tgt.rec is not None and isinstance(iv, Rec):
                keep = {k_: v_ for k_, v_ in tgt.rec.items() if isinstance(k_, str) and k_.startswith('#')}     # the analysis' own labels are not part of the object
                tgt.rec.clear()
                tgt.rec.update(iv)
                tgt.rec.update(keep)
                val[i] = tgt
                return
            self.broken(fn, e, 'placement new at a %s' % type(tgt).__name__)
        if k == 'CXXPseudoDestructorExpr' or (k in ('CXXMemberCallExpr', 'CallExpr') and (e.get('fq') or '').endswith('::~')):
            val[i] = None
            return
        if k == 'CXXDefaultArgExpr':
            val[i] = e.get('v') if e.get('v') is not None else (V(e['defarg']) if e.get('defarg') is not None else Op())
            return
        if k in ('AttributedStmt', 'NullStmt', 'AutoDtor', 'TempDtor', 'MemberDtor', 'BaseDtor', 'DeleteDtor', 'LifetimeEnds', 'ScopeEnd', 'ScopeBegin'):
            return
        self.broken(fn, e, 'expression kind %s is not modelled' % k)

    def const_global(self, q):
        """a namespace-scope / static-member constant array with a constant initialiser list (a look-up table): an iterator over its values"""
        cache = self.fx.__dict__.setdefault('_const_globals', {})
        if q in cache:
            return It(cache[q], 0) if cache[q] is not None else None
        cache[q] = None
        for v in self.fx.raw.get('vars', []):
            if v.get('q') == q and v.get('def') and v.get('const') and isinstance(v.get('init'), dict) and '[' in (v.get('t') or ''):
                items = [x.get('v') for x in v['init'].get('c', [])]
                if items and all(isinstance(x, int) for x in items):
                    cache[q] = Vec(items)
        return It(cache[q], 0) if cache[q] is not None else None

    def lookup(self, fn, e):
        fm = e.get('fm')
        fns = self.fx.raw['functions']
        if fm in fns:
            return fm
        k = '%s@%s' % (fm, fn.f.get('unit'))
        return k if k in fns else None

    def new_object(self, t, fn, e):
        t = (t or '').replace('const ', '').strip()
        r = self.fx.raw['records'].get(t)
        if r is None and '<' in t and self.fx.raw['records'].get(t.replace('<', '<const ', 1)):
            t = t.replace('<', '<const ', 1)          # the class name of an instantiation is printed without the argument's const
            r = self.fx.raw['records'][t]
        if r is None:
            self.broken(fn, e, 'no record facts for %s' % t)
        o = Rec()
        for f in r.get('fields', []):
            o[f['q'] if 'q' in f else t + '::' + f['n']] = None
        return o

    def do_call(self, fn, e, env, val, this, depth):
        fq = e.get('fq') or ''
        if not fq and e.get('c') and fn.N(e['c'][0]).get('k') == 'CXXPseudoDestructorExpr':
            return None                      # p->~T() of a scalar: nothing happens
        argids = e.get('args')
        if argids is None:
            argids = (e.get('c') or [])[1:]
        args = [val.get(x) if isinstance(x, int) else (fn.N(x).get('v')) for x in argids]
        if not fq and e.get('c') and isinstance(e['c'][0], int):
            cv = self.rv(val.get(e['c'][0]))
            if callable(cv):
                return cv(self, fn, e, None, args)       # a call through a function pointer whose value the harness supplied (an application callback)
        obj = None
        if e.get('mcall') or e['k'] == 'CXXMemberCallExpr':
            o = val.get(e.get('obj')) if e.get('obj') is not None else None
            if o is None and e.get('c'):
                b_ = val.get(e['c'][0]) if isinstance(e['c'][0], int) else None
                if isinstance(b_, tuple) and b_ and b_[0] == 'bound':
                    o = b_[1]            # conversion operators: the object is the base of the bound member expression
            callee = fn.N((e.get('c') or [None])[0]) if e.get('c') else {}
            if isinstance(o, LV):
                ov = o.load()
            else:
                ov = o
            if isinstance(ov, It) and not (self.is_vec_method(fq) and not getattr(self, 'raw_vectors', False)):
                ov = self.deref_it(ov, fn, e).load()
            elif isinstance(ov, Ptr):
                if ov.rec is None:
                    raise Violation('a member function is called through a null pointer (%s)' % fq, fn.loc(e))
                ov = ov.rec
            obj = ov
        elif e['k'] == 'CXXOperatorCallExpr' and e.get('mcall') is None and args and self.lookup(fn, e) and self.fx.raw['functions'][self.lookup(fn, e)].get('cls') and not self.fx.raw['functions'][self.lookup(fn, e)].get('static'):
            # member operator: first argument is the object
            o = args[0]
            ov = o.load() if isinstance(o, LV) else o
            obj = ov
            args = args[1:]
        short = fq.split('::')[-1]
        if fq.startswith('graphite2::Vector<') and not getattr(self, 'raw_vectors', False):
            return self.vec_native(fn, e, short, obj, args)
        if fq.startswith('std::numeric_limits<float>::max') and fq not in self.natives:
            return Op('max')
        if fq in ('std::move', 'std::forward'):
            return args[0]
        if fq in ('be::swap',):
            return self.rv(args[0])              # byte order is a representation detail: the abstract cell holds the value
        if fq in ('be::peek',) and not (isinstance(self.rv(args[0]), It) and getattr(self.rv(args[0]).vec, 'u8', False)):
            p_ = self.rv(args[0])
            if isinstance(p_, It):
                return self.deref_it(p_, fn, e).load()
            self.broken(fn, e, 'be::peek of a %s' % type(p_).__name__)
        nat = self.natives.get(fq)
        if nat is not None:
            return nat(self, fn, e, obj, args)
        if fq in ('std::swap',) and len(args) == 2 and isinstance(args[0], LV) and isinstance(args[1], LV):
            x_, y_ = args[0].load(), args[1].load()
            args[0].store(y_)
            args[1].store(x_)
            return None
        if fq in ('memcpy', 'memmove', 'std::memcpy', '__builtin_memcpy'):
            d_, s_, n_ = self.rv(args[0]), self.rv(args[1]), self.rv(args[2])
            if isinstance(d_, It) and isinstance(s_, It) and isinstance(n_, int) and not isinstance(n_, bool) and 0 <= n_ <= 4096:
                # cell-wise (both blocks are arrays of one-byte cells here): every source cell is read and every target cell written
                # through the bounds-checked dereference
                vals_ = [self.deref_it(It(s_.vec, s_.idx + j_, s_.gen), fn, e).load() for j_ in range(n_)]
                for j_, v_ in enumerate(vals_):
                    if getattr(d_.vec, 'u8', False) and isinstance(v_, int) and not isinstance(v_, bool):
                        v_ &= 0xFF
                    self.deref_it(It(d_.vec, d_.idx + j_, d_.gen), fn, e).store(v_)
                return d_
            self.broken(fn, e, 'memcpy of %s <- %s, %s' % (type(d_).__name__, type(s_).__name__, type(n_).__name__))
        key = self.lookup(fn, e)
        if key is None:
            self.broken(fn, e, 'callee %s has no facts and no model' % fq)
        callee = self.fx.fn(key)
        if callee.f.get('cls') and obj is None and not callee.f.get('static'):
            self.broken(fn, e, 'member call %s without an object' % fq)
        if callee.f.get('cls') and not callee.f.get('static') and not isinstance(obj, Rec):
            self.broken(fn, e, 'member call %s on a %s' % (fq, type(obj).__name__))
        self.trace_calls.append(fq)
        return self.call(callee, obj, args, depth + 1)

    @staticmethod
    def is_vec_method(fq):
        return fq.startswith('graphite2::Vector<')

    def vec_native(self, fn, e, short, obj, args):
        if not isinstance(obj, Vec):
            self.broken(fn, e, 'Vector method on a %s' % type(obj).__name__)
        a = [self.rv(x) for x in args]
        if short == 'begin':
            return It(obj, 0)
        if short == 'end':
            return It(obj, len(obj.items))
        if short == 'size':
            return len(obj.items)
        if short == 'empty':
            return len(obj.items) == 0
        if short == 'clear':
            del obj.items[:]
            obj.gen += 1
            return None
        if short == 'reserve':
            obj.gen += 1
            return None
        if short == 'push_back':
            v = a[0]
            obj.items.append(copy_rec(v) if isinstance(v, Rec) else v)
            obj.gen += 1
            return None
        if short in ('front', 'back'):
            if not obj.items:
                raise Violation('%s() of an empty vector' % short, fn.loc(e))
            return LV(obj.items, 0 if short == 'front' else len(obj.items) - 1)
        if short == 'operator[]':
            ix = a[0]
            if not isinstance(ix, int):
                self.broken(fn, e, 'vector subscript that is not an integer')
            if not (0 <= ix < len(obj.items)):
                raise Violation('vector subscript %d outside [0, %d)' % (ix, len(obj.items)), fn.loc(e))
            self.derefs += 1
            return LV(obj.items, ix)
        if short in ('insert', 'push_back') and args and isinstance(args[-1], LV) and args[-1].box is obj.items:
            # the value is a REFERENCE to an element of this very vector: insert / push_back may move the storage before they copy from it
            raise Violation('%s(.., v) is handed a reference to an element of the vector it may reallocate: the value is read from the old, freed block' % short, fn.loc(e))
        if short == 'insert' and len(a) == 2:
            it, v = a
            if not isinstance(it, It) or it.vec is not obj:
                self.broken(fn, e, 'insert position is not an iterator of this vector')
            if not (0 <= it.idx <= len(obj.items)):
                raise Violation('insert position %d outside [0, %d]' % (it.idx, len(obj.items)), fn.loc(e))
            self.fresh(it, fn, e, 'insert')
            obj.items.insert(it.idx, copy_rec(v) if isinstance(v, Rec) else v)
            obj.gen += 1
            return It(obj, it.idx)
        if short == 'insert' and len(a) == 3:
            it, n_, v = a
            if not isinstance(it, It) or it.vec is not obj:
                self.broken(fn, e, 'insert position is not an iterator of this vector')
            if not isinstance(n_, int) or isinstance(n_, bool):
                self.broken(fn, e, 'insert count is a %s' % type(n_).__name__)
            if n_ < 0 or n_ > getattr(self, 'max_fill', 100000):
                raise Violation('insert(pos, %d, v): %d copies are asked for' % (n_, n_), fn.loc(e))
            if not (0 <= it.idx <= len(obj.items)):
                raise Violation('insert position %d outside [0, %d]' % (it.idx, len(obj.items)), fn.loc(e))
            self.fresh(it, fn, e, 'insert')
            obj.items[it.idx:it.idx] = [copy_rec(v) if isinstance(v, Rec) else v for _ in range(n_)]
            obj.gen += 1
            return It(obj, it.idx)
        if short == 'erase' and len(a) == 1:
            it = a[0]
            if not isinstance(it, It) or it.vec is not obj:
                self.broken(fn, e, 'erase position is not an iterator of this vector')
            if not (0 <= it.idx < len(obj.items)):
                raise Violation('erase position %d outside [0, %d)' % (it.idx, len(obj.items)), fn.loc(e))
            self.fresh(it, fn, e, 'erase')
            del obj.items[it.idx]           # erase moves the tail down in place: storage stays, pointers keep their meaning as positions
            return It(obj, it.idx)
        if short == 'resize' and len(a) in (1, 2):
            n_ = a[0]
            if not isinstance(n_, int) or n_ < 0:
                self.broken(fn, e, 'resize to a non-constant size')
            if n_ < len(obj.items):
                del obj.items[n_:]
            else:
                v_ = a[1] if len(a) == 2 else 0
                while len(obj.items) < n_:                 # only the elements that are ADDED take the value: the old ones stay as they are
                    obj.items.append(copy_rec(v_) if isinstance(v_, Rec) else v_)
            obj.gen += 1
            return None
        self.broken(fn, e, 'Vector::%s/%d is not modelled' % (short, len(a)))
