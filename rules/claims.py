"""What MANIFEST.json claims per property (text, trusted base, technique)."""

NOT_APPLICABLE = {
    'C17': 'every clause is continuous single-precision geometry over run-time glyph boxes, offsets and limits; no structural '
           'necessary condition decidable from the source was found (DESIGN.md section 6, C17) -- not claimed rather than '
           'approximated by a runtime test',
}

CLAIMS = {
    'C20': {
        'text': 'Decides the byte-level contract of gr_tag_to_str / gr_str_to_tag completely (both are loop-free: every CFG path is '
                'enumerated): exact set of buffer offsets stored and the tag byte each receives; every str[j] read only under a '
                'proved lower bound strlen >= j derived from the switch selector; zero- vs sign-extension of each byte from the '
                'type-checked cast chain; bytes accumulated per length.  The tag-padding clause is decided as a taint/sibling rule: '
                'both implementations of the space->zero normalisation implement the same four cases, and every tag-taking entry '
                'normalises before any other use.  Holds for all strings/tags because no run-time value enters the argument.',
        'note': 'Trusted: clang 14 parser/CFG/constant folder, tools/grfacts, rules/c20.py, rules/tagnorm.py; the rule knows the '
                'switch-on-length form and constant-offset stores, any other shape is exit 2 (analysis broken), never a pass.',
        'technique': 'CFG path enumeration + constant-offset pointer tracking + length lattice on switch edges + cast-chain typing (custom clang plugin facts)',
    },
    'C12': {
        'text': 'Decides the contract as a path property of the one loop that consumes text (all three encodings are separate '
                'template instantiations, each analysed): the decode of a character is followed by a NUL test whose zero edge '
                'leaves the loop and which dominates the iterator advance and appendSlot; exactly one decode per iteration; the '
                'consumed-character counter is returned and stored into both segment counts on every path.  The number of code '
                'units a single decode may look ahead is C11\'s clause (continuation-guarded look-ahead), not this one.',
        'note': 'Trusted: clang 14 CFG, tools/grfacts, rules/c12.py.  Unknown loop shapes are exit 2.  Byte-level look-ahead inside '
                'one UTF-8 decode is covered by C11 CONTGUARD.',
        'technique': 'CFG dominance / reachability path rule over template instantiations + def-use of the consumed count',
    },
}
