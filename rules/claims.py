"""What MANIFEST.json claims per property (text, trusted base, technique)."""

NOT_APPLICABLE = {
    'C17': 'every clause is continuous single-precision geometry over run-time glyph boxes, offsets and limits; no structural '
           'necessary condition decidable from the source was found (DESIGN.md section 6, C17) -- not claimed rather than '
           'approximated by a runtime test',
}

CLAIMS = {
    'C20': {
        'text': 'Decides the byte-level contract of gr_tag_to_str / gr_str_to_tag completely (both are loop-free: every CFG path is '
                'enumerated): exact set of buffer offsets stored and the tag byte each receives; every str[j] read only under a '
                'proved lower bound strlen >= j derived from the switch selector; zero- vs sign-extension of each byte from the '
                'type-checked cast chain; bytes accumulated per length.  The tag-padding clause is decided as a taint/sibling rule: '
                'both implementations of the space->zero normalisation implement the same four cases, and every tag-taking entry '
                'normalises before any other use.  Holds for all strings/tags because no run-time value enters the argument.',
        'note': 'Trusted: clang 14 parser/CFG/constant folder, tools/grfacts, rules/c20.py, rules/tagnorm.py; the rule knows the '
                'switch-on-length form and constant-offset stores, any other shape is exit 2 (analysis broken), never a pass.',
        'technique': 'CFG path enumeration + constant-offset pointer tracking + length lattice on switch edges + cast-chain typing (custom clang plugin facts)',
    },
}
